#!/usr/bin/env python3
# Runs every registered quick command of MANIFEST.json and prints one line each.
import json, subprocess, sys
m = json.load(open('/verif/MANIFEST.json'))
bad = 0
for c in m['checks']:
    r = subprocess.run(c['quick_cmd'], shell=True, capture_output=True, text=True, cwd='/verif')
    lines = (r.stdout + r.stderr).splitlines()
    out = [l for l in lines if 'quick:' in l]
    print(c['property_id'], 'exit', r.returncode, out[-1] if out else '')
    for l in lines:
        if 'VIOLATION' in l or l.startswith('util/') or l.startswith(': ['):
            print('   ', l[:400])
    bad += r.returncode != 0
print('non-zero exits:', bad)
sys.exit(1 if bad else 0)
