#!/usr/bin/env python3
import sys, os, json, shutil, glob
sid, src, prop, detected, needs, ran, note = sys.argv[1:8]
d = f"/verif/seeded/{sid}"
os.makedirs(d, exist_ok=True)
shutil.copy(f"{src}/patch.diff", d)
for f in glob.glob(f"{src}/*_seeded_test.go") + glob.glob(f"{src}/demo.txt") + glob.glob(f"{src}/meta.txt"):
    dst = os.path.basename(f)
    if dst.endswith("_test.go"):
        dst += ".txt"  # not compiled as part of /verif
    if dst == "meta.txt":
        dst = "author_notes.txt"
    shutil.copy(f, f"{d}/{dst}")
json.dump({"id": sid, "breaks_property": prop, "written_by": "independent sub-agent given only the property text and a scratch worktree",
           "needs_to_manifest": needs, "confirmed": ran, "detected_by": detected, "note": note}, open(f"{d}/meta.json", "w"), indent=1)
print("saved", d)
