#!/bin/bash
# usage: try_mutant.sh <property[,property...]> <file-relative-to-repo> <python-replace-old> <python-replace-new>
# Applies one exact textual replacement to a scratch worktree of /repo HEAD and runs the checks on it.
set -u
props=$1; file=$2; old=$3; new=$4
wt=$(mktemp -d /tmp/scratch/mut.XXXXXX)
git -C /repo worktree add -q --detach "$wt" HEAD || exit 3
python3 - "$wt/$file" "$old" "$new" <<'PY'
import sys
p,old,new=sys.argv[1:4]
s=open(p).read()
if s.count(old)!=1:
    print("MUTANT-NOT-APPLICABLE: old text occurs",s.count(old),"times"); sys.exit(4)
open(p,'w').write(s.replace(old,new))
PY
rc=$?
if [ $rc -eq 0 ]; then
  (cd "$wt/$(dirname $file)" && GOFLAGS=-mod=mod GOPROXY=off GOSUMDB=off GOTOOLCHAIN=local go build ./... 2>&1 | head -5)
  for p in ${props//,/ }; do
    /verif/bin/depscheck check -property $p -repo "$wt" -no-evidence 2>&1 | grep -E "VIOLATION|^C[0-9]+ |\[C[0-9]" | cut -c1-250 | head -${LINES_MAX:-8}
  done
fi
git -C /repo worktree remove --force "$wt"
