#!/usr/bin/env python3
"""Runs every benign refactoring against the checks that must stay silent on it (scratch copies under /tmp)."""
import json, sys, subprocess, os, glob, shutil, tempfile
only = sys.argv[1:] 
bad = 0
for f in sorted(glob.glob('/verif/mutants/benign/*.json')):
    m = json.load(open(f)); name = os.path.basename(f)[:-5]
    for pr in m['props']:
        if only and pr not in only and name not in only: continue
        d = tempfile.mkdtemp(prefix='/tmp/ben.')
        subprocess.run(['cp', '-r', '/repo/util', '/repo/api', '/repo/examples', d])
        p = os.path.join(d, m['file']); s = open(p).read()
        cnt = -1 if m.get('replace_all') else 1
        if s.count(m['old']) < 1:
            print(pr, name, 'NOT-APPLICABLE'); shutil.rmtree(d); continue
        s = s.replace(m['old'], m['new'], cnt)
        for e in m.get('more', []): s = s.replace(e['old'], e['new'], cnt)
        open(p, 'w').write(s)
        out = subprocess.run(['/verif/bin/depscheck', 'check', '-property', pr, '-repo', d, '-no-evidence'], capture_output=True, text=True)
        txt = out.stdout + out.stderr
        lines = [l for l in txt.split('\n') if '[C' in l or 'depscheck:' in l]
        st = 'ALARM' if 'VIOLATION' in txt else ('BUILD?' if 'type-check' in txt or out.returncode == 2 else 'silent')
        if st != 'silent': bad += 1
        print(pr, name, st, lines[0][:220] if lines and st != 'silent' else '')
        shutil.rmtree(d)
print('non-silent:', bad)
