#!/bin/bash
# usage: eval_seed.sh <seed-out-dir> <pkg-dir-for-demo-relative-to-repo> <props,comma,separated> [go test extra flags]
# Confirms a seeded change in a fresh scratch worktree (compiles, suite passes, demo fails with / passes without),
# then runs the checks on that worktree (depscheck -repo) and removes it.
set -u
out=$1; demodir=$2; props=$3; shift 3; extra="$*"
export GOFLAGS=-mod=mod GOPROXY=off GOSUMDB=off GOTOOLCHAIN=local
wt=$(mktemp -d /tmp/scratch/seedwt.XXXXXX)
git -C /repo worktree add -q --detach "$wt" HEAD || exit 3
cp "$out"/*_seeded_test.go "$wt/$demodir/" 2>/dev/null
tests=$(grep -h -o "^func Test[A-Za-z0-9_]*" "$out"/*_seeded_test.go | sed 's/func //' | paste -sd'|')
echo "demo tests: $tests"
echo "== demo WITHOUT the change (must pass)"
(cd "$wt/$demodir" && go test -vet=off -count=1 $extra -run "^($tests)\$" . 2>&1 | tail -3)
echo "== apply patch"
git -C "$wt" apply "$out/patch.diff" || { echo "PATCH DOES NOT APPLY"; git -C /repo worktree remove --force "$wt"; exit 4; }
echo "== demo WITH the change (must fail)"
(cd "$wt/$demodir" && go test -vet=off -count=1 $extra -run "^($tests)\$" . 2>&1 | tail -4)
rm -f "$wt/$demodir"/*_seeded_test.go
echo "== existing suite WITH the change (must pass)"
for m in api/v3 api/v3alpha util/maven util/pypi util/resolve util/semver; do (cd "$wt/$m" && go build ./... && go test -vet=off -count=1 ./... 2>&1 | grep -v "^ok\|no test files"); done
echo "== checks on the scratch worktree with the patch applied (-repo; /repo itself is not touched)"
for p in ${props//,/ }; do
  /verif/bin/depscheck check -property $p -repo "$wt" -no-evidence 2>&1 | sed "s#$wt/##g" | grep -E "^\S*: \[C|^C[0-9]+ (quick|thorough):" | cut -c1-300 | head -6
done
git -C /repo worktree remove --force "$wt"
