#!/bin/bash
# Runs the repository's baseline test suite (guard off; no hooks exist) and prints pass/fail counts.
export GOFLAGS=-mod=mod GOPROXY=off GOSUMDB=off GOTOOLCHAIN=local
unset GOWORK
rc=0
for m in api/v3 api/v3alpha util/maven util/pypi util/resolve util/semver; do
  (cd /repo/$m && go test -vet=off -count=1 -timeout 25m ./... ) || rc=1
done
exit $rc
