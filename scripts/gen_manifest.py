#!/usr/bin/env python3
"""Generates /verif/MANIFEST.json from the table below (single source of truth)."""
import json, os
ENV = "GOFLAGS=-mod=mod GOPROXY=off GOSUMDB=off GOTOOLCHAIN=local"
claimed = json.load(open(os.path.join(os.path.dirname(__file__), "claims.json")))
props = [json.loads(l) for l in open("/verif/properties.jsonl")]
checks, na = [], []
for p in props:
    pid = p["id"]
    c = claimed.get(pid)
    if c is None or c.get("na"):
        na.append({"property_id": pid, "reason": (c or {}).get("na", "not yet covered by a sound static rule in this commit")})
        continue
    checks.append({
        "property_id": pid,
        "quick_cmd": f"bin/depscheck check -property {pid} -tier quick",
        "thorough_cmd": f"bin/depscheck check -property {pid} -tier thorough",
        "evidence_file": f"/verif/evidence/{pid}.json",
        "replay_cmd_template": "bin/depscheck explain {path}",
        "engine": "depscheck",
        "level_claimed": {"category": c["level"], "text": c["text"], "design_ref": c["design_ref"]},
        "level_note": c["note"],
        "technique": c["technique"],
    })
m = {
    "version": 1,
    "setup_cmd": f"mkdir -p bin && cd tools && {ENV} go build -o ../bin/depscheck .",
    "hooks": {
        "guard": "verif",
        "enable": "no hooks: every check is a static analysis of /repo's working tree; nothing in /repo is built with a verification tag",
        "baseline_off_cmd": "scripts/baseline.sh",
        "source_commits": [],
        "add_only": True,
    },
    "engines": [{
        "name": "depscheck",
        "path": "/verif/tools",
        "serves_properties": [c["property_id"] for c in checks],
        "kind_free_text": "repository-specific static analyser (go/packages + go/types + go/ssa + VTA call graph + gc prove-pass diagnostics + proto descriptor comparison); never executes code from /repo",
    }],
    "checks": checks,
    "not_applicable": na,
    "notes": "Technique family: static analysis only. Known findings and fixed defects: /verif/known_findings.json. Seeded breaking changes: /verif/seeded/.",
}
json.dump(m, open("/verif/MANIFEST.json", "w"), indent=1)
print("claimed", [c["property_id"] for c in checks], "na", [n["property_id"] for n in na])
