#!/bin/bash
# usage: check_patch.sh <patch.diff> <props,comma,separated>
# Applies a patch to a scratch worktree of /repo HEAD and runs the quick checks on it (-repo); /repo is not touched.
set -u
patch=$1; props=$2
mkdir -p /tmp/scratch
wt=$(mktemp -d /tmp/scratch/cp.XXXXXX)
git -C /repo worktree add -q --detach "$wt" HEAD || exit 3
if git -C "$wt" apply "$patch"; then
  for p in ${props//,/ }; do
    /verif/bin/depscheck check -property $p -repo "$wt" -no-evidence 2>&1 | sed "s#$wt/##g" | grep -E "^\S*: \[C|^C[0-9]+ (quick|thorough):" | cut -c1-${WIDTH:-300} | head -${LINES_MAX:-6}
  done
else
  echo "PATCH DOES NOT APPLY"
fi
git -C /repo worktree remove --force "$wt"
