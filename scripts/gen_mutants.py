#!/usr/bin/env python3
"""Writes the seeded mutants of the thorough-tier sensitivity suite to /verif/mutants/<property>/<name>.json.
Each mutant is one exact textual replacement in /repo (it must occur exactly once, else the mutant is reported
as not applicable on that tree, never as a failure)."""
import json, os
M = []
def m(prop, name, file, old, new, expect="", note="", more=None):
    d = dict(prop=prop, name=name, file=file, old=old, new=new, expect_rule=expect, note=note)
    if more:
        d["more"] = [dict(old=o, new=n) for o, n in more]
    M.append(d)

# C01
m("C01","projsym-dev-post","util/semver/pep440.go","sgn(pExt.devNum, qExt.devNum)","sgn(pExt.devNum, qExt.postNum)","C01.c","copy-paste asymmetry between operands")
m("C01","impure-compare","util/semver/pep440.go","\tq := e.(*pep440Extension)\n\tpExt := p.ext","\tq := e.(*pep440Extension)\n\tif p.ext == nil { p.ext = &pep440{} }\n\tpExt := p.ext","C01.a","comparator writes its receiver")
m("C01","reads-build","util/semver/version.go","\treturn comparePrerelease(v1, v2)\n}\n\n// compareElem","\tif c := comparePrerelease(v1, v2); c != 0 {\n\t\treturn c\n\t}\n\treturn sgnStr(v1.build, v2.build)\n}\n\n// compareElem","C01.b","build metadata takes part in the order")
m("C01","global-cache","util/semver/version.go","func compareElem(sys System, s1, s2 string) int {\n\tn1, ok1 := isNumeric(sys, s1)","var elemCache = map[string]int64{}\n\nfunc compareElem(sys System, s1, s2 string) int {\n\tn1, ok1 := isNumeric(sys, s1)\n\tif c, ok := elemCache[s1]; ok {\n\t\tn1 = c\n\t} else if ok1 {\n\t\telemCache[s1] = n1\n\t}","C01.a","comparison consults a mutable package-level cache")
# C02
m("C02","rc-rank","util/semver/maven.go","\t\"rc\":        mavenEmptyQualifier - 2,","\t\"rc\":        mavenEmptyQualifier - 1,","C02/MAVEN","rc ranks with snapshot")
m("C02","a-before-alpha","util/semver/pep440.go","\t{\"alpha\", \"a\"},\n\t{\"a\", \"a\"},","\t{\"a\", \"a\"},\n\t{\"alpha\", \"a\"},","C02/PEP440-PRE","first-fit list with the prefix first")
m("C02","rank-swap","util/semver/pep440.go","\tpep440Alpha\n\tpep440Beta\n","\tpep440Beta\n\tpep440Alpha\n","C02/PEP440-RANK","alpha ranks above beta")
# C03
m("C03","npm-tilde-missing","util/semver/token.go","\t\t\"~\":  tokTilde,\n\t\t\"~>\": tokTilde, // NPM","\t\t\"~>\": tokTilde, // NPM","C03/OPERATORS","npm loses the ~ operator")
m("C03","bacon-not-accepted","util/semver/constraint.go","tokNotEqual, tokCaret, tokTilde, tokBacon:","tokNotEqual, tokCaret, tokTilde:","C03/EXHAUSTIVE","~> and ~= are tokenised but never parsed")
m("C03","pypi-compatible-kind","util/semver/token.go","\t\t\"~=\": tokBacon,","\t\t\"~=\": tokTilde,","C03/OPERATORS","~= desugared as a tilde range")
# C04
m("C04","revert-composer-row","util/semver/token.go","\n\t// Composer constraints are not supported yet; only plain versions parse.\n\tComposer: {},\n","\n","C04.6","reverse of the fix: operators has no Composer row")
m("C04","revert-nuget-pre","util/semver/version.go","\t\t\tif len(p.pre) == 0 {\n\t\t\t\treturn nil, p.lex.err\n\t\t\t}\n","","C04.1","reverse of the fix: p.pre[len(p.pre)-1] unguarded")
m("C04","revert-exclusion-colon","util/resolve/maven.go","\t\t\tif i < 0 {\n\t\t\t\treturn maven.Dependency{}, \"\", errors.New(\"invalid Maven exclusion in dep.Type\")\n\t\t\t}\n","","C04.1","reverse of the fix: ex[:i] with i = -1")
m("C04","revert-npm-getter","util/resolve/api.go","flattenNPMDeps(reqs.GetDependencies())","flattenNPMDeps(reqs.Dependencies)","C04.3","reverse of the fix: nil npm section dereferenced")
m("C04","revert-bundle-ancestor","util/resolve/npm/resolve.go","\t\tfor a := node; a != nil; a = a.parent {\n\t\t\tif a.bundled != nil && a.bundled.Version.VersionKey == bv.Version.VersionKey {\n\t\t\t\treturn fmt.Errorf(\"bundled version %v contains itself\", bv.Version.VersionKey)\n\t\t\t}\n\t\t}\n","","C04.4","reverse of the fix: unguarded recursion on client data")
m("C04","revert-empty-requirement","util/resolve/schema/resolve.go","\t\t\tif requirement == \"\" {\n\t\t\t\treturn nil, fmt.Errorf(\"line %d: expected a requirement\", r.line)\n\t\t\t}\n","","C04.1","reverse of the fix: requirement[0] on an empty item")
m("C04","interp-visited","util/maven/string.go","\t\tresolving[key] = true\n","","C04.4","cycle guard of interpolation removed")
m("C04","max-imports","util/maven/dependency.go","for ; n < MaxImports && len(depManagementImports) > 0; n++ {","for ; len(depManagementImports) > 0; n++ {","C04.5","import loop unbounded")
m("C04","req-nil-guard","util/resolve/maven.go","\tif req == nil {\n\t\treturn maven.Project{}\n\t}\n","","C04.3","nil Maven section dereferenced")
m("C04","name-end-guard","util/pypi/metadata.go","\tif nameEnd < 0 {\n\t\td.Name = CanonPackageName(s)\n\t\treturn d, nil\n\t}\n","","C04.1","s[:nameEnd] with nameEnd = -1")
m("C04","marker-or-loop","util/resolve/pypi/markers.go","\tif !p.accept(\"or\") {\n\t\treturn l, nil\n\t}\n","","C04.4","marker recursion without consuming input")
m("C04","new-unguarded-index","util/pypi/wheel.go","\tparts := strings.Split(name, \"-\")\n","\tparts := strings.Split(name, \"-\")\n\tif parts[1] == \"\" {\n\t\treturn nil, fmt.Errorf(\"empty version\")\n\t}\n","C04.1","new index expression before the length check")
# C05
m("C05","npm-clone-resolved","util/resolve/npm/resolve.go","\t\t\t\t\tdt = dt.Clone()\n","","C05.a","client attribute set mutated (passes the npm suite)")
m("C05","npm-clone-new","util/resolve/npm/resolve.go","dt := idep.Type.Clone()","dt := idep.Type","C05.a","client attribute set mutated")
m("C05","maven-clone","util/resolve/maven/resolve.go","dt := d.Type.Clone()","dt := d.Type","C05.a","client attribute set mutated in the Maven resolver")
m("C05","revert-pypi-deps-clone","util/resolve/pypi/resolve.go","filterSlice(slices.Clone(deps), func","filterSlice(deps, func","C05.a","reverse of the fix: client requirements filtered in place")
m("C05","revert-pypi-vs-clone","util/resolve/pypi/resolve.go","filterSlice(slices.Clone(vs), func","filterSlice(vs, func","C05.a","reverse of the fix: client versions filtered and sorted in place")
m("C05","revert-maven-sort-clone","util/resolve/maven/resolve.go","\t\t\tversions = slices.Clone(versions)\n","","C05.a","reverse of the fix: client versions sorted and reversed")
m("C05","revert-local-matching-clone","util/resolve/client.go","MatchRequirement(vk, slices.Clone(vs))","MatchRequirement(vk, vs)","C05.b","reverse of the fix: read method sorts stored slice", more=[('\t"slices"\n', "")])
m("C05","resolver-field-store","util/resolve/npm/resolve.go","\tstart := time.Now()\n\tg := &resolve.Graph{}\n","\tstart := time.Now()\n\tg := &resolve.Graph{}\n\tr.client = r.client\n","C05.c","Resolve stores into a resolver field")
m("C05","cache-result-sorted","util/resolve/pypi/resolve.go","\tmvs, ok := p.prereleaseMatchCache.Get(req)\n\tif ok {\n","\tmvs, ok := p.prereleaseMatchCache.Get(req)\n\tif ok {\n\t\tsort.Slice(mvs, func(i, j int) bool { return mvs[i].Version > mvs[j].Version })\n","C05.a","cached slice reordered on a hit")
# C06 / C07
m("C06","drop-two-versions-error","util/resolve/npm/resolve.go","\t\t\t\terr := g.AddError(cur.id, idep.VersionKey,\n\t\t\t\t\tfmt.Sprintf(\"cannot install two versions of this package at the same level: %v (%s)\", node.pkg, alias))\n\t\t\t\tif err != nil {\n\t\t\t\t\treturn nil, err\n\t\t\t\t}\n\t\t\t\tcontinue","\t\t\t\tcontinue","C06.a","requirement dropped silently")
m("C06","continue-before-edge","util/resolve/npm/resolve.go","\t\t\tdt := idep.Type.Clone()\n\t\t\tdt.AddAttr(dep.Selector, \"\")\n\t\t\tif err := g.AddEdge(cur.id, node.id, idep.Version, dt); err != nil {","\t\t\tif len(dvers) > 3 {\n\t\t\t\tcontinue\n\t\t\t}\n\t\t\tdt := idep.Type.Clone()\n\t\t\tdt.AddAttr(dep.Selector, \"\")\n\t\t\tif err := g.AddEdge(cur.id, node.id, idep.Version, dt); err != nil {","C06","node added without an edge")
m("C07","drop-nomatch-error","util/resolve/maven/resolve.go","\t\t\t\tg.AddError(concreteVersions[cur.versionKey], d.VersionKey, fmt.Sprintf(\"could not find a version that satisfies requirements %s for package %s\", reqs, d.Name))\n","","C07.a","unsatisfiable requirement dropped silently")
m("C07","edge-to-root","util/resolve/maven/resolve.go","if err := g.AddEdge(concreteVersions[cur.versionKey], matchID, d.Version, dt); err != nil {","if err := g.AddEdge(concreteVersions[cur.versionKey], 0, d.Version, dt); err != nil {","C07.b","new node gets no incoming edge")
m("C07","retry-unbounded","util/resolve/maven/resolve.go","for i := 0; i < maxRetries && errors.Is(err, errIncompatible); i++ {","for i := 0; errors.Is(err, errIncompatible); i++ {","C07.d","retry loop unbounded")
# C12
m("C12","revert-tiebreak","util/resolve/match.go","\t\tif c := vi.Compare(vj); c != 0 {\n\t\t\treturn c < 0\n\t\t}\n\t\t// Distinct strings may denote the same version (1.0, 1.0.0).\n\t\treturn vs[i].Version < vs[j].Version\n","\t\treturn vi.Compare(vj) < 0\n","C12.b","reverse of the fix: no tie-break")
m("C12","npm-const-fallthrough","util/resolve/match.go","\t\t// Otherwise order lexicographically.\n\t\treturn a.VersionKey.Version < b.VersionKey.Version","\t\t// Otherwise order lexicographically.\n\t\treturn false","C12.b","constant fall-through")
m("C12","revert-local-matching-clone","util/resolve/client.go","MatchRequirement(vk, slices.Clone(vs))","MatchRequirement(vk, vs)","C12.c","borrowed slice handed to MatchRequirement", more=[('\t"slices"\n', "")])
# C13
m("C13","revert-pure-less","util/resolve/graph.go","\treturn n.Nodes[i].Compare(n.Nodes[j]) < 0\n}","\tif n.Nodes[i].Compare(n.Nodes[j]) == 0 {\n\t\tn.KeepZero = n.KeepZero || false\n\t\tn.Root = n.Root + 0\n\t}\n\treturn n.Nodes[i].Compare(n.Nodes[j]) < 0\n}","C13.a","Less has a side effect again")
m("C13","edge-requirement-dropped","util/resolve/graph.go","\t\tif ei.Requirement != ej.Requirement {\n\t\t\treturn ei.Requirement < ej.Requirement\n\t\t}\n","","C13.b","edge order ignores the requirement")
m("C13","errors-unsorted","util/resolve/graph.go","\tfor _, n := range g.Nodes {\n\t\tsort.Slice(n.Errors, func(i, j int) bool {\n\t\t\treturn n.Errors[i].Compare(n.Errors[j]) < 0\n\t\t})\n\t}\n","\tfor _, n := range g.Nodes {\n\t\tif len(n.Errors) > 8 {\n\t\t\tcontinue\n\t\t}\n\t\tsort.Slice(n.Errors, func(i, j int) bool {\n\t\t\treturn n.Errors[i].Compare(n.Errors[j]) < 0\n\t\t})\n\t}\n","C13.c","error sort skipped for some nodes")
# C14
m("C14","revert-store-new","util/resolve/client.go","\t\t\tversions[i] = v\n","\t\t\tversions[i] = w\n","C14","reverse of the fix: replace stores the old element")
m("C14","revert-local-matching-clone","util/resolve/client.go","MatchRequirement(vk, slices.Clone(vs))","MatchRequirement(vk, vs)","C14.c","read method reorders stored slice", more=[('\t"slices"\n', "")])
# C15
m("C15","interp-visited","util/maven/string.go","\t\tresolving[key] = true\n","","C15.a","cycle guard removed")
m("C15","no-progress","util/maven/string.go","\t\ts = s[j+1:]","\t\ts = s[j:]","C15.a","loop does not move past the brace")
m("C15","process-before-parents","util/resolve/maven.go","\tif err := a.fetchMavenParents(ctx, project.Parent.ProjectKey, &project); err != nil {\n\t\treturn nil, err\n\t}\n\tproject.ProcessDependencies(","\tproject.ProcessDependencies(","C15.c","dependencies processed before parents are merged")
# C16
m("C16","platform-prefix","util/resolve/pypi/markers.go","\t\"extra\": {name: \"extra\"},","\t\"extra\": {name: \"extra\"},\n\t\"platform\": {name: \"platform\"},","C16/PREFIX-FREE","a variable name that prefixes others, tried in map order")
m("C16","op-missing","util/resolve/pypi/markers.go","\tmarkerOpLessEqual,\n\tmarkerOpNotEqual,","\tmarkerOpNotEqual,","C16/OPS","<= can no longer be parsed")
m("C16","first-byte","util/resolve/pypi/markers.go","\tcase 'e', 'i', 'o', 'p', 's':","\tcase 'e', 'i', 'p', 's':","C16/FIRST-BYTE","os_name rejected by the first-byte filter")
# C17
m("C17","alpha-field-number","api/v3alpha/api.proto","  string name = 2;\n  // The package version.","  string name = 22;\n  // The package version.","C17","field renumbered in v3alpha only")
m("C17","go-const","api/v3/api.pb.go","System_NPM                System = 3","System_NPM                System = 4","C17/GEN-GO","generated constant disagrees with the proto")
m("C17","proto-enum","api/v3/api.proto","  NPM = 3;","  NPM = 9;","C17","System.NPM renumbered")
m("C17","grpc-name","api/v3/api_grpc.pb.go","/deps_dev.v3.Insights/GetAdvisory","/deps_dev.v3.Insights/GetAdvisry","C17/GEN-GRPC","full method name changed")
# C18
m("C18","no-lock","util/resolve/api.go","\ta.bundledVersionsMu.Lock()\n\tdefer a.bundledVersionsMu.Unlock()\n\tbv, ok := a.bundledVersions[name]","\tbv, ok := a.bundledVersions[name]","C18.a","map read without the mutex")
m("C18","no-derived-from","util/resolve/api.go","\t\tv.SetAttr(version.DerivedFrom, bundle.originalName)\n","","C18.b","bundle stored without DerivedFrom")
m("C18","guard-weakened","util/resolve/api.go","func (a *APIClient) Versions(ctx context.Context, pk PackageKey) ([]Version, error) {\n\tif isNPMBundle(pk.Name) {","func (a *APIClient) Versions(ctx context.Context, pk PackageKey) ([]Version, error) {\n\tif isNPMBundle(pk.Name) && len(pk.Name) > 3 {","C18.c","bundle guard no longer confines the RPC")
# C19
m("C19","clone-shares-map","util/resolve/internal/attr/set.go","\t\tattrs:    make(map[uint8]string, len(s.attrs)),","\t\tattrs:    s.attrs,","C19.a","clone shares the attribute map")
m("C19","bits-not-updated","util/resolve/internal/attr/set.go","\ts.attrBits |= 1 << uint(key)\n","","C19.c","key bitmask not updated")
m("C19","key-not-listed","util/resolve/internal/deptest/deptest.go","\t\tdep.KnownAs,\n","","C19.e","key missing from the parser's list")
m("C19","client-set-mutated","util/resolve/npm/resolve.go","dt := idep.Type.Clone()","dt := idep.Type","C19.d","client attribute set mutated in place")

for x in M:
    d = os.path.join("/verif/mutants", x["prop"])
    os.makedirs(d, exist_ok=True)
    y = {k: v for k, v in x.items() if k != "prop"}
    json.dump(y, open(os.path.join(d, x["name"] + ".json"), "w"), indent=1, ensure_ascii=False)
print(len(M), "mutants")

# ---- behaviour-preserving refactorings: every listed check must stay silent ----
B = []
def b(name, props, file, old, new, replace_all=False, more=None, note=""):
    d = dict(name=name, props=props, file=file, old=old, new=new, replace_all=replace_all, note=note)
    if more:
        d["more"] = [dict(old=o, new=n) for o, n in more]
    B.append(d)
b("c14-ensure-helper", ["C14","C05","C04"], "util/resolve/client.go", "\t// Ensure dependency packages exist, even though we might\n\t// not have versions for them.\n\tfor _, d := range deps {\n\t\tif _, ok := lc.PackageVersions[d.PackageKey]; !ok {\n\t\t\tlc.PackageVersions[d.PackageKey] = []Version{}\n\t\t}\n\t}\n}", "\tlc.ensurePackages(deps)\n}\n\nfunc (lc *LocalClient) ensurePackages(deps []RequirementVersion) {\n\tfor _, d := range deps {\n\t\tif _, ok := lc.PackageVersions[d.PackageKey]; !ok {\n\t\t\tlc.PackageVersions[d.PackageKey] = []Version{}\n\t\t}\n\t}\n}", note="loop extracted into a helper")
b("c12-zero-test-first", ["C12","C01"], "util/resolve/match.go", "\t\tif c := vi.Compare(vj); c != 0 {\n\t\t\treturn c < 0\n\t\t}\n\t\t// Distinct strings may denote the same version (1.0, 1.0.0).\n\t\treturn vs[i].Version < vs[j].Version\n", "\t\tc := vi.Compare(vj)\n\t\tif c == 0 {\n\t\t\treturn vs[i].Version < vs[j].Version\n\t\t}\n\t\treturn c < 0\n", note="tie-break written the other way round")
b("c13-skip-short-error-lists", ["C13"], "util/resolve/graph.go", "\tfor _, n := range g.Nodes {\n\t\tsort.Slice(n.Errors, func(i, j int) bool {", "\tfor _, n := range g.Nodes {\n\t\tif len(n.Errors) < 2 {\n\t\t\tcontinue\n\t\t}\n\t\tsort.Slice(n.Errors, func(i, j int) bool {", note="nothing to sort below two errors")
b("c04-rename-nameEnd", ["C04","C16"], "util/pypi/metadata.go", "nameEnd", "nameStop", replace_all=True, note="local variable renamed")
b("c05-copy-idiom", ["C05","C07"], "util/resolve/maven/resolve.go", "\t\t\tversions = slices.Clone(versions)\n", "\t\t\tversions = append([]resolve.Version(nil), versions...)\n", note="another fresh-copy idiom")
b("c07-edge-source-variable", ["C07","C04"], "util/resolve/maven/resolve.go", "\t\t\tmatchID := g.AddNode(match.VersionKey)\n", "\t\t\tsrcID := concreteVersions[cur.versionKey]\n\t\t\t_ = srcID\n\t\t\tmatchID := g.AddNode(match.VersionKey)\n", note="extra local")
b("c19-maps-clone", ["C19","C05","C13"], "util/resolve/internal/attr/set.go", "\tc := Set{\n\t\tMask:     s.Mask,\n\t\tattrs:    make(map[uint8]string, len(s.attrs)),\n\t\tattrBits: s.attrBits,\n\t}\n\tfor k, v := range s.attrs {\n\t\tc.attrs[k] = v\n\t}\n\treturn c", "\tc := Set{\n\t\tMask:     s.Mask,\n\t\tattrs:    maps.Clone(s.attrs),\n\t\tattrBits: s.attrBits,\n\t}\n\tif c.attrs == nil {\n\t\tc.attrs = map[uint8]string{}\n\t}\n\treturn c", more=[("import (\n\t\"math/bits\"", "import (\n\t\"maps\"\n\t\"math/bits\"")], note="Clone through maps.Clone")
b("c18-lock-early-unlock", ["C18"], "util/resolve/api.go", "\ta.bundledVersionsMu.Lock()\n\tdefer a.bundledVersionsMu.Unlock()\n\tbv, ok := a.bundledVersions[name]\n\treturn bv, ok", "\ta.bundledVersionsMu.Lock()\n\tbv, ok := a.bundledVersions[name]\n\ta.bundledVersionsMu.Unlock()\n\treturn bv, ok", note="explicit unlock instead of defer")
b("c06-alias-local", ["C06","C04"], "util/resolve/npm/resolve.go", "\t\treturn cur.aliasProtected[ipk.Name]\n", "\t\tname := ipk.Name\n\t\treturn cur.aliasProtected[name]\n", note="key through a local")
b("c15-rename-resolving", ["C15","C04"], "util/maven/string.go", "resolving", "inProgress", replace_all=True, note="parameter renamed")
b("c01-sgn-inline", ["C01"], "util/semver/pep440.go", "\t\tif s := sgn(pExt.devNum, qExt.devNum); s != 0 {\n\t\t\treturn s\n\t\t}", "\t\tif pExt.devNum != qExt.devNum {\n\t\t\treturn sgn(pExt.devNum, qExt.devNum)\n\t\t}", note="comparison restructured")
os.makedirs("/verif/mutants/benign", exist_ok=True)
for x in B:
    json.dump({k: v for k, v in x.items() if k != "name"}, open(os.path.join("/verif/mutants/benign", x["name"] + ".json"), "w"), indent=1, ensure_ascii=False)
print(len(B), "benign refactorings")
# benign cases aimed at the rules added after seeding rounds
b("c14-version-loop-index", ["C14"], "util/resolve/client.go", "\tfor _, v := range lc.PackageVersions[vk.PackageKey] {\n\t\tif v.VersionKey == vk {\n\t\t\treturn v, nil\n\t\t}\n\t}", "\tvs := lc.PackageVersions[vk.PackageKey]\n\tfor i := range vs {\n\t\tif vs[i].VersionKey == vk {\n\t\t\treturn vs[i], nil\n\t\t}\n\t}", note="index loop instead of range value")
b("c13-hasdupe-root-first", ["C13"], "util/resolve/graph.go", "\t\tif n.Nodes[i-1].Compare(n.Nodes[i]) == 0 {\n\t\t\treturn true\n\t\t}\n\t\tif n.KeepZero && i > 1 && n.Nodes[0].Compare(n.Nodes[i]) == 0 {\n\t\t\treturn true\n\t\t}", "\t\tif n.KeepZero && i > 1 && n.Nodes[0].Compare(n.Nodes[i]) == 0 {\n\t\t\treturn true\n\t\t}\n\t\tif n.Nodes[i-1].Compare(n.Nodes[i]) == 0 {\n\t\t\treturn true\n\t\t}", note="the two checks swapped, both still made")
b("c07-exclusions-copy-first", ["C07","C05"], "util/resolve/maven/resolve.go", "\t\t\t\tmergeExclusions(d.exclusions, cur.exclusions)\n\t\t\t\tn.exclusions = d.exclusions", "\t\t\t\tmerged := make(map[string]bool, len(d.exclusions)+len(cur.exclusions))\n\t\t\t\tmergeExclusions(merged, cur.exclusions)\n\t\t\t\tmergeExclusions(merged, d.exclusions)\n\t\t\t\tn.exclusions = merged", note="union built in a fresh map")
b("c18-sort-local-alias", ["C18","C04"], "util/resolve/api.go", "\tbundled := reqs.GetBundled()\n\tsort.Slice(bundled, func(i, j int) bool {\n\t\treturn len(bundled[i].Path) < len(bundled[j].Path)\n\t})", "\tbundled := reqs.GetBundled()\n\tsort.SliceStable(bundled, func(a, b int) bool {\n\t\treturn len(bundled[a].Path) < len(bundled[b].Path)\n\t})", note="stable sort, renamed indices")
b("c05-cache-err-style", ["C05"], "util/resolve/pypi/resolve.go", "\tm, err := parseMarker(raw)\n\tif err != nil {\n\t\treturn nil, err\n\t}\n\tp.markerCache.Add(raw, m)\n\treturn m, nil", "\tm, err := parseMarker(raw)\n\tif err == nil {\n\t\tp.markerCache.Add(raw, m)\n\t\treturn m, nil\n\t}\n\treturn nil, err", note="success branch first")
b("c12-tags-set", ["C12"], "util/resolve/match.go", "\t\t\tfor _, tag := range strings.Split(tags, \",\") {\n\t\t\t\tif req.Version == tag {\n\t\t\t\t\treturn []Version{v}\n\t\t\t\t}\n\t\t\t}", "\t\t\tif slices.Contains(strings.Split(tags, \",\"), req.Version) {\n\t\t\t\treturn []Version{v}\n\t\t\t}", more=[("import (\n\t\"sort\"", "import (\n\t\"slices\"\n\t\"sort\"")], note="slices.Contains on the split tags")
b("c16-marker-err-wrap", ["C16","C04"], "util/resolve/pypi/markers.go", "\t\tc, err := semver.PyPI.ParseConstraint(o.String() + r.value)\n\t\tif err != nil {\n\t\t\treturn nil, err\n\t\t}", "\t\tc, err := semver.PyPI.ParseConstraint(o.String() + r.value)\n\t\tif err != nil {\n\t\t\treturn nil, fmt.Errorf(\"marker constraint: %w\", err)\n\t\t}", note="error wrapped")
for x in B:
    json.dump({k: v for k, v in x.items() if k != "name"}, open(os.path.join("/verif/mutants/benign", x["name"] + ".json"), "w"), indent=1, ensure_ascii=False)
print(len(B), "benign refactorings (total)")
# C08 (claimed after the seeding rounds)
M2 = []
def m2(prop, name, file, old, new, expect="", note="", more=None):
    d = dict(name=name, file=file, old=old, new=new, expect_rule=expect, note=note)
    if more:
        d["more"] = [dict(old=o, new=n) for o, n in more]
    os.makedirs(os.path.join("/verif/mutants", prop), exist_ok=True)
    json.dump(d, open(os.path.join("/verif/mutants", prop, name + ".json"), "w"), indent=1, ensure_ascii=False)
    M2.append(name)
m2("C08","state-shares-criteria","util/resolve/pypi/resolve.go","\t\tcriteria: base.criteria.Copy(),","\t\tcriteria: base.criteria,","C08.a","new search state shares the criteria of the previous one")
m2("C08","pop-keeps-map-entry","util/resolve/pypi/version_map.go","\tdelete(v.m, pkg)\n","","C08.b","Pop leaves the entry in the map")
m2("C08","node-without-route","util/resolve/pypi/resolve.go","\t\tif !hasRouteToRoot(rc, v, connected, s) {\n\t\t\treturn\n\t\t}\n","","C08.c","disconnected pins become nodes")
m2("C08","root-guard-weakened","util/resolve/pypi/resolve.go","\tif req.PackageKey != p.rootPackage {\n\t\treturn getVersionKeys(mvs), nil\n\t}\n\tfor _, mv := range mvs {","\tif req.PackageKey != p.rootPackage || len(mvs) > 3 {\n\t\treturn getVersionKeys(mvs), nil\n\t}\n\tfor _, mv := range mvs {","C08.d","root can be replaced when many versions match")
m2("C08","clone-shares-stack","util/resolve/pypi/version_map.go","\t\tstack: append([]resolve.PackageKey(nil), v.stack...),","\t\tstack: v.stack,","C08.a","cloned pin table shares the insertion stack")
m2("C08","edge-skipped","util/resolve/pypi/resolve.go","\t\t\trvk := req.VersionKey\n\t\t\tif err := g.AddEdge(from, to, rvk.Version, req.Type); err != nil {","\t\t\trvk := req.VersionKey\n\t\t\tif rvk.Version == \"\" && i > 0 {\n\t\t\t\tcontinue\n\t\t\t}\n\t\t\tif err := g.AddEdge(from, to, rvk.Version, req.Type); err != nil {","C08.c","unconstrained requirements after the first get no edge")
b("c08-copy-shares-incompat", ["C08"], "util/resolve/pypi/resolve.go", "\t\tincompatibilities:  incompatibilities,\n\t\tcandidates:         c.candidates,", "\t\tincompatibilities:  c.incompatibilities,\n\t\tcandidates:         c.candidates,", note="the map is never updated in place today, so sharing it is harmless")
b("c08-root-guard-positive", ["C08"], "util/resolve/pypi/resolve.go", "\tif req.PackageKey != p.rootPackage {\n\t\treturn getVersionKeys(mvs), nil\n\t}\n\tfor _, mv := range mvs {", "\tif req.PackageKey == p.rootPackage {\n\t\tfor _, mv := range mvs {\n\t\t\tif mv.VersionKey == p.rootVersion {\n\t\t\t\treturn []resolve.VersionKey{p.rootVersion}, nil\n\t\t\t}\n\t\t}\n\t\treturn nil, nil\n\t}\n\tif true {\n\t\treturn getVersionKeys(mvs), nil\n\t}\n\tfor _, mv := range mvs {", note="root test written positively")
# rules added after the 4th seeding round
m2("C06","opt-before-dev","util/resolve/npm/resolve.go","\t\tif d.Type.HasAttr(dep.Dev) {\n\t\t\tcontinue\n\t\t}\n\t\tif d.Type.HasAttr(dep.Opt) {\n\t\t\toptPackage[d.Name] = true\n\t\t}","\t\tif d.Type.HasAttr(dep.Opt) {\n\t\t\toptPackage[d.Name] = true\n\t\t}\n\t\tif d.Type.HasAttr(dep.Dev) {\n\t\t\tcontinue\n\t\t}","C06.e","a dev+optional entry suppresses the regular requirement of that name")
m2("C07","incompatible-returns-edge","util/resolve/maven/resolve.go","\t\t\t\trequirements[c.packageKey] = append(reqs, d.VersionKey)\n\t\t\t\treturn nil, false, errIncompatible\n\t\t\t}\n","\t\t\t\trequirements[c.packageKey] = append(reqs, d.VersionKey)\n\t\t\t}\n","C07.g","already-resolved artifact falls through to a second node")
b("c06-dev-positive-form", ["C06"], "util/resolve/npm/resolve.go", "\t\tif d.Type.HasAttr(dep.Dev) {\n\t\t\tcontinue\n\t\t}\n\t\tif d.Type.HasAttr(dep.Opt) {\n\t\t\toptPackage[d.Name] = true\n\t\t}\n\t\tif d.Type.IsRegular() {\n\t\t\tregPackage[d.Name] = true\n\t\t}", "\t\tif isDev := d.Type.HasAttr(dep.Dev); !isDev {\n\t\t\tif d.Type.HasAttr(dep.Opt) {\n\t\t\t\toptPackage[d.Name] = true\n\t\t\t}\n\t\t\tif d.Type.IsRegular() {\n\t\t\t\tregPackage[d.Name] = true\n\t\t\t}\n\t\t}", note="dev test in positive form with a named boolean")
b("c07-incompatible-helper-var", ["C07"], "util/resolve/maven/resolve.go", "\t\t\tif ok := resolvedPackages[c.packageKey]; ok {", "\t\t\talready := resolvedPackages[c.packageKey]\n\t\t\tif already {", note="already-resolved test through a named boolean")
m2("C08","dedupe-parent-package","util/resolve/pypi/resolve.go","\t\t\tif crit.informationParents[i] == parent {","\t\t\tif crit.informationParents[i].PackageKey == parent.PackageKey {","C08.e","recorded pair de-duplicated by parent package only")
b("c08-dedupe-fieldwise", ["C08"], "util/resolve/pypi/resolve.go", "\t\t\tif crit.informationParents[i] == parent {", "\t\t\tif old := crit.informationParents[i]; old.PackageKey == parent.PackageKey && old.VersionType == parent.VersionType && old.Version == parent.Version {", note="whole-key comparison spelled field by field")
m2("C19","writer-quotes-only","util/resolve/internal/versiontest/versiontest.go","\t\t\t\tss = append(ss, value)","\t\t\t\tss = append(ss, strconv.Quote(value))","C19.f","writer quotes values, parser reads them verbatim")
b("c19-both-sides-quote", ["C19"], "util/resolve/internal/versiontest/versiontest.go", "\t\t\t\tss = append(ss, value)", "\t\t\t\tss = append(ss, strconv.Quote(value))", more=[("\t\tattr.SetAttr(key, items[i])\n\t}\n\treturn attr, nil", "\t\tval, err := strconv.Unquote(items[i])\n\t\tif err != nil {\n\t\t\treturn version.AttrSet{}, err\n\t\t}\n\t\tattr.SetAttr(key, val)\n\t}\n\treturn attr, nil")], note="writer quotes and parser unquotes (structural guard only; values with spaces aside)")
m2("C12","revert-latest-substring","util/resolve/match.go","slices.Contains(strings.Split(tags, \",\"), \"latest\")","strings.Contains(tags, \"latest\")","C12.f","reverse of the fix: substring test on the raw tag list")
b("c12-latest-helper", ["C12"], "util/resolve/match.go", "\t\tif tags, _ := v.GetAttr(version.Tags); slices.Contains(strings.Split(tags, \",\"), \"latest\") {", "\t\tif tags, _ := v.GetAttr(version.Tags); hasTag(tags, \"latest\") {", more=[("// SortDependencies sorts a set of dependencies", "func hasTag(tags, tag string) bool {\n\tfor _, t := range strings.Split(tags, \",\") {\n\t\tif t == tag {\n\t\t\treturn true\n\t\t}\n\t}\n\treturn false\n}\n\n// SortDependencies sorts a set of dependencies"), ("import (\n\t\"slices\"\n\t\"sort\"", "import (\n\t\"sort\"")], note="exact tag test moved into a helper")
m2("C03","minversion-keeps-prerelease","util/semver/version.go","\t\tv.isPrerelease = false\n","","C03/RECYCLE","the synthetic lowest version inherits isPrerelease from the user's bound")
b("c03-minversion-struct-literal", ["C03","C04","C09"], "util/semver/version.go", "\t\tfor i := range v.buf {\n\t\t\tv.buf[i] = 0\n\t\t}\n\t\tv.num = v.buf[:3]\n", "\t\t*v = Version{sys: v.sys}\n\t\tv.num = v.buf[:3]\n", note="argument reset with a struct literal before the field stores")
m2("C05","marker-cache-folded-key","util/resolve/pypi/resolve.go","\tcached, ok := p.markerCache.Get(raw)","\tkey := strings.ToLower(raw)\n\tcached, ok := p.markerCache.Get(key)","C05.f","marker cache keyed by the lower-cased text while the original text is parsed", more=[("\tp.markerCache.Add(raw, m)", "\tp.markerCache.Add(key, m)")])
m2("C05","marker-cache-get-folded","util/resolve/pypi/resolve.go","\tcached, ok := p.markerCache.Get(raw)","\tcached, ok := p.markerCache.Get(strings.ToLower(raw))","C05.f","looked up under a folded key, stored under the original")
b("c05-marker-trimmed-both", ["C05","C16"], "util/resolve/pypi/resolve.go", "\tcached, ok := p.markerCache.Get(raw)", "\traw = strings.TrimSpace(raw)\n\tcached, ok := p.markerCache.Get(raw)", note="the same normalised text is key and parser input")
m2("C15","managed-scope-overrides","util/maven/dependency.go","\t\t\tif dep.Scope == \"\" {\n\t\t\t\tdep.Scope = dm.Scope\n\t\t\t}","\t\t\tif dm.Scope != \"\" {\n\t\t\t\tdep.Scope = dm.Scope\n\t\t\t}","C15.d","managed scope overrides the declared one")
b("c15-declared-wins-other-forms", ["C15"], "util/maven/dependency.go", "\t\t\tif len(dep.Exclusions) == 0 {\n\t\t\t\tdep.Exclusions = dm.Exclusions\n\t\t\t}", "\t\t\tif len(dep.Exclusions) > 0 {\n\t\t\t\t// keep what the dependency declares\n\t\t\t} else {\n\t\t\t\tdep.Exclusions = append([]Exclusion(nil), dm.Exclusions...)\n\t\t\t}", note="emptiness test in the other polarity, managed exclusions copied")
# C10 / C11 (claimed after the 5th seeding round)
m2("C10","canon-folds-local","util/semver/pep440.go","\t\tfmt.Fprintf(&b, \"+%s\", p.ext.local)","\t\tfmt.Fprintf(&b, \"+%s\", strings.ToLower(p.ext.local))","C10.b","local label lower-cased by the printer only")
m2("C10","canon-drops-devnum","util/semver/pep440.go","\t\tfmt.Fprintf(&b, \".dev%d\", p.ext.devNum)","\t\tfmt.Fprint(&b, \".dev\")","C10.a","dev number compared but not printed")
m2("C10","canon-clears-build","util/semver/version.go","\tif v.sys == NuGet {\n\t\tshowBuild = false\n\t}","\tif v.sys == NuGet {\n\t\tshowBuild = false\n\t\tv.build = \"\"\n\t}","C10.c","Canon modifies the version it prints")
b("c10-canon-pre-helper", ["C10","C04"], "util/semver/version.go", "\tfor i, pre := range v.pre {\n\t\tif i == 0 {\n\t\t\tb.WriteByte('-')\n\t\t} else {\n\t\t\tb.WriteByte('.')\n\t\t}\n\t\tif v.sys == NuGet {\n\t\t\tfmt.Fprint(&b, strings.ToLower(pre))\n\t\t} else {\n\t\t\tfmt.Fprint(&b, pre)\n\t\t}\n\t}\n\tif showBuild {", "\tv.printPre(&b)\n\tif showBuild {", more=[("func (v *Version) printNums(b *strings.Builder) {", "func (v *Version) printPre(b *strings.Builder) {\n\tfor i, pre := range v.pre {\n\t\tif i == 0 {\n\t\t\tb.WriteByte('-')\n\t\t} else {\n\t\t\tb.WriteByte('.')\n\t\t}\n\t\tif v.sys == NuGet {\n\t\t\tpre = strings.ToLower(pre)\n\t\t}\n\t\tb.WriteString(pre)\n\t}\n}\n\nfunc (v *Version) printNums(b *strings.Builder) {")], note="prerelease printing moved into a helper")
m2("C11","unit-consults-open-flags","util/semver/span.go","\tcase unit:\n\t\treturn compare(s.min, v) == 0\n\t}","\tcase unit:\n\t\tif s.minOpen || s.maxOpen {\n\t\t\treturn false\n\t\t}\n\t\treturn compare(s.min, v) == 0\n\t}","C11.a","matching a unit span depends on flags its text does not show")
m2("C11","parse-forgets-max-open","util/semver/span.go","\t\t\tminOpen: minOpen,\n\t\t\tmaxOpen: maxOpen,\n\t\t\trank:    vector,\n\t\t\tmin:     min,\n\t\t\tmax:     max,\n\t\t}, false, nil","\t\t\tminOpen: minOpen,\n\t\t\trank:    vector,\n\t\t\tmin:     min,\n\t\t\tmax:     max,\n\t\t}, false, maxOpenErr(maxOpen)","C11.b","parsed vector span never gets its maxOpen flag", more=[("// newSpan returns the span defined by the min and max versions.", "func maxOpenErr(bool) error { return nil }\n\n// newSpan returns the span defined by the min and max versions.")])
b("c11-contains-if-chain", ["C11","C09","C04"], "util/semver/span.go", "\tswitch s.rank {\n\tcase empty:\n\t\treturn false\n\tcase unit:\n\t\treturn compare(s.min, v) == 0\n\t}", "\tif s.rank == empty {\n\t\treturn false\n\t}\n\tif s.rank != vector {\n\t\treturn compare(s.min, v) == 0\n\t}", note="rank switch written as an if chain with a != test")
m2("C12","sort-only-matches","util/resolve/match.go","\tsortNPMVersions(vers)\n\tconstraint, err := req.System.Semver().ParseConstraint(req.Version)\n\tif err != nil {\n","\tconstraint, err := req.System.Semver().ParseConstraint(req.Version)\n\tif err != nil {\n\t\tsortNPMVersions(vers)\n","C12.g","range matches sorted after filtering", more=[("\t\t\tmatches = append(matches, v)\n\t\t}\n\t}\n\treturn matches\n}\n\n// matchRequirement is a default", "\t\t\tmatches = append(matches, v)\n\t\t}\n\t}\n\tsortNPMVersions(matches)\n\treturn matches\n}\n\n// matchRequirement is a default")])
b("c12-sort-a-copy", ["C12","C05","C14"], "util/resolve/match.go", "\tsortNPMVersions(vers)\n\tconstraint, err := req.System.Semver().ParseConstraint(req.Version)", "\tvers = slices.Clone(vers)\n\tsortNPMVersions(vers)\n\tconstraint, err := req.System.Semver().ParseConstraint(req.Version)", note="the complete list is copied before it is sorted")
m2("C04","trimspace-after-name","util/pypi/metadata.go","\ts = strings.TrimLeft(s[nameEnd:], whitespace)","\ts = strings.TrimSpace(s[nameEnd:])","C04.1","wider whitespace class can trim the remainder to nothing before s[0]")
b("c04-trimleft-const-inline", ["C04","C16"], "util/pypi/metadata.go", "\ts = strings.TrimLeft(s[nameEnd:], whitespace)", "\trest := s[nameEnd:]\n\ts = strings.TrimLeft(rest, \" \\t\")", note="suffix held in a local, cutset written out")
m2("C08","union-extras-in-place","util/resolve/pypi/resolve.go","\tnewExtras := make(map[string]bool, len(extras))\n\tfor k, v := range extras {\n\t\tnewExtras[k] = v\n\t}","\tnewExtras := extras\n\tif newExtras == nil {\n\t\tnewExtras = make(map[string]bool)\n\t}","C08.f","extras of the stored criterion updated in place")
b("c08-union-extras-of-copy", ["C08","C05"], "util/resolve/pypi/resolve.go", "\tnewCrit.extras = unionExtras(crit.extras, req.Type)", "\tnewCrit.extras = unionExtras(newCrit.extras, req.Type)", note="the union starts from the copy's own map")
m2("C07","requirement-before-exclusion","util/resolve/maven/resolve.go","\t\t\tif isExcluded, err := r.isExcluded(cur.exclusions, d.VersionKey); err != nil {","\t\t\tif pk := r.packageKeyForDependency(d.RequirementVersion); !slices.Contains(requirements[pk], d.VersionKey) {\n\t\t\t\trequirements[pk] = append(requirements[pk], d.VersionKey)\n\t\t\t}\n\t\t\tif isExcluded, err := r.isExcluded(cur.exclusions, d.VersionKey); err != nil {","C07.h","an excluded declaration's requirement is recorded before it is skipped")
b("c07-excluded-flat-ifs", ["C07"], "util/resolve/maven/resolve.go", "\t\t\tif isExcluded, err := r.isExcluded(cur.exclusions, d.VersionKey); err != nil {\n\t\t\t\treturn nil, false, err\n\t\t\t} else if isExcluded {", "\t\t\tisExcluded, err := r.isExcluded(cur.exclusions, d.VersionKey)\n\t\t\tif err != nil {\n\t\t\t\treturn nil, false, err\n\t\t\t}\n\t\t\tif isExcluded {", note="if/else-if chain flattened")
m2("C13","node-compare-one-sided","util/resolve/graph.go","\tif li, lj := len(n.Errors), len(o.Errors); li < lj {\n\t\treturn -1\n\t} else if li > lj {\n\t\treturn 1\n\t}\n\tfor i := range n.Errors {\n\t\tif c := n.Errors[i].Compare(o.Errors[i]); c != 0 {","\tfor i := range n.Errors {\n\t\tif i >= len(o.Errors) {\n\t\t\treturn 1\n\t\t}\n\t\tif c := n.Errors[i].Compare(o.Errors[i]); c != 0 {","C13.f","the shorter-error-list case is handled for one operand only")
m2("C19","compare-ranges-over-map","util/resolve/internal/attr/set.go","\tfor remBits := s.attrBits; remBits != 0; {\n\t\t// Find lowest set bit.\n\t\tkey := uint8(bits.TrailingZeros64(remBits))\n\t\tremBits &^= 1 << uint(key)\n\n\t\tif cmp := strings.Compare(s.attrs[key], other.attrs[key]); cmp != 0 {\n\t\t\treturn cmp\n\t\t}\n\t}\n\n\treturn 0\n}","\tfor key, value := range s.attrs {\n\t\tif cmp := strings.Compare(value, other.attrs[key]); cmp != 0 {\n\t\t\treturn cmp\n\t\t}\n\t}\n\n\treturn 0\n}","C19.g","sign decided inside a range over the attribute map")
b("c13-node-compare-cmp-lengths", ["C13","C04"], "util/resolve/graph.go", "\tif li, lj := len(n.Errors), len(o.Errors); li < lj {\n\t\treturn -1\n\t} else if li > lj {\n\t\treturn 1\n\t}", "\tif li, lj := len(n.Errors), len(o.Errors); li != lj {\n\t\tif li < lj {\n\t\t\treturn -1\n\t\t}\n\t\treturn 1\n\t}", note="length comparison nested under an inequality test")
for x in B:
    json.dump({k: v for k, v in x.items() if k != "name"}, open(os.path.join("/verif/mutants/benign", x["name"] + ".json"), "w"), indent=1, ensure_ascii=False)
print(len(M2), "C08 mutants;", len(B), "benign total")
