#!/usr/bin/env python3
"""One-off generator for /verif/tools/totality_table.json: the reviewed invariants for the bounds checks that
the gc compiler's prove pass cannot remove. Input: the output of `depscheck debug-bounds`. The annotations
below were written by reading each site (see DESIGN.md §3.5); the generated file is then maintained by hand."""
import sys, json, collections, re

K = {
 "cursor": "a scanner position field/variable that is only advanced by widths returned for the same string (next/back/accept/token/DecodeRune) and therefore stays within [0, len]",
 "sort-callback": "indices are supplied by sort/slices to a Less/Swap/less callback for the very slice being sorted (0 <= i,j < Len)",
 "inlined": "the bounds check belongs to an inlined callee and is reported at the call; the callee's own sites are reviewed under its name (or it is a standard-library function)",
 "index-result": "the offset was returned by strings.Index*/IndexByte/IndexAny/LastIndex on the same string and a dominating test established it is non-negative",
 "guard": "a dominating test establishes the bound; the required facts are re-derived on every run",
 "loop-index": "the index is a loop variable bounded by a condition on the length of the same slice, which is not shrunk in the loop",
 "nodeid": "the index is a NodeID produced by AddNode for this graph, checked by Graph.contains, or the endpoint of an edge that was only added through AddEdge",
 "parallel-slices": "the two slices are only ever extended together (same length), and the index ranges over one of them",
 "nonempty-elem": "elements are produced by a scanner or strings.Fields that never yields an empty token",
 "len-set": "a dominating test restricts len() to a finite set for which the constant index is valid",
 "trimmed": "the string was trimmed so that it is non-empty and its first/last byte is not the trimmed class",
 "num-count": "a parsed version of this system has at least that many numbers",
 "human": "argument specific to this function, see text",
}

# fn -> (kind, why, {expr: [facts]})
A = {}
COUNT = {}
def a(fn, kind, why, req=None, count=None):
    A[fn] = (kind, why, req or {})
    COUNT[fn] = count or {}

# ---- util/maven, util/pypi
a("maven.(*String).ContainsProperty", "index-result", "i is the offset of \"${\", so i+2 <= len(str)", {"str[i + 2:]": ["i >= 0"]})
a("maven.interpolating", "index-result", "i = Index(s, \"${\"), j = Index(s[i:], \"}\") >= 2 because s[i:] starts with \"${\"; after s = s[i:], 2 <= j < len(s)", {"s[i:]": ["i >= 0"], "s[2:j]": ["i >= 0", "j >= 0"], "s[:j + 1]": ["j >= 0"], "s[j + 1:]": ["j >= 0"]})
a("pypi.ParseDependency", "trimmed", "s is v trimmed of blanks on both sides; nameEnd indexes a delimiter inside s, so s[nameEnd:] is non-empty and ends in a non-blank byte, hence non-empty after TrimLeft (re-checked on SSA: rule trim-chain); end comes from IndexByte on the same s or is len(s); a constraint that starts with ( and ends with ) has length >= 2", {"s[:nameEnd]": ["nameEnd >= 0"], "s[1:end]": ["end >= 0"], "s[end + 1:]": ["end >= 0"], "s[:end]": ["len(s) > 0"], "s[0]": ["ssa:trim-chain"]}, count={"s[0]": 1})
a("pypi.CanonPackageName", "inlined", "strings.Builder.String inlined")
a("pypi.SdistVersion", "loop-index", "i is a byte offset produced by ranging over nameVersion and nameVersion[i] is the one-byte rune '-'; the other sites are inlined strings.TrimSuffix", {"nameVersion[i + 1:]": ["r == '-'"]})
a("pypi.ParseWheelName", "len-set", "name ends with the 4-byte suffix .whl; len(parts) is 5 or 6 after the early return; split is IndexFunc on buildTag or len(buildTag)", {"name[:len(name) - 4]": ["strings.HasSuffix(name, \".whl\")"], "buildTag[:split]": ["split != 0"], "parts[0]": ["!(len(parts) != 5 && len(parts) != 6)"], "parts[1]": ["!(len(parts) != 5 && len(parts) != 6)"], "parts[len(parts) - 3]": ["!(len(parts) != 5 && len(parts) != 6)"]})
# ---- util/resolve
a("resolve.(*APIClient).Versions", "loop-index", "vers is made with len(resp.Versions) and i ranges over resp.Versions")
a("resolve.(*APIClient).npmRequirements", "sort-callback", "sort.Slice callback over bundled; TrimPrefix is inlined")
a("resolve.flattenNPMDeps", "index-result", "i = LastIndex(r, \"@\") guarded by i >= 0; CutPrefix is inlined", {"r[:i]": ["i >= 0"], "r[i + 1:]": ["i >= 0"]})
a("resolve.(*Graph).AddError", "guard", "guarded by Graph.contains(n)", {"g.Nodes[n]": ["g.contains(n)"]})
a("resolve.(*Graph).Canon", "sort-callback", "sort.Slice callback over n.Errors; g.Nodes[on.Root]: Root is an index maintained by Swap within [0,len); Mapping is inlined")
a("resolve.(*Graph).renumber", "nodeid", "oldToNew has one entry per node and is a permutation of 0..n-1; edge endpoints are NodeIDs of this graph; i ranges over g.Edges; the closure is a sort.Slice callback")
a("resolve.(*Graph).canonBFS", "nodeid", "edges, oldToNew and g.Nodes all have len(g.Nodes) entries; n and to are edge endpoints of this graph (or 0 with at least the root present)")
a("resolve.(*orderedNodes).hasDupe", "loop-index", "1 <= i < len(n.Nodes) by the loop condition", )
a("resolve.(*orderedNodes).Mapping", "human", "m has len(n.IDs) entries and n.IDs is a permutation of 0..len-1 (newOrderedNodes fills it with 0..len-1, Swap only exchanges entries; canonBFS fills IDs with node indexes but never calls Mapping on that value)")
a("resolve.(*orderedNodes).Swap", "sort-callback", "sort.Interface contract; Nodes and IDs have the same length")
a("resolve.(*orderedNodes).Less", "sort-callback", "sort.Interface contract")
a("resolve.(Node).Compare", "guard", "i ranges over n.Errors and the two slices were just found to have equal length", {"o.Errors[i]": ["li >= lj", "li <= lj"]})
a("resolve.(*Graph).String", "nodeid", "all tables are sized len(g.Nodes), which is non-zero after the early return; indexes are node ids of this graph's edges/nodes", {"dependents[0]": ["len(g.Nodes) != 0"], "nodes[0]": ["len(g.Nodes) != 0"]})
a("resolve/internal/deptest.ParseString", "nonempty-elem", "items come from strings.Fields (never empty); w <= i; the inner loop keeps i < len(items); the value index i+1 is checked against len(items)-1 first")
a("resolve/internal/versiontest.ParseString", "nonempty-elem", "same shape as deptest.ParseString: i < len(items) by the loop condition and the value index is checked against len(items)-1 first")
a("resolve.SortVersions", "sort-callback", "sort.Slice callback over vs")
a("resolve.sortNPMVersions", "sort-callback", "sort.Slice callback over vs; latestIdx is an index obtained by ranging over vs (so vs is non-empty)", {"vs[latestIdx]": ["latestIdx >= 0"], "vs[len(vs) - 1]": ["latestIdx >= 0"]})
a("resolve.sortNPMDependencies", "sort-callback", "sort.Slice callback over deps")
a("resolve.MavenDepTypeToDependency", "index-result", "i = Index(ex, \":\") guarded by the i < 0 error return", {"ex[:i]": ["i >= 0"], "ex[i + 1:]": ["i >= 0"]})
a("resolve/maven.(*resolver).resolve", "loop-index", "reqs is made with the length of the slice being ranged over")
a("resolve/maven.(*resolver).findMatch", "index-result", "idx is the result of slices.IndexFunc on versions, guarded by idx != -1; slices.Reverse is inlined", {"versions[idx]": ["idx != -1"]})
a("resolve/maven.parseRegistries", "inlined", "strings.CutPrefix inlined")
a("resolve/npm.(*resolver).getBundledVersion", "index-result", "LastIndex(...)+1 lies in [0, len(mangled)]")
a("resolve/npm.(*resolver).treeNodeString", "human", "debug helper; callers pass either no argument or exactly one (withDeps != nil implies one element)", {"withDeps[0]": ["withDeps != nil"]})
a("resolve/pypi.(*envParser).skipWsp", "guard", "newPos < len(p.input) in the same condition", {"p.input[newPos]": ["newPos < len(p.input)"]})
a("resolve/pypi.(*envParser).accept", "cursor", "p.pos is only advanced by the length of a prefix that was just matched, or past a closing quote that was found")
a("resolve/pypi.(*envParser).peek", "guard", "the early return handles p.pos >= len(p.input)", {"p.input[p.pos]": ["p.pos < len(p.input)"]})
a("resolve/pypi.(*envParser).expected", "cursor", "0 <= p.pos <= len(p.input)")
for f in ["parseMarkerOr", "parseMarkerAnd", "parseMarkerVar", "parseMarkerOp", "parseMarkerExpr"]:
    a("resolve/pypi.(*envParser).%s" % f, "inlined", "skipWsp/accept/peek inlined; their own sites are reviewed under their names")
a("resolve/pypi.(*envParser).parsePythonStr", "cursor", "peek returned a quote, so p.pos < len(p.input) and p.pos+1 <= len; i is the IndexByte result on p.input[p.pos+1:], so p.pos+i+1 < len", {"p.input[p.pos + 1:p.pos + i + 1]": ["i >= 0"]})
a("resolve/pypi.buildGraph", "parallel-slices", "informationReqs and informationParents are appended together (mergeIntoCriterion) and cloned together; i ranges over informationReqs")
a("resolve/pypi.printCriterion", "parallel-slices", "debug printer; same parallel slices")
a("resolve/pypi.(*resolution).mergeIntoCriterion", "parallel-slices", "i ranges over crit.informationReqs; informationParents has the same length")
a("resolve/pypi.(*provider).findMatches", "inlined", "intersect inlined; reviewed under resolve/pypi.intersect")
a("resolve/pypi.(*provider).matchingVersionsWithPrereleases", "sort-callback", "sort.Slice callback over mvs")
a("resolve/pypi.intersect", "human", "w counts the elements kept so far, so w <= current index < len(a)")
a("resolve/pypi.filterSlice", "human", "invariant 0 <= i < end <= len(ts): end starts at len(ts) and is decremented only while i < end", {"ts[i]": ["i < end"]})
a("resolve/pypi.(*resolution).attemptToPinCriterion", "loop-index", "i counts down from len(crit.candidates)-1 to 0; mapping.Set is inlined")
a("resolve/pypi.(*resolution).backtrack", "human", "the loop runs only while len(r.states) >= 3 (checked at its head), so removing one state and popping from a previous state's mapping is in range; Pop is inlined and itself guarded")
a("resolve/pypi.(*criteria).Put", "index-result", "i is the result of sort.Search over len(cs), so 0 <= i <= len(cs); the in-range branch is guarded by i < len(cs); after append(cs, zero) len grew by one so cs[:i+1], cs[i:] and cs[i] are in range", {"cs[i]": ["i < len(cs)"]}, {"cs[i]": 2})
a("resolve/pypi.(criteria).Get", "index-result", "sort.Search callback and result, guarded by i < len(c)", {"c[i]": ["i < len(c)"]}, {"c[i]": 1})
a("resolve/pypi.(*versionMap).Set", "loop-index", "i ranges over v.stack")
a("resolve/pypi.(*versionMap).Pop", "guard", "guarded by the len(v.stack) == 0 early return", {"v.stack[:len(v.stack) - 1]": ["len(v.stack) != 0"]})
a("resolve.(versionKeys).Swap", "sort-callback", "sort.Interface contract")
a("resolve.(versionKeys).Less", "sort-callback", "sort.Interface contract")
a("resolve/schema.ParseResolve", "human", "nodes has one entry per row and i ranges over rows; sources has len(rows)+1 entries and parseResolve validated depth(row 0) = 0 and depth(row i) <= depth(row i-1)+1, so depth <= i; labels map to row indexes", {"sources[r.depth - 1]": ["r.depth != 0"]})
a("resolve/schema.parseResolve", "index-result", "offsets come from strings.Index on the same string and are tested against -1 / < 0 first; tl[6:] follows HasPrefix(tl, \"ERROR:\"); requirement is non-empty (checked) and when its first byte is @ the search restarts at 1; i > 0 guards rows[i-1]", {"tl[6:]": ["strings.HasPrefix(tl, \"ERROR:\")"], "tl[i + 8:]": ["i != -1"], "tl[:i]": ["i != -1"], "tl[i + 2:]": ["i != -1"], "tl[i + 1:]": ["i != -1"], "requirement[1:i]": ["i >= 0", "requirement != \"\""], "requirement[:i]": ["i >= 0"], "requirement[i + 1:]": ["i >= 0"], "requirement[1:]": ["i == 0"], "s.rows[i - 1]": ["i > 0"]})
a("resolve/schema.replaceArt", "guard", "guarded by HasPrefix(s, p)", {"s[len(p):]": ["strings.HasPrefix(s, p)"]})
a("resolve/schema.(*Package).Version", "loop-index", "i ranges over s.Versions")
a("resolve/schema.sortRequirements", "sort-callback", "sort.Slice callback")
a("resolve/schema.New", "trimmed", "line is trimmed of trailing space and non-empty, so the tab-counting loop stops at its last byte at the latest and line[tabs:] is non-empty; j is an Index result; line[5:] follows HasPrefix(line, \"ATTR:\")", {"line[:j]": ["j >= 0"], "line[tabs]": ["line != \"\""], "line[5:]": ["strings.HasPrefix(line, \"ATTR:\")"]})
a("resolve/schema.(Schema).ValidateClient", "loop-index", "1 <= i < len(want) by the loop condition", {"want[i]": ["i < len(want)"]})
# ---- util/semver
a("semver.(*constraintParser).constraint", "cursor", "p.lex.pos is a cursor into p.lex.str; incN is inlined and Go versions have three numbers")
for f in ["orList", "andList", "value", "setRange"]:
    a("semver.(*constraintParser).%s" % f, "cursor", "p.lex.pos (+ widths i, j returned by token for the same suffix) is a cursor into p.lex.str")
a("semver.versionNext", "guard", "guarded by the i == len(s) early return; callers pass 0 <= i <= len(s)", {"s[i:]": ["i != len(s)"]})
a("semver.(*Version).inc", "num-count", "incN/setNum inlined: wildcardIndex >= 1 in the default branch, and i ranges below len(v.num)")
a("semver.opVersionToSpan", "nonempty-elem", "p is a prerelease element produced by the scanner (never empty); i ranges over hi.num; setNum is inlined", {"p[len(p) - 1]": ["len(lo.pre) > 0"]})
a("semver.(*lexer).next", "cursor", "guarded by l.pos >= len(l.str) early return; r < 0x7F and r != eof (DecodeRune never returns a negative rune)", {"l.str[l.pos:]": ["l.pos < len(l.str)"], "byteType[r]": ["r < 0x7F"]})
a("semver.nextMavenElem", "guard", "i < len(s) by the loop condition", {"s[i:]": ["i < len(s)"]})
a("semver.(*mavenExtension).init", "nonempty-elem", "str is a non-empty element from nextMavenElem; prev = len(elements)-1 with !first; the trimming loop keeps 0 < i < len(elements)", {"elements[i + 1]": ["i < len(elements) - 1"], "elements[i]": ["i > 0"]})
a("semver.(*mavenExtension).compare", "loop-index", "i < max(len(as), len(bs)) and the branch taken has i >= the other length", {"bs[i]": ["i >= len(as)"], "as[i]": ["i >= len(bs)"]})
a("semver.(*mavenExtension).num", "guard", "guarded by the i >= len(m.elems) early return; callers pass constants >= 0", {"m.elems[i]": ["i < len(m.elems)"]})
a("semver.(*pep440Extension).init", "index-result", "bang is an IndexByte result > 0; start <= i <= len(input) are cursor values advanced by versionNext widths; the padding loop runs with at least one number", {"input[:bang]": ["bang > 0"], "input[bang + 1:]": ["bang > 0"], "p.version.num[len(p.version.num) - 1]": ["len(p.version.num) != 0"]})
a("semver.(*pep440Extension).parsePre", "human", "p.version.pre was just made with length 2")
a("semver.(*pep440Extension).parsePost", "human", "length is the length of a prefix of input that hasASCIIPrefix just matched")
a("semver.(*pep440Extension).number", "cursor", "i is advanced by versionNext widths within input")
a("semver.pep440LocalElem", "index-result", "dot is an IndexByte result guarded by dot < 0", {"s[:dot]": ["dot >= 0"], "s[dot + 1:]": ["dot >= 0"]})
a("semver.(*gemExtension).init", "cursor", "preStart is an index found by scanning input; i is 1 or nextVersionElemPos(s) in [1, len(s)] for non-empty s; a separator element has length >= 1", {"input[preStart:]": ["preStart >= 0"]})
a("semver.canon", "sort-callback", "sort.Slice callback over s; the merge loops keep i < len(s) and j < len(s) (s is only re-sliced after the loops)")
a("semver.(System).parseSpan", "human", "the first byte is [ or ( and the last byte is ] or ), which are different bytes, so len(s) >= 2", {"s[1:len(s) - 1]": ["s != \"\""]})
a("semver.(*Version).setTail", "inlined", "setNum inlined with i >= 0")
a("semver.(System).typeOf", "guard", "r < 0x7F by the early return and runes from DecodeRune are non-negative; byteType has 128 entries (checked by C03/OP-BYTES)", {"byteType[r]": ["r < 0x7F"]})
a("semver.(System).token", "cursor", "start and i are offsets advanced by DecodeRune widths within str; operators[sys] is exhaustive over System (rule ENUM-INDEX); typeOf is inlined", {"str[start:]": ["i != len(str)"]})
a("semver.(*versionParser).version", "nonempty-elem", "l is the last prerelease element (scanner never yields empty) and p.pre is non-empty; start <= p.lex.pos are cursor values", {"l[len(l) - 1]": ["len(p.pre) != 0"]})
a("semver.(*versionParser).number", "cursor", "start <= p.lex.pos <= len(str), and start < len(p.str) is tested where the byte is read", {"p.str[start]": ["start < len(p.str)"], "p.lex.str[start]": ["p.lex.pos > start + 1"]})
a("semver.(*versionParser).elem", "cursor", "start <= p.lex.pos <= len(str)")
a("semver.(*Version).getNum", "guard", "guarded by i < len(v.num); callers pass indices >= 0", {"v.num[i]": ["i < len(v.num)"]})
a("semver.(*Version).setNum", "human", "the loop above extends v.num until len(v.num) > i; callers pass i >= 0")
a("semver.(*Version).incN", "num-count", "callers (inc, the Go branch of constraint) pass n < len(v.num)")

sites = collections.OrderedDict()
for ln in open(sys.argv[1]):
    parts = ln.rstrip("\n").split("\t")
    if len(parts) < 4 or parts[2] == "?" or "_string.go" in parts[0] or "stringer.go" in parts[0] or "resolvetest" in parts[0]:
        continue
    sites.setdefault(parts[2], []).append(parts[3])
out = []
missing = []
for fn, exprs in sites.items():
    if fn not in A:
        missing.append((fn, exprs)); continue
    kind, why, req = A[fn]
    for e in req:
        if e not in exprs:
            print("WARNING: requires for unknown expr", fn, e, file=sys.stderr)
    out.append({"fn": fn, "sites": len(exprs), "kind": kind, "why": why, "exprs": sorted(set(exprs)),
                "requires": [dict({"expr": e, "facts": f}, **({"count": COUNT[fn][e]} if e in COUNT[fn] else {})) for e, f in req.items()]})
for fn in A:
    if fn not in sites:
        print("WARNING: annotation for function without sites", fn, file=sys.stderr)
for fn, exprs in missing:
    print("MISSING", fn, exprs, file=sys.stderr)
json.dump({"kinds": K, "functions": out}, open(sys.argv[2], "w"), indent=1, ensure_ascii=False)
print(len(out), "functions", sum(o["sites"] for o in out), "sites")
