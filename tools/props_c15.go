package main

import (
	"go/ast"
	"go/constant"
	"go/parser"
	"go/token"
	"go/types"
	"path/filepath"
	"strings"

	"golang.org/x/tools/go/ssa"
)

func checkC15(r *Report) {
	p := loadResolve("", true)
	tab := loadTotality()
	pathTrusted(r)
	r.Explain = "C15.d DECLARED-WINS: where ProcessDependencies injects dependency management, a managed value is stored into a field of the declared dependency only on the side of a test where that same field is empty. Only the termination and ordering clauses of 'the effective POM equals Maven's' are decided. C15.a INTERP-TERMINATES: the recursion of placeholder substitution is guarded by a visited map on every cycle (recursive call dominated by a lookup-and-exit and by an update of the same map, which is passed along), and its loop makes progress: the string carried round the loop is re-sliced past an index returned by strings.Index that was tested non-negative. C15.b LOOP-BOUNDS: dependency-management imports and parent chains are bounded by MaxImports and MaxMavenParent through monotone counters. C15.c CALL-ORDER: in both implementations of the pipeline (APIClient.mavenRequirements/fetchMavenParents, type-checked; examples/go/maven_parse_resolve main/mergeParents, syntax only because that module does not build offline) every MergeParent is preceded in its iteration by MergeProfiles on the project merged in, Interpolate runs after the parent loop, and ProcessDependencies runs after the parents were merged and interpolated. Not decided: equality with Maven's model builder on any input."
	r.Assume = []string{"the example program is analysed on its untyped syntax tree: calls are matched by selector name"}
	// a. recursion + progress
	sub := newReport("C15", r.Tier)
	recursionRule(sub, p, tab)
	found := false
	for _, o := range sub.Obls {
		if strings.Contains(o.Key, "maven.interpolating") {
			found = true
			o.Rule = "C15.a/INTERP-TERMINATES"
			r.Obls = append(r.Obls, o)
		}
	}
	if !found {
		r.bad("C15.a/INTERP-TERMINATES", "SCC {maven.interpolating}", "", "the recursion of maven.interpolating was not found in the call graph: anchor lost")
	}
	if f := p.lookupFn("maven.interpolating"); f != nil {
		key := "maven.interpolating: loop progress"
		if why := interpProgress(f); why != "" {
			r.bad("C15.a/INTERP-TERMINATES", key, p.pos(f.Pos()), why)
		} else {
			r.ok("C15.a/INTERP-TERMINATES", key, p.pos(f.Pos()), "every back edge of the scanning loop re-slices the string past index+1 of a strings.Index result that was tested non-negative: each iteration strictly shortens it")
		}
	}
	// b.
	for _, lb := range []struct{ fn, c string }{
		{"(*maven.Project).ProcessDependencies", "MaxImports"},
		{"(*resolve.APIClient).fetchMavenParents", "MaxMavenParent"},
	} {
		f := p.lookupFn(lb.fn)
		if f == nil {
			r.bad("C15.b/LOOP-BOUNDS", lb.fn+": loop bounded by "+lb.c, "", "function not found: anchor lost")
			continue
		}
		loopBoundRule(r, p, "C15.b/LOOP-BOUNDS", f, lb.c)
	}
	// c. typed call order
	callOrderTyped(r, p)
	callOrderExample(r)
	declaredWinsRule(r, p, "C15.d/DECLARED-WINS")
	nIC := interpolateCoverRule(r, p, "C15.e/INTERPOLATE-COVER", "Dependency")
	r.floor("C15.e/INTERPOLATE-COVER", "interpolatable fields reachable from maven.Dependency", nIC, 9)
	allCriteriaRule(r, p, "C15.f/ALL-CRITERIA")
	importKeyRule(r, p, "C15.g/IMPORT-KEY-VERSION")
	nDF := importDepthFirstRule(r, p, "C15.h/IMPORT-DEPTH-FIRST")
	r.floor("C15.h/IMPORT-DEPTH-FIRST", "refills of the work list of imports", nDF, 1)
	nBC := boolCaseRule(r, p, "C15.j/BOOL-CASE")
	r.floor("C15.j/BOOL-CASE", "boolean string types of package maven with an interpolate method", nBC, 2)
	nMA := mergeAppendOwnRule(r, p, "C15.i/MERGE-APPEND-OWN")
	r.floor("C15.i/MERGE-APPEND-OWN", "appends stored into the receiver by methods of package maven", nMA, 3)
}

// declaredWinsRule: when ProcessDependencies injects dependency management
// into a declared dependency, a managed value is copied into a field of the
// declared dependency only where that field is empty (Maven's
// DefaultDependencyManagementInjector: the declared value wins). Every store
// into a field of the declared dependency whose value comes from the managed
// entry must sit on the "field is empty" side of a test of that same field.
func declaredWinsRule(r *Report, p *Prog, rule string) {
	f := p.lookupFn("(*maven.Project).ProcessDependencies")
	if f == nil {
		r.bad(rule, "(*maven.Project).ProcessDependencies", "", "function not found: anchor lost")
		return
	}
	// the managed entry: the cell that receives the value of a comma-ok map lookup
	var dm []*ssa.Alloc
	for _, b := range f.Blocks {
		for _, in := range b.Instrs {
			st, ok := in.(*ssa.Store)
			if !ok {
				continue
			}
			ex, ok := st.Val.(*ssa.Extract)
			if !ok || ex.Index != 0 {
				continue
			}
			lk, ok := ex.Tuple.(*ssa.Lookup)
			if !ok || !lk.CommaOk || !strings.HasSuffix(lk.Type().(*types.Tuple).At(0).Type().String(), "maven.Dependency") {
				continue
			}
			if al, ok := st.Addr.(*ssa.Alloc); ok {
				dm = append(dm, al)
			}
		}
	}
	if len(dm) == 0 {
		r.bad(rule, fnKey(f)+": managed entry", p.pos(f.Pos()), "no 'dm, ok := depManagement[key]' lookup of a maven.Dependency found: anchor lost")
		return
	}
	fromDM := func(v ssa.Value) bool {
		seen := map[ssa.Value]bool{}
		var walk func(x ssa.Value, d int) bool
		walk = func(x ssa.Value, d int) bool {
			if x == nil || seen[x] || d > 12 {
				return false
			}
			seen[x] = true
			for _, a := range dm {
				if x == a {
					return true
				}
			}
			if _, ok := x.(*ssa.Alloc); ok {
				return false
			}
			if ins, ok := x.(ssa.Instruction); ok {
				for _, op := range ins.Operands(nil) {
					if *op != nil && walk(*op, d+1) {
						return true
					}
				}
			}
			return false
		}
		return walk(v, 0)
	}
	// emptiness test of field fld of cell al; returns the successor index on which the field is empty
	emptySide := func(cond ssa.Value, al *ssa.Alloc, fld int) int {
		neg := false
		if u, ok := cond.(*ssa.UnOp); ok && u.Op == token.NOT {
			cond, neg = u.X, true
		}
		bo, ok := cond.(*ssa.BinOp)
		if !ok {
			return -1
		}
		isField := func(v ssa.Value) bool {
			if c, ok := v.(*ssa.Call); ok {
				if bi, ok := c.Call.Value.(*ssa.Builtin); ok && bi.Name() == "len" {
					v = c.Call.Args[0]
				}
			}
			ld, ok := v.(*ssa.UnOp)
			if !ok || ld.Op != token.MUL {
				return false
			}
			fa, ok := ld.X.(*ssa.FieldAddr)
			return ok && fa.X == al && fa.Field == fld
		}
		isEmptyConst := func(v ssa.Value) bool {
			c, ok := v.(*ssa.Const)
			if !ok {
				return false
			}
			if c.Value == nil {
				return true // nil
			}
			switch c.Value.Kind() {
			case constant.String:
				return constant.StringVal(c.Value) == ""
			case constant.Int:
				n, _ := constant.Int64Val(c.Value)
				return n == 0
			}
			return false
		}
		intConst := func(v ssa.Value) (int64, bool) {
			c, ok := v.(*ssa.Const)
			if !ok || c.Value == nil || c.Value.Kind() != constant.Int {
				return 0, false
			}
			return constant.Int64Val(c.Value)
		}
		side := -1
		switch {
		case (bo.Op == token.EQL || bo.Op == token.NEQ) && (isField(bo.X) && isEmptyConst(bo.Y) || isField(bo.Y) && isEmptyConst(bo.X)):
			side = 0
			if bo.Op == token.NEQ {
				side = 1
			}
		case isField(bo.X): // len(f) < 1, len(f) <= 0 : empty on true; len(f) > 0, len(f) >= 1 : empty on false
			k, ok := intConst(bo.Y)
			switch {
			case ok && (bo.Op == token.LSS && k == 1 || bo.Op == token.LEQ && k == 0):
				side = 0
			case ok && (bo.Op == token.GTR && k == 0 || bo.Op == token.GEQ && k == 1):
				side = 1
			}
		}
		if side < 0 {
			return -1
		}
		if neg {
			side = 1 - side
		}
		return side
	}
	n := 0
	for _, b := range f.Blocks {
		for _, in := range b.Instrs {
			st, ok := in.(*ssa.Store)
			if !ok {
				continue
			}
			fa, ok := st.Addr.(*ssa.FieldAddr)
			if !ok {
				continue
			}
			al, ok := fa.X.(*ssa.Alloc)
			if !ok || !strings.HasSuffix(al.Type().String(), "maven.Dependency") || !fromDM(st.Val) {
				continue
			}
			isDM := false
			for _, a := range dm {
				if a == al {
					isDM = true
				}
			}
			if isDM {
				continue
			}
			n++
			fname := al.Type().Underlying().(*types.Pointer).Elem().Underlying().(*types.Struct).Field(fa.Field).Name()
			key := fnKey(f) + ": managed value copied into declared " + fname
			guarded := false
			for _, g := range f.Blocks {
				ifi, ok := g.Instrs[len(g.Instrs)-1].(*ssa.If)
				if !ok {
					continue
				}
				side := emptySide(ifi.Cond, al, fa.Field)
				if side < 0 {
					continue
				}
				if guardedBy(g, g.Succs[1-side], b) {
					guarded = true
				}
			}
			if guarded {
				r.ok(rule, key, p.pos(st.Pos()), "only on the side of a test where the declared "+fname+" is empty")
			} else {
				r.bad(rule, key, p.pos(st.Pos()), "a value from dependency management is written into the declared dependency's "+fname+" without testing that the declared one is empty: Maven keeps what the dependency declares and only fills gaps")
			}
		}
	}
	r.floor(rule, "fields of a declared dependency filled from dependency management", n, 3)
}

// interpProgress: the loop of interpolating strictly shortens its string.
func interpProgress(f *ssa.Function) string {
	for _, l := range naturalLoops(f) {
		for _, in := range l.header.Instrs {
			phi, ok := in.(*ssa.Phi)
			if !ok || phi.Type().String() != "string" {
				continue
			}
			entryIsParam := false
			for i, e := range phi.Edges {
				if !l.body[phi.Block().Preds[i]] {
					if _, ok := e.(*ssa.Parameter); ok {
						entryIsParam = true
					}
				}
			}
			if !entryIsParam {
				continue
			}
			// every back-edge value must be a slice with low = idx + c, c >= 1
			for i, e := range phi.Edges {
				if !l.body[phi.Block().Preds[i]] {
					continue
				}
				sl, ok := e.(*ssa.Slice)
				if !ok || sl.Low == nil {
					return "a back edge of the scanning loop does not re-slice the string from a positive offset"
				}
				bo, ok := sl.Low.(*ssa.BinOp)
				if !ok || bo.Op != token.ADD {
					return "the re-slice offset is not index+constant"
				}
				c, ok := bo.Y.(*ssa.Const)
				if !ok || c.Int64() < 1 {
					return "the re-slice offset does not add a positive constant"
				}
				idx, ok := bo.X.(*ssa.Call)
				if !ok || !strings.HasPrefix(staticCalleeName(idx), "strings.Index") {
					return "the re-slice offset is not derived from a strings.Index result"
				}
				// a dominating test idx < 0 that leaves the loop
				tested := false
				for b := range l.body {
					ifi, ok := b.Instrs[len(b.Instrs)-1].(*ssa.If)
					if !ok {
						continue
					}
					cmp, ok := ifi.Cond.(*ssa.BinOp)
					if !ok || cmp.X != ssa.Value(idx) || cmp.Op != token.LSS {
						continue
					}
					if !l.body[b.Succs[0]] && b.Dominates(phi.Block().Preds[i]) {
						tested = true
					}
				}
				if !tested {
					return "the index used to advance is no longer tested for < 0 with an exit from the loop"
				}
			}
			return ""
		}
	}
	return "the scanning loop carrying the input string was not found"
}

func callOrderTyped(r *Report, p *Prog) {
	rule := "C15.c/CALL-ORDER"
	fm := p.lookupFn("(*resolve.APIClient).fetchMavenParents")
	mr := p.lookupFn("(*resolve.APIClient).mavenRequirements")
	if fm == nil || mr == nil {
		r.bad(rule, "resolve.APIClient pipeline", "", "fetchMavenParents or mavenRequirements not found: anchor lost")
		return
	}
	calls := func(f *ssa.Function, name string) []*ssa.Call {
		var out []*ssa.Call
		for _, b := range f.Blocks {
			for _, in := range b.Instrs {
				if c, ok := in.(*ssa.Call); ok && staticCalleeName(c) == name {
					out = append(out, c)
				}
			}
		}
		return out
	}
	mp, mpar, interp := calls(fm, "(*maven.Project).MergeProfiles"), calls(fm, "(*maven.Project).MergeParent"), calls(fm, "(*maven.Project).Interpolate")
	key := fnKey(fm) + ": MergeProfiles before MergeParent, Interpolate after the loop"
	switch {
	case len(mpar) == 0 || len(mp) == 0 || len(interp) == 0:
		r.bad(rule, key, p.pos(fm.Pos()), "one of MergeProfiles / MergeParent / Interpolate is no longer called here")
	default:
		ok := true
		why := ""
		loops := naturalLoops(fm)
		for _, c := range mpar {
			dom := false
			for _, m := range mp {
				if dominatesInstr(m, c) && innermostLoop(loops, m.Block()) == innermostLoop(loops, c.Block()) {
					dom = true
				}
			}
			if !dom {
				ok, why = false, "a MergeParent call is not preceded in its iteration by MergeProfiles on the parent being merged"
			}
			for _, it := range interp {
				if l := innermostLoop(loops, c.Block()); l != nil && l.body[it.Block()] {
					ok, why = false, "Interpolate runs inside the parent loop, before the remaining parents are merged"
				}
				if dominatesInstr(it, c) {
					ok, why = false, "Interpolate runs before MergeParent"
				}
			}
		}
		if ok {
			r.ok(rule, key, p.pos(fm.Pos()), "each MergeParent is dominated by a MergeProfiles in the same loop iteration and Interpolate is outside the loop")
		} else {
			r.bad(rule, key, p.pos(fm.Pos()), why)
		}
	}
	mp2, fmc, pd := calls(mr, "(*maven.Project).MergeProfiles"), calls(mr, "(*resolve.APIClient).fetchMavenParents"), calls(mr, "(*maven.Project).ProcessDependencies")
	key = fnKey(mr) + ": MergeProfiles, then parents+Interpolate, then ProcessDependencies"
	if len(mp2) == 0 || len(fmc) == 0 || len(pd) == 0 {
		r.bad(rule, key, p.pos(mr.Pos()), "one of MergeProfiles / fetchMavenParents / ProcessDependencies is no longer called here")
		return
	}
	// the fetchMavenParents call in the function body proper (not the closure)
	okc := false
	for _, f := range fmc {
		if dominatesInstr(mp2[0], f) && dominatesInstr(f, pd[0]) {
			okc = true
		}
	}
	if okc {
		r.ok(rule, key, p.pos(mr.Pos()), "MergeProfiles dominates fetchMavenParents, which dominates ProcessDependencies")
	} else {
		r.bad(rule, key, p.pos(mr.Pos()), "the pipeline order merge profiles -> merge parents and interpolate -> process dependencies no longer holds on every path")
	}
}

// callOrderExample checks the example program on its untyped syntax tree.
func callOrderExample(r *Report) {
	rule := "C15.c/CALL-ORDER"
	path := filepath.Join(repoRoot, "examples/go/maven_parse_resolve/main.go")
	fset := token.NewFileSet()
	f, err := parser.ParseFile(fset, path, nil, 0)
	if err != nil {
		r.bad(rule, "examples/go/maven_parse_resolve", "", "cannot parse the example: "+err.Error())
		return
	}
	selCalls := func(n ast.Node, name string) []token.Pos {
		var out []token.Pos
		ast.Inspect(n, func(x ast.Node) bool {
			if c, ok := x.(*ast.CallExpr); ok {
				switch fn := c.Fun.(type) {
				case *ast.SelectorExpr:
					if fn.Sel.Name == name {
						out = append(out, c.Pos())
					}
				case *ast.Ident:
					if fn.Name == name {
						out = append(out, c.Pos())
					}
				}
			}
			return true
		})
		return out
	}
	rel := func(pos token.Pos) string { return relPos(fset.Position(pos)) }
	for _, d := range f.Decls {
		fd, ok := d.(*ast.FuncDecl)
		if !ok || fd.Body == nil {
			continue
		}
		switch fd.Name.Name {
		case "mergeParents":
			key := "example mergeParents: MergeProfiles before MergeParent, Interpolate after the loop"
			var loop *ast.ForStmt
			ast.Inspect(fd.Body, func(x ast.Node) bool {
				if fs, ok := x.(*ast.ForStmt); ok && loop == nil && len(selCalls(fs, "MergeParent")) > 0 {
					loop = fs
				}
				return true
			})
			if loop == nil {
				r.bad(rule, key, rel(fd.Pos()), "no loop calling MergeParent found: anchor lost")
				continue
			}
			mp, mpar, it := selCalls(loop, "MergeProfiles"), selCalls(loop, "MergeParent"), selCalls(fd.Body, "Interpolate")
			switch {
			case len(mp) == 0 || mp[0] > mpar[0]:
				r.bad(rule, key, rel(loop.Pos()), "MergeParent is not preceded by MergeProfiles in the loop body")
			case len(it) == 0 || it[0] < loop.End():
				r.bad(rule, key, rel(loop.Pos()), "Interpolate is missing or runs before the parent loop has finished")
			default:
				r.ok(rule, key, rel(loop.Pos()), "in the loop body MergeProfiles precedes MergeParent; Interpolate follows the loop")
			}
		case "main":
			key := "example main: ProcessDependencies after mergeParents"
			mpos, ppos := selCalls(fd.Body, "mergeParents"), selCalls(fd.Body, "ProcessDependencies")
			if len(mpos) == 0 || len(ppos) == 0 {
				r.bad(rule, key, rel(fd.Pos()), "mergeParents or ProcessDependencies is no longer called: anchor lost")
			} else if mpos[0] > ppos[0] {
				r.bad(rule, key, rel(ppos[0]), "ProcessDependencies runs before the parents are merged and interpolated")
			} else {
				r.ok(rule, key, rel(ppos[0]), "the first mergeParents call precedes ProcessDependencies")
			}
			if len(selCalls(fd.Body, "MergeProfiles")) == 0 {
				r.note("sibling divergence (observation, not a decided clause): the example's main never calls MergeProfiles on the root project, whereas APIClient.mavenRequirements does; profiles declared in the root POM are therefore ignored by the example pipeline")
			}
		}
	}
}
