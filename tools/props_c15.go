package main

import (
	"go/ast"
	"go/parser"
	"go/token"
	"path/filepath"
	"strings"

	"golang.org/x/tools/go/ssa"
)

func checkC15(r *Report) {
	p := loadResolve("", true)
	tab := loadTotality()
	pathTrusted(r)
	r.Explain = "Only the termination and ordering clauses of 'the effective POM equals Maven's' are decided. C15.a INTERP-TERMINATES: the recursion of placeholder substitution is guarded by a visited map on every cycle (recursive call dominated by a lookup-and-exit and by an update of the same map, which is passed along), and its loop makes progress: the string carried round the loop is re-sliced past an index returned by strings.Index that was tested non-negative. C15.b LOOP-BOUNDS: dependency-management imports and parent chains are bounded by MaxImports and MaxMavenParent through monotone counters. C15.c CALL-ORDER: in both implementations of the pipeline (APIClient.mavenRequirements/fetchMavenParents, type-checked; examples/go/maven_parse_resolve main/mergeParents, syntax only because that module does not build offline) every MergeParent is preceded in its iteration by MergeProfiles on the project merged in, Interpolate runs after the parent loop, and ProcessDependencies runs after the parents were merged and interpolated. Not decided: equality with Maven's model builder on any input."
	r.Assume = []string{"the example program is analysed on its untyped syntax tree: calls are matched by selector name"}
	// a. recursion + progress
	sub := newReport("C15", r.Tier)
	recursionRule(sub, p, tab)
	found := false
	for _, o := range sub.Obls {
		if strings.Contains(o.Key, "maven.interpolating") {
			found = true
			o.Rule = "C15.a/INTERP-TERMINATES"
			r.Obls = append(r.Obls, o)
		}
	}
	if !found {
		r.bad("C15.a/INTERP-TERMINATES", "SCC {maven.interpolating}", "", "the recursion of maven.interpolating was not found in the call graph: anchor lost")
	}
	if f := p.lookupFn("maven.interpolating"); f != nil {
		key := "maven.interpolating: loop progress"
		if why := interpProgress(f); why != "" {
			r.bad("C15.a/INTERP-TERMINATES", key, p.pos(f.Pos()), why)
		} else {
			r.ok("C15.a/INTERP-TERMINATES", key, p.pos(f.Pos()), "every back edge of the scanning loop re-slices the string past index+1 of a strings.Index result that was tested non-negative: each iteration strictly shortens it")
		}
	}
	// b.
	for _, lb := range []struct{ fn, c string }{
		{"(*maven.Project).ProcessDependencies", "MaxImports"},
		{"(*resolve.APIClient).fetchMavenParents", "MaxMavenParent"},
	} {
		f := p.lookupFn(lb.fn)
		if f == nil {
			r.bad("C15.b/LOOP-BOUNDS", lb.fn+": loop bounded by "+lb.c, "", "function not found: anchor lost")
			continue
		}
		loopBoundRule(r, p, "C15.b/LOOP-BOUNDS", f, lb.c)
	}
	// c. typed call order
	callOrderTyped(r, p)
	callOrderExample(r)
}

// interpProgress: the loop of interpolating strictly shortens its string.
func interpProgress(f *ssa.Function) string {
	for _, l := range naturalLoops(f) {
		for _, in := range l.header.Instrs {
			phi, ok := in.(*ssa.Phi)
			if !ok || phi.Type().String() != "string" {
				continue
			}
			entryIsParam := false
			for i, e := range phi.Edges {
				if !l.body[phi.Block().Preds[i]] {
					if _, ok := e.(*ssa.Parameter); ok {
						entryIsParam = true
					}
				}
			}
			if !entryIsParam {
				continue
			}
			// every back-edge value must be a slice with low = idx + c, c >= 1
			for i, e := range phi.Edges {
				if !l.body[phi.Block().Preds[i]] {
					continue
				}
				sl, ok := e.(*ssa.Slice)
				if !ok || sl.Low == nil {
					return "a back edge of the scanning loop does not re-slice the string from a positive offset"
				}
				bo, ok := sl.Low.(*ssa.BinOp)
				if !ok || bo.Op != token.ADD {
					return "the re-slice offset is not index+constant"
				}
				c, ok := bo.Y.(*ssa.Const)
				if !ok || c.Int64() < 1 {
					return "the re-slice offset does not add a positive constant"
				}
				idx, ok := bo.X.(*ssa.Call)
				if !ok || !strings.HasPrefix(staticCalleeName(idx), "strings.Index") {
					return "the re-slice offset is not derived from a strings.Index result"
				}
				// a dominating test idx < 0 that leaves the loop
				tested := false
				for b := range l.body {
					ifi, ok := b.Instrs[len(b.Instrs)-1].(*ssa.If)
					if !ok {
						continue
					}
					cmp, ok := ifi.Cond.(*ssa.BinOp)
					if !ok || cmp.X != ssa.Value(idx) || cmp.Op != token.LSS {
						continue
					}
					if !l.body[b.Succs[0]] && b.Dominates(phi.Block().Preds[i]) {
						tested = true
					}
				}
				if !tested {
					return "the index used to advance is no longer tested for < 0 with an exit from the loop"
				}
			}
			return ""
		}
	}
	return "the scanning loop carrying the input string was not found"
}

func callOrderTyped(r *Report, p *Prog) {
	rule := "C15.c/CALL-ORDER"
	fm := p.lookupFn("(*resolve.APIClient).fetchMavenParents")
	mr := p.lookupFn("(*resolve.APIClient).mavenRequirements")
	if fm == nil || mr == nil {
		r.bad(rule, "resolve.APIClient pipeline", "", "fetchMavenParents or mavenRequirements not found: anchor lost")
		return
	}
	calls := func(f *ssa.Function, name string) []*ssa.Call {
		var out []*ssa.Call
		for _, b := range f.Blocks {
			for _, in := range b.Instrs {
				if c, ok := in.(*ssa.Call); ok && staticCalleeName(c) == name {
					out = append(out, c)
				}
			}
		}
		return out
	}
	mp, mpar, interp := calls(fm, "(*maven.Project).MergeProfiles"), calls(fm, "(*maven.Project).MergeParent"), calls(fm, "(*maven.Project).Interpolate")
	key := fnKey(fm) + ": MergeProfiles before MergeParent, Interpolate after the loop"
	switch {
	case len(mpar) == 0 || len(mp) == 0 || len(interp) == 0:
		r.bad(rule, key, p.pos(fm.Pos()), "one of MergeProfiles / MergeParent / Interpolate is no longer called here")
	default:
		ok := true
		why := ""
		loops := naturalLoops(fm)
		for _, c := range mpar {
			dom := false
			for _, m := range mp {
				if dominatesInstr(m, c) && innermostLoop(loops, m.Block()) == innermostLoop(loops, c.Block()) {
					dom = true
				}
			}
			if !dom {
				ok, why = false, "a MergeParent call is not preceded in its iteration by MergeProfiles on the parent being merged"
			}
			for _, it := range interp {
				if l := innermostLoop(loops, c.Block()); l != nil && l.body[it.Block()] {
					ok, why = false, "Interpolate runs inside the parent loop, before the remaining parents are merged"
				}
				if dominatesInstr(it, c) {
					ok, why = false, "Interpolate runs before MergeParent"
				}
			}
		}
		if ok {
			r.ok(rule, key, p.pos(fm.Pos()), "each MergeParent is dominated by a MergeProfiles in the same loop iteration and Interpolate is outside the loop")
		} else {
			r.bad(rule, key, p.pos(fm.Pos()), why)
		}
	}
	mp2, fmc, pd := calls(mr, "(*maven.Project).MergeProfiles"), calls(mr, "(*resolve.APIClient).fetchMavenParents"), calls(mr, "(*maven.Project).ProcessDependencies")
	key = fnKey(mr) + ": MergeProfiles, then parents+Interpolate, then ProcessDependencies"
	if len(mp2) == 0 || len(fmc) == 0 || len(pd) == 0 {
		r.bad(rule, key, p.pos(mr.Pos()), "one of MergeProfiles / fetchMavenParents / ProcessDependencies is no longer called here")
		return
	}
	// the fetchMavenParents call in the function body proper (not the closure)
	okc := false
	for _, f := range fmc {
		if dominatesInstr(mp2[0], f) && dominatesInstr(f, pd[0]) {
			okc = true
		}
	}
	if okc {
		r.ok(rule, key, p.pos(mr.Pos()), "MergeProfiles dominates fetchMavenParents, which dominates ProcessDependencies")
	} else {
		r.bad(rule, key, p.pos(mr.Pos()), "the pipeline order merge profiles -> merge parents and interpolate -> process dependencies no longer holds on every path")
	}
}

// callOrderExample checks the example program on its untyped syntax tree.
func callOrderExample(r *Report) {
	rule := "C15.c/CALL-ORDER"
	path := filepath.Join(repoRoot, "examples/go/maven_parse_resolve/main.go")
	fset := token.NewFileSet()
	f, err := parser.ParseFile(fset, path, nil, 0)
	if err != nil {
		r.bad(rule, "examples/go/maven_parse_resolve", "", "cannot parse the example: "+err.Error())
		return
	}
	selCalls := func(n ast.Node, name string) []token.Pos {
		var out []token.Pos
		ast.Inspect(n, func(x ast.Node) bool {
			if c, ok := x.(*ast.CallExpr); ok {
				switch fn := c.Fun.(type) {
				case *ast.SelectorExpr:
					if fn.Sel.Name == name {
						out = append(out, c.Pos())
					}
				case *ast.Ident:
					if fn.Name == name {
						out = append(out, c.Pos())
					}
				}
			}
			return true
		})
		return out
	}
	rel := func(pos token.Pos) string { return relPos(fset.Position(pos)) }
	for _, d := range f.Decls {
		fd, ok := d.(*ast.FuncDecl)
		if !ok || fd.Body == nil {
			continue
		}
		switch fd.Name.Name {
		case "mergeParents":
			key := "example mergeParents: MergeProfiles before MergeParent, Interpolate after the loop"
			var loop *ast.ForStmt
			ast.Inspect(fd.Body, func(x ast.Node) bool {
				if fs, ok := x.(*ast.ForStmt); ok && loop == nil && len(selCalls(fs, "MergeParent")) > 0 {
					loop = fs
				}
				return true
			})
			if loop == nil {
				r.bad(rule, key, rel(fd.Pos()), "no loop calling MergeParent found: anchor lost")
				continue
			}
			mp, mpar, it := selCalls(loop, "MergeProfiles"), selCalls(loop, "MergeParent"), selCalls(fd.Body, "Interpolate")
			switch {
			case len(mp) == 0 || mp[0] > mpar[0]:
				r.bad(rule, key, rel(loop.Pos()), "MergeParent is not preceded by MergeProfiles in the loop body")
			case len(it) == 0 || it[0] < loop.End():
				r.bad(rule, key, rel(loop.Pos()), "Interpolate is missing or runs before the parent loop has finished")
			default:
				r.ok(rule, key, rel(loop.Pos()), "in the loop body MergeProfiles precedes MergeParent; Interpolate follows the loop")
			}
		case "main":
			key := "example main: ProcessDependencies after mergeParents"
			mpos, ppos := selCalls(fd.Body, "mergeParents"), selCalls(fd.Body, "ProcessDependencies")
			if len(mpos) == 0 || len(ppos) == 0 {
				r.bad(rule, key, rel(fd.Pos()), "mergeParents or ProcessDependencies is no longer called: anchor lost")
			} else if mpos[0] > ppos[0] {
				r.bad(rule, key, rel(ppos[0]), "ProcessDependencies runs before the parents are merged and interpolated")
			} else {
				r.ok(rule, key, rel(ppos[0]), "the first mergeParents call precedes ProcessDependencies")
			}
			if len(selCalls(fd.Body, "MergeProfiles")) == 0 {
				r.note("sibling divergence (observation, not a decided clause): the example's main never calls MergeProfiles on the root project, whereas APIClient.mavenRequirements does; profiles declared in the root POM are therefore ignored by the example pipeline")
			}
		}
	}
}
