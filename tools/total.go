package main

// TOTAL engine (C04): obligations for "returns or errors" (DESIGN.md §3.5).

import (
	"bytes"
	"fmt"
	"go/ast"
	"go/token"
	"go/types"
	"os/exec"
	"path/filepath"
	"regexp"
	"sort"
	"strconv"
	"strings"
)

// bceSite is one bounds check the gc compiler's prove pass could not remove.
type bceSite struct {
	file      string // absolute
	line, col int
	kind      string // IsInBounds / IsSliceInBounds
	fn        string // enclosing function (stable name)
	expr      string // the index/slice/call expression text
	node      ast.Node
	pos       token.Pos
}

var bceRe = regexp.MustCompile(`^(\S+\.go):(\d+):(\d+): Found (IsInBounds|IsSliceInBounds)`)

// unprovenBounds asks the gc compiler (prove pass) which bounds checks remain
// in the in-scope modules of repoRoot. The compiler only analyses the code;
// nothing from /repo is executed.
func unprovenBounds(p *Prog) ([]bceSite, error) {
	var out []bceSite
	for _, mod := range []string{"util/semver", "util/pypi", "util/maven", "util/resolve"} {
		dir := filepath.Join(repoRoot, mod)
		cmd := exec.Command("go", "build", "-gcflags=-d=ssa/check_bce/debug=1", "./...")
		cmd.Dir = dir
		cmd.Env = goEnv(p.GOARCH)
		var buf bytes.Buffer
		cmd.Stdout = &buf
		cmd.Stderr = &buf
		if err := cmd.Run(); err != nil {
			return nil, fmt.Errorf("go build in %s: %v\n%s", mod, err, buf.String())
		}
		pkgDir := dir
		for _, ln := range strings.Split(buf.String(), "\n") {
			if strings.HasPrefix(ln, "# ") {
				// "# deps.dev/util/resolve/npm" -> directory of that package
				ip := strings.TrimSpace(strings.TrimPrefix(ln, "# "))
				if i := strings.Index(ip, " "); i > 0 {
					ip = ip[:i]
				}
				if pk := p.Pkgs[ip]; pk != nil && len(pk.GoFiles) > 0 {
					pkgDir = filepath.Dir(pk.GoFiles[0])
				}
				continue
			}
			m := bceRe.FindStringSubmatch(ln)
			if m == nil {
				continue
			}
			f := m[1]
			if !filepath.IsAbs(f) {
				// positions are relative to the directory go build ran in
				f = filepath.Join(dir, f)
			}
			_ = pkgDir
			line, _ := strconv.Atoi(m[2])
			col, _ := strconv.Atoi(m[3])
			out = append(out, bceSite{file: filepath.Clean(f), line: line, col: col, kind: m[4]})
		}
	}
	return out, nil
}

// locateBounds maps compiler positions back to syntax.
func locateBounds(p *Prog, sites []bceSite) []bceSite {
	type key struct {
		file      string
		line, col int
	}
	idx := map[key]ast.Node{}
	calls := map[key]ast.Node{}
	for f := range p.fileOf {
		fname := p.Fset.Position(f.Pos()).Filename
		ast.Inspect(f, func(n ast.Node) bool {
			switch x := n.(type) {
			case *ast.IndexExpr:
				ps := p.Fset.Position(x.Lbrack)
				idx[key{fname, ps.Line, ps.Column}] = x
			case *ast.SliceExpr:
				ps := p.Fset.Position(x.Lbrack)
				idx[key{fname, ps.Line, ps.Column}] = x
			case *ast.CallExpr:
				ps := p.Fset.Position(x.Lparen)
				calls[key{fname, ps.Line, ps.Column}] = x
				ps2 := p.Fset.Position(x.Pos())
				if _, dup := calls[key{fname, ps2.Line, ps2.Column}]; !dup {
					calls[key{fname, ps2.Line, ps2.Column}] = x
				}
			case *ast.RangeStmt:
				ps := p.Fset.Position(x.X.Pos())
				if _, dup := calls[key{fname, ps.Line, ps.Column}]; !dup {
					calls[key{fname, ps.Line, ps.Column}] = x
				}
			}
			return true
		})
	}
	var out []bceSite
	for _, s := range sites {
		k := key{s.file, s.line, s.col}
		n := idx[k]
		if n == nil {
			n = calls[k]
		}
		if n != nil {
			s.node = n
			s.pos = n.Pos()
			s.expr = nodeText(p, n)
			s.fn = p.enclosingFuncName(n.Pos())
		} else {
			s.expr = "?"
			s.fn = "?"
		}
		out = append(out, s)
	}
	return out
}

func nodeText(p *Prog, n ast.Node) string {
	if e, ok := n.(ast.Expr); ok {
		return types.ExprString(e)
	}
	if rs, ok := n.(*ast.RangeStmt); ok {
		return "range " + types.ExprString(rs.X)
	}
	return fmt.Sprintf("%T", n)
}

func sortSites(s []bceSite) {
	sort.Slice(s, func(i, j int) bool {
		if s[i].file != s[j].file {
			return s[i].file < s[j].file
		}
		if s[i].line != s[j].line {
			return s[i].line < s[j].line
		}
		return s[i].col < s[j].col
	})
}

// ---- recursion -------------------------------------------------------------

// recursiveSCCs returns the non-trivial strongly connected components of the
// in-scope call graph (VTA), each as a sorted list of function names.
func recursiveSCCs(p *Prog) [][]string {
	cg := p.callGraph()
	adj := map[string]map[string]bool{}
	name := func(f interface{ String() string }) string { return short(f.String()) }
	for fn, node := range cg.Nodes {
		if fn == nil || !p.inScope(fn) {
			continue
		}
		from := name(fn)
		if fn.Origin() != nil {
			from = short(fn.Origin().String())
		}
		if adj[from] == nil {
			adj[from] = map[string]bool{}
		}
		for _, e := range node.Out {
			c := e.Callee.Func
			if c == nil || !p.inScope(c) {
				continue
			}
			to := name(c)
			if c.Origin() != nil {
				to = short(c.Origin().String())
			}
			adj[from][to] = true
		}
		// closures created here may be called back: treat creation as an edge
		for _, af := range fn.AnonFuncs {
			adj[from][name(af)] = true
		}
	}
	// Tarjan
	index := map[string]int{}
	low := map[string]int{}
	on := map[string]bool{}
	var stack []string
	var out [][]string
	n := 0
	var nodes []string
	for k := range adj {
		nodes = append(nodes, k)
	}
	sort.Strings(nodes)
	var strong func(v string)
	strong = func(v string) {
		index[v] = n
		low[v] = n
		n++
		stack = append(stack, v)
		on[v] = true
		var succ []string
		for w := range adj[v] {
			succ = append(succ, w)
		}
		sort.Strings(succ)
		for _, w := range succ {
			if _, seen := index[w]; !seen {
				strong(w)
				if low[w] < low[v] {
					low[v] = low[w]
				}
			} else if on[w] && index[w] < low[v] {
				low[v] = index[w]
			}
		}
		if low[v] == index[v] {
			var comp []string
			for {
				w := stack[len(stack)-1]
				stack = stack[:len(stack)-1]
				on[w] = false
				comp = append(comp, w)
				if w == v {
					break
				}
			}
			if len(comp) > 1 || adj[v][v] {
				sort.Strings(comp)
				out = append(out, comp)
			}
		}
	}
	for _, v := range nodes {
		if _, seen := index[v]; !seen {
			strong(v)
		}
	}
	sort.Slice(out, func(i, j int) bool { return out[i][0] < out[j][0] })
	return out
}
