package main

// C10 / C11: structural necessary conditions of the text round trips
// (DESIGN.md §8.7). Only the shape is decided: which fields printers read,
// that printers write nothing, and that parsers set what printers read.

import (
	"fmt"
	"go/ast"
	"go/constant"
	"go/token"
	"go/types"
	"sort"
	"strings"

	"golang.org/x/tools/go/ssa"
)

// fieldReads returns the struct fields (of types declared in pkgPath) that f,
// and the functions of the same package it calls statically, read. With
// followInvoke, interface calls are followed to every in-package method of
// that name (class-hierarchy style).
func fieldReads(p *Prog, f *ssa.Function, pkgPath string, followInvoke bool, stop map[string]bool) map[*types.Var]token.Pos {
	out := map[*types.Var]token.Pos{}
	seen := map[*ssa.Function]bool{}
	var walk func(g *ssa.Function)
	walk = func(g *ssa.Function) {
		if g == nil || seen[g] || g.Blocks == nil || stop[fnKey(g)] {
			return
		}
		seen[g] = true
		mark := func(fv *types.Var, pos token.Pos) {
			if fv.Pkg() == nil || fv.Pkg().Path() != pkgPath {
				return
			}
			if _, ok := out[fv]; !ok {
				out[fv] = pos
			}
		}
		for _, b := range g.Blocks {
			for _, in := range b.Instrs {
				switch x := in.(type) {
				case *ssa.FieldAddr:
					st := x.X.Type().Underlying().(*types.Pointer).Elem().Underlying().(*types.Struct)
					// a field address used only as the target of stores is not a read
					read := false
					if refs := x.Referrers(); refs != nil {
						for _, r := range *refs {
							if s, ok := r.(*ssa.Store); ok && s.Addr == x {
								continue
							}
							if _, ok := r.(*ssa.DebugRef); ok {
								continue
							}
							read = true
						}
					}
					if read {
						mark(st.Field(x.Field), x.Pos())
					}
				case *ssa.Field:
					st := x.X.Type().Underlying().(*types.Struct)
					mark(st.Field(x.Field), x.Pos())
				case ssa.CallInstruction:
					c := x.Common()
					if sc := c.StaticCallee(); sc != nil {
						if sc.Pkg != nil && sc.Pkg.Pkg.Path() == pkgPath {
							walk(sc)
						}
					} else if c.IsInvoke() && followInvoke {
						for _, h := range p.Funcs {
							if h.Signature.Recv() != nil && h.Name() == c.Method.Name() && h.Pkg != nil && h.Pkg.Pkg.Path() == pkgPath {
								walk(h)
							}
						}
					}
				}
			}
		}
		for _, an := range g.AnonFuncs {
			walk(an)
		}
	}
	walk(f)
	return out
}

func fieldNames(m map[*types.Var]token.Pos, owner func(*types.Var) string) []string {
	var s []string
	for v := range m {
		s = append(s, owner(v)+"."+v.Name())
	}
	sort.Strings(s)
	return s
}

// fieldOwnerIndex maps every field of the package's named struct types to "Type".
func fieldOwnerIndex(pk *types.Package) func(*types.Var) string {
	idx := map[*types.Var]string{}
	for _, n := range pk.Scope().Names() {
		tn, ok := pk.Scope().Lookup(n).(*types.TypeName)
		if !ok {
			continue
		}
		if st, ok := tn.Type().Underlying().(*types.Struct); ok {
			for i := 0; i < st.NumFields(); i++ {
				idx[st.Field(i)] = n
			}
		}
	}
	return func(v *types.Var) string {
		if s, ok := idx[v]; ok {
			return s
		}
		return "?"
	}
}

func debugC10(p *Prog) {
	const pkg = modPrefix + "semver"
	own := fieldOwnerIndex(p.Pkgs[pkg].Types)
	for _, n := range []string{"semver.compare", "(*semver.Version).Canon", "(*semver.mavenExtension).compare", "(*semver.mavenExtension).canon", "(*semver.pep440Extension).compare", "(*semver.pep440Extension).canon", "(*semver.gemExtension).compare", "(*semver.gemExtension).canon", "(semver.span).String", "(semver.span).contains", "(semver.Set).matchVersion", "(semver.Set).String"} {
		f := p.lookupFn(n)
		if f == nil {
			fmt.Println(n, "NOT FOUND")
			continue
		}
		fmt.Println(n, strings.Join(fieldNames(fieldReads(p, f, pkg, false, nil), own), " "))
	}
}

// recycleCompleteRule: see checkC03.
func recycleCompleteRule(r *Report, p *Prog, rule string) {
	const pkg = modPrefix + "semver"
	sp := p.Pkgs[pkg]
	if sp == nil {
		r.bad(rule, "package semver", "", "package not loaded")
		return
	}
	own := fieldOwnerIndex(sp.Types)
	// what matching and comparison read of a Version
	need := map[*types.Var]bool{}
	var readers []string
	for _, n := range []string{"semver.compare", "(semver.span).contains", "(semver.Set).matchVersion"} {
		f := p.lookupFn(n)
		if f == nil {
			r.bad(rule, n, "", "function not found: anchor lost")
			return
		}
		readers = append(readers, n)
		for fv := range fieldReads(p, f, pkg, false, nil) {
			if own(fv) == "Version" && fv.Name() != "sys" {
				need[fv] = true
			}
		}
	}
	var needNames []string
	for fv := range need {
		needNames = append(needNames, fv.Name())
	}
	sort.Strings(needNames)
	r.floor(rule, "Version fields read by comparison and span matching (besides sys)", len(need), 3)
	n := 0
	for _, f := range p.Funcs {
		if f.Pkg == nil || f.Pkg.Pkg.Path() != pkg || f.Blocks == nil {
			continue
		}
		for _, prm := range f.Params {
			pt, ok := prm.Type().(*types.Pointer)
			if !ok || !strings.HasSuffix(pt.Elem().String(), "semver.Version") {
				continue
			}
			// stores to fields of the parameter, by block
			stores := map[*types.Var][]*ssa.BasicBlock{}
			if prm.Referrers() == nil {
				continue
			}
			var whole []*ssa.BasicBlock // *prm = Version{...} stores every field
			for _, rf := range *prm.Referrers() {
				if st, ok := rf.(*ssa.Store); ok && st.Addr == prm {
					whole = append(whole, st.Block())
				}
				fa, ok := rf.(*ssa.FieldAddr)
				if !ok || fa.Referrers() == nil {
					continue
				}
				fv := pt.Elem().Underlying().(*types.Struct).Field(fa.Field)
				for _, u := range *fa.Referrers() {
					if st, ok := u.(*ssa.Store); ok && st.Addr == fa {
						stores[fv] = append(stores[fv], st.Block())
					}
				}
			}
			if len(stores) < 2 && len(whole) == 0 {
				continue // not rebuilding the argument
			}
			for _, b := range f.Blocks {
				ret, ok := b.Instrs[len(b.Instrs)-1].(*ssa.Return)
				if !ok {
					continue
				}
				returnsParam := false
				for _, res := range ret.Results {
					if res == prm {
						returnsParam = true
					}
				}
				if !returnsParam {
					continue
				}
				n++
				var missing []string
				for fv := range need {
					okF := false
					for _, sb := range append(append([]*ssa.BasicBlock{}, stores[fv]...), whole...) {
						if sb == b || sb.Dominates(b) {
							okF = true
						}
					}
					if !okF {
						missing = append(missing, fv.Name())
					}
				}
				sort.Strings(missing)
				key := fmt.Sprintf("%s: rebuilds and returns its argument %s", fnKey(f), prm.Name())
				if len(missing) > 0 {
					r.bad(rule, key, p.pos(ret.Pos()), fmt.Sprintf("the argument is overwritten to serve as a fresh version, but %v (read by %v) keeps the value the caller's version had: the synthetic version behaves differently depending on the bound it was built from", missing, readers))
				} else {
					r.ok(rule, key, p.pos(ret.Pos()), fmt.Sprintf("every field read by comparison and matching %v is stored on every path to this return", needNames))
				}
			}
		}
	}
	r.floor(rule, "functions of package semver that rebuild and return a *Version argument", n, 1)
}

// ---- C10 -------------------------------------------------------------------

// derivedFields: fields that comparison reads but printing need not, because
// they are a function of another field that is printed. Each entry is
// re-checked: every store to the field lies in a function that also stores
// the field it is derived from.
var derivedFields = map[string]struct{ from, why string }{
	"mavenElement.int": {"mavenElement.str", "numeric value of str, set where str is parsed"},
	"gemElement.int":   {"gemElement.str", "numeric value of str, set where str is parsed"},
}

// foldByHand: fields that the printer case-folds with strings.ToLower while the
// comparator folds them without a library call.
var foldByHand = map[string]struct{ fn, why string }{
	"Version.pre": {"semver.compareNugetPrerelease", "NuGet prerelease identifiers: the comparator folds ASCII letters by hand (c += 32)"},
}

func writeFreeRule(r *Report, p *Prog, e *Effect, rule string, f *ssa.Function, what, consequence string) {
	key := fnKey(f) + " (" + what + ")"
	s := e.sums[f]
	if s == nil {
		r.bad(rule, key, p.pos(f.Pos()), "no effect summary for this function")
		return
	}
	type w struct{ k, pos, why string }
	var ws []w
	for st, o := range s.writes {
		if o.empty() {
			continue
		}
		ws = append(ws, w{key + ": " + st.desc + " in " + fnKey(st.fn), p.pos(st.pos), "a " + what + " writes memory reachable from its operands (" + st.desc + " at " + p.pos(st.pos) + "): " + consequence})
	}
	for g := range s.wglobal {
		ws = append(ws, w{key + ": stores global " + short(g.String()), p.pos(f.Pos()), "a " + what + " stores to a package-level variable: " + consequence})
	}
	sort.Slice(ws, func(i, j int) bool { return ws[i].k+ws[i].pos < ws[j].k+ws[j].pos })
	for _, x := range ws {
		r.bad(rule, x.k, x.pos, x.why)
	}
	if len(ws) == 0 {
		r.ok(rule, key, p.pos(f.Pos()), "the effect summary of the function and of everything it calls is write-free (receiver, parameters, globals)")
	}
}

// foldedFields: fields whose value is handed to a case-folding library function
// in f or the same-package functions it calls statically.
func foldedFields(p *Prog, f *ssa.Function, pkgPath string) map[*types.Var]token.Pos {
	return interpretedFields(p, f, pkgPath, func(name string) bool {
		return name == "strings.ToLower" || name == "strings.ToUpper" || name == "strings.EqualFold" || name == "unicode.ToLower" || name == "unicode.ToUpper" || name == "strings.ToTitle"
	})
}

// numberedFields: fields whose value is handed to a strconv number parser.
func numberedFields(p *Prog, f *ssa.Function, pkgPath string) map[*types.Var]token.Pos {
	return interpretedFields(p, f, pkgPath, func(name string) bool {
		return name == "strconv.Atoi" || name == "strconv.ParseInt" || name == "strconv.ParseUint" || name == "strconv.ParseFloat"
	})
}

func interpretedFields(p *Prog, f *ssa.Function, pkgPath string, isInterp func(string) bool) map[*types.Var]token.Pos {
	out := map[*types.Var]token.Pos{}
	seen := map[*ssa.Function]bool{}
	fieldOf := func(v ssa.Value) *types.Var {
		for d := 0; d < 12 && v != nil; d++ {
			switch x := v.(type) {
			case *ssa.UnOp:
				v = x.X
			case *ssa.IndexAddr:
				v = x.X
			case *ssa.Index:
				v = x.X
			case *ssa.Slice:
				v = x.X
			case *ssa.Extract:
				v = x.Tuple
			case *ssa.Next:
				v = x.Iter
			case *ssa.Range:
				v = x.X
			case *ssa.Phi:
				if len(x.Edges) == 0 {
					return nil
				}
				v = x.Edges[0]
			case *ssa.FieldAddr:
				return x.X.Type().Underlying().(*types.Pointer).Elem().Underlying().(*types.Struct).Field(x.Field)
			case *ssa.Field:
				return x.X.Type().Underlying().(*types.Struct).Field(x.Field)
			default:
				return nil
			}
		}
		return nil
	}
	var walk func(g *ssa.Function)
	walk = func(g *ssa.Function) {
		if g == nil || seen[g] || g.Blocks == nil {
			return
		}
		seen[g] = true
		for _, b := range g.Blocks {
			for _, in := range b.Instrs {
				c, ok := in.(ssa.CallInstruction)
				if !ok {
					continue
				}
				sc := c.Common().StaticCallee()
				if sc == nil {
					continue
				}
				if sc.Pkg != nil && sc.Pkg.Pkg.Path() == pkgPath {
					walk(sc)
					continue
				}
				name := fullName(sc)
				if isInterp(name) {
					for _, a := range c.Common().Args {
						if fv := fieldOf(a); fv != nil && fv.Pkg() != nil && fv.Pkg().Path() == pkgPath {
							if _, ok := out[fv]; !ok {
								out[fv] = c.Pos()
							}
						}
					}
				}
			}
		}
		for _, an := range g.AnonFuncs {
			walk(an)
		}
	}
	walk(f)
	return out
}

func checkC10(r *Report) {
	p := loadResolve("", true)
	e := runEffect(p)
	effectTrusted(r)
	const pkg = modPrefix + "semver"
	r.Explain = "Only structural necessary conditions of 'the canonical string denotes the same version' are decided; equality of Parse(Canon(v)) and v over all strings is not. C10.a CANON-COVER: for the generic version and for each extension (Maven, PEP 440, RubyGems) every field the comparator reads is read by the canonical printer, except fields re-checked as derived from a printed field; otherwise two versions that compare unequal share a canonical string. C10.b FOLD-AGREE: a field the printer case-folds is also case-folded by the comparator (or by a named hand-written folding comparator), and the printer does not re-read a compared field as a number with strconv unless the comparator does the same (both are to use the package's own classifier); otherwise versions that differ in case share a canonical string but compare unequal. C10.d PARSED-NUMBER-FITS: a number the version parsers read with strconv.ParseUint/ParseInt at bit size B is converted only to integer types that hold every value of that size (otherwise a component near the top of the range wraps, is printed wrapped, and the canonical string denotes another version). C10.c CANON-PURE: Canon, the extensions' canon methods and pypi.CanonVersion write nothing reachable from their operands, so canonicalising twice gives the same string and does not disturb later comparisons."
	r.Assume = []string{"a field counts as read by a function if the function or a same-package function it calls statically loads it on some path; path conditions are not compared"}
	own := fieldOwnerIndex(p.Pkgs[pkg].Types)
	pairs := []struct{ cmp, canon string }{
		{"semver.compare", "(*semver.Version).Canon"},
		{"(*semver.mavenExtension).compare", "(*semver.mavenExtension).canon"},
		{"(*semver.pep440Extension).compare", "(*semver.pep440Extension).canon"},
		{"(*semver.gemExtension).compare", "(*semver.gemExtension).canon"},
	}
	// every implementation of the extension interface has a pair
	nExt := 0
	for _, f := range p.Funcs {
		if f.Pkg != nil && f.Pkg.Pkg.Path() == pkg && f.Signature.Recv() != nil && f.Name() == "canon" && f.Synthetic == "" {
			nExt++
			found := false
			for _, pr := range pairs {
				if pr.canon == fnKey(f) {
					found = true
				}
			}
			if !found {
				r.bad("C10.a/CANON-COVER", fnKey(f), p.pos(f.Pos()), "a canon method that is not in the checker's table of (comparator, printer) pairs: add it")
			}
		}
	}
	r.floor("C10.a/CANON-COVER", "extension canon methods", nExt, 3)
	for _, pr := range pairs {
		cf, pf := p.lookupFn(pr.cmp), p.lookupFn(pr.canon)
		if cf == nil || pf == nil {
			r.bad("C10.a/CANON-COVER", pr.cmp+" / "+pr.canon, "", "comparator or printer not found: anchor lost")
			continue
		}
		cr, prd := fieldReads(p, cf, pkg, false, nil), fieldReads(p, pf, pkg, false, nil)
		var names []string
		for fv := range cr {
			names = append(names, own(fv)+"."+fv.Name())
		}
		sort.Strings(names)
		byName := map[string]*types.Var{}
		for fv := range cr {
			byName[own(fv)+"."+fv.Name()] = fv
		}
		for _, nm := range names {
			fv := byName[nm]
			key := pr.cmp + " / " + pr.canon + ": " + nm
			if _, ok := prd[fv]; ok {
				r.ok("C10.a/CANON-COVER", key, p.pos(prd[fv]), "read by the comparator and by the printer")
				continue
			}
			if d, ok := derivedFields[nm]; ok {
				if why := derivedOK(p, pkg, own, nm, d.from); why == "" {
					r.ok("C10.a/CANON-COVER", key, p.pos(cr[fv]), "not printed, but derived: "+d.why+" (every store to it is in a function that stores "+d.from+")")
				} else {
					r.bad("C10.a/CANON-COVER", key, p.pos(cr[fv]), "listed as derived from "+d.from+" but "+why)
				}
				continue
			}
			r.bad("C10.a/CANON-COVER", key, p.pos(cr[fv]), "the comparator reads this field but the canonical printer never does: versions that differ only there compare unequal and share a canonical string")
		}
		// b. FOLD-AGREE
		pfold, cfold := foldedFields(p, pf, pkg), foldedFields(p, cf, pkg)
		for fv, pos := range pfold {
			nm := own(fv) + "." + fv.Name()
			key := pr.cmp + " / " + pr.canon + ": case of " + nm
			if _, ok := cfold[fv]; ok {
				r.ok("C10.b/FOLD-AGREE", key, p.pos(pos), "case-folded by the printer and by the comparator")
			} else if h, ok := foldByHand[nm]; ok && calls(p, cf, h.fn, pkg) {
				r.ok("C10.b/FOLD-AGREE", key, p.pos(pos), "case-folded by the printer; "+h.why+" in "+h.fn+", which the comparator calls")
			} else {
				r.bad("C10.b/FOLD-AGREE", key, p.pos(pos), "the canonical printer case-folds this field but the comparator compares it as stored: two versions that differ only in letter case share a canonical string and compare unequal, and the canonical string does not compare equal to the original")
			}
		}
		pnum, cnum := numberedFields(p, pf, pkg), numberedFields(p, cf, pkg)
		for fv, pos := range pnum {
			nm := own(fv) + "." + fv.Name()
			key := pr.cmp + " / " + pr.canon + ": numeric reading of " + nm
			if _, ok := cnum[fv]; ok {
				r.ok("C10.b/FOLD-AGREE", key, p.pos(pos), "parsed as a number by the printer and by the comparator")
			} else {
				r.bad("C10.b/FOLD-AGREE", key, p.pos(pos), "the canonical printer parses this field as a number with strconv on its own, while the comparator decides what counts as numeric elsewhere (its own classifier): where the two disagree (leading zeros, per-system rules) the canonical string is a different version from the original")
			}
		}
		writeFreeRule(r, p, e, "C10.c/CANON-PURE", pf, "canonical printer", "canonicalising a version changes it, so a second Canon or a later comparison can give a different answer")
	}
	if f := p.lookupFn("pypi.CanonVersion"); f != nil {
		writeFreeRule(r, p, e, "C10.c/CANON-PURE", f, "canonical printer", "canonicalising changes shared state")
	} else {
		r.bad("C10.c/CANON-PURE", "pypi.CanonVersion", "", "function not found: anchor lost")
	}
	parsedNumberFitsRule(r, p, "C10.d/PARSED-NUMBER-FITS", "semver")
	firstSepRule(r, p, "C10.e/FIRST-ELEMENT-SEP")
	nPN := printNarrowRule(r, p, "C10.f/PRINT-NOT-NARROWED", "semver")
	r.floor("C10.f/PRINT-NOT-NARROWED", "integer conversions whose result is formatted, in package semver", nPN, 1)
	// positive control for FOLD-AGREE: the NuGet fold in Canon must be seen
	if f := p.lookupFn("(*semver.Version).Canon"); f != nil {
		r.floor("C10.b/FOLD-AGREE", "fields case-folded by (*Version).Canon", len(foldedFields(p, f, pkg)), 1)
	}
}

// calls: f reaches the named same-package function through static calls.
func calls(p *Prog, f *ssa.Function, name, pkgPath string) bool {
	seen := map[*ssa.Function]bool{}
	var walk func(g *ssa.Function) bool
	walk = func(g *ssa.Function) bool {
		if g == nil || seen[g] || g.Blocks == nil {
			return false
		}
		seen[g] = true
		if fnKey(g) == name {
			return true
		}
		for _, b := range g.Blocks {
			for _, in := range b.Instrs {
				if c, ok := in.(ssa.CallInstruction); ok {
					if sc := c.Common().StaticCallee(); sc != nil && sc.Pkg != nil && sc.Pkg.Pkg.Path() == pkgPath && walk(sc) {
						return true
					}
				}
			}
		}
		return false
	}
	return walk(f)
}

// derivedOK re-checks an entry of derivedFields.
func derivedOK(p *Prog, pkgPath string, own func(*types.Var) string, field, from string) string {
	nStores := 0
	for _, f := range p.Funcs {
		if f.Pkg == nil || f.Pkg.Pkg.Path() != pkgPath {
			continue
		}
		storesField, storesFrom := false, false
		for _, b := range f.Blocks {
			for _, in := range b.Instrs {
				st, ok := in.(*ssa.Store)
				if !ok {
					continue
				}
				fa, ok := st.Addr.(*ssa.FieldAddr)
				if !ok {
					continue
				}
				fv := fa.X.Type().Underlying().(*types.Pointer).Elem().Underlying().(*types.Struct).Field(fa.Field)
				switch own(fv) + "." + fv.Name() {
				case field:
					storesField = true
					nStores++
				case from:
					storesFrom = true
				}
			}
		}
		if storesField && !storesFrom {
			return fnKey(f) + " stores it without storing " + from
		}
	}
	if nStores == 0 {
		return "no store to it was found"
	}
	return ""
}

// ---- C11 -------------------------------------------------------------------

// rankRegions splits a method of span by the tests of its rank field: for each
// rank constant K, the blocks that run only when rank == K. It is a forward
// dataflow over the set of rank values still possible (all three at entry;
// narrowed on the two edges of every `rank == K` / `rank != K` test; union at
// joins).
func rankRegions(f *ssa.Function, ranks []int64) map[int64]map[*ssa.BasicBlock]bool {
	isRank := func(v ssa.Value) bool {
		switch x := v.(type) {
		case *ssa.Field:
			return x.X.Type().Underlying().(*types.Struct).Field(x.Field).Name() == "rank"
		case *ssa.UnOp:
			if fa, ok := x.X.(*ssa.FieldAddr); ok && x.Op == token.MUL {
				return fa.X.Type().Underlying().(*types.Pointer).Elem().Underlying().(*types.Struct).Field(fa.Field).Name() == "rank"
			}
		}
		return false
	}
	bit := map[int64]uint{}
	var all uint
	for i, k := range ranks {
		bit[k] = 1 << uint(i)
		all |= 1 << uint(i)
	}
	poss := map[*ssa.BasicBlock]uint{}
	if len(f.Blocks) == 0 {
		return nil
	}
	poss[f.Blocks[0]] = all
	for changed := true; changed; {
		changed = false
		for _, b := range f.Blocks {
			in, ok := poss[b]
			if !ok {
				continue
			}
			outs := make([]uint, len(b.Succs))
			for i := range outs {
				outs[i] = in
			}
			if ifi, ok := b.Instrs[len(b.Instrs)-1].(*ssa.If); ok {
				if bo, ok := ifi.Cond.(*ssa.BinOp); ok && (bo.Op == token.EQL || bo.Op == token.NEQ) && isRank(bo.X) {
					if k, ok := bo.Y.(*ssa.Const); ok && k.Value != nil {
						kv, _ := constant.Int64Val(constant.ToInt(k.Value))
						eq, ne := in&bit[kv], in&^bit[kv]
						if bo.Op == token.EQL {
							outs[0], outs[1] = eq, ne
						} else {
							outs[0], outs[1] = ne, eq
						}
					}
				}
			}
			for i, s := range b.Succs {
				if old, ok := poss[s]; !ok || old|outs[i] != old {
					poss[s] = old | outs[i]
					changed = true
				}
			}
		}
	}
	regions := map[int64]map[*ssa.BasicBlock]bool{}
	for _, k := range ranks {
		for b, m := range poss {
			if m == bit[k] {
				if regions[k] == nil {
					regions[k] = map[*ssa.BasicBlock]bool{}
				}
				regions[k][b] = true
			}
		}
	}
	return regions
}

// spanReadsIn: fields of span read in the given blocks of f.
func spanReadsIn(f *ssa.Function, blocks map[*ssa.BasicBlock]bool) map[string]bool {
	out := map[string]bool{}
	for b := range blocks {
		for _, in := range b.Instrs {
			switch x := in.(type) {
			case *ssa.Field:
				st := x.X.Type().Underlying().(*types.Struct)
				if strings.HasSuffix(x.X.Type().String(), "semver.span") {
					out[st.Field(x.Field).Name()] = true
				}
			case *ssa.FieldAddr:
				pt := x.X.Type().Underlying().(*types.Pointer).Elem()
				if strings.HasSuffix(pt.String(), "semver.span") {
					read := false
					if x.Referrers() != nil {
						for _, rf := range *x.Referrers() {
							if s, ok := rf.(*ssa.Store); ok && s.Addr == x {
								continue
							}
							read = true
						}
					}
					if read {
						out[pt.Underlying().(*types.Struct).Field(x.Field).Name()] = true
					}
				}
			}
		}
	}
	return out
}

func setNames(m map[string]bool) []string {
	var s []string
	for k := range m {
		s = append(s, k)
	}
	sort.Strings(s)
	return s
}

func checkC11(r *Report) {
	p := loadResolve("", true)
	e := runEffect(p)
	effectTrusted(r)
	r.Explain = "Only structural necessary conditions of 'the text of a set parses back to the same set' are decided; equality of matching over all constraints and versions is not. C11.a RANK-COVER: for each rank of a span, the fields span.contains consults when the span has that rank are fields span.String prints for that rank (a unit prints only its version, so matching a unit may depend only on that version; a vector prints both bounds and both open flags); otherwise two spans with the same text match differently and the re-parsed set cannot match like the original. C11.b PARSE-COVER: each span parseSpan builds for a rank sets every field String prints for that rank from the text. C11.c PRINT-PURE: Set.String and span.String write nothing reachable from their operands. C11.d NUGET-FOURTH-ZERO: a function that fills the tail of a version with zeros (the lower bound of 1.2.3.*) re-applies the NuGet parser's normal form (a fourth number of 0 is dropped), because the printed text is read by that parser. C11.e INFINITY-READABLE: parseSpan parses both bounds of a vector with the same allowInfinity argument (the printer prints ∞ in either), and newSpan looks for ∞ in the point before it builds a unit span, since the text of a unit is read by Parse, which refuses ∞."
	r.Assume = []string{"fields consulted by Set.matchVersion outside span.contains (ecosystem-specific prerelease rules read min/max of any rank) are not part of C11.a; a unit span has max == min by construction (newSpan, parseSpan)"}
	str, con, ps := p.lookupFn("(semver.span).String"), p.lookupFn("(semver.span).contains"), p.lookupFn("(semver.System).parseSpan")
	if str == nil || con == nil || ps == nil {
		r.bad("C11.a/RANK-COVER", "span.String / span.contains / System.parseSpan", "", "function not found: anchor lost")
		return
	}
	// rank constants
	sp := p.Pkgs[modPrefix+"semver"].Types
	rankVal := map[string]int64{}
	for _, n := range []string{"empty", "unit", "vector"} {
		c, ok := sp.Scope().Lookup(n).(*types.Const)
		if !ok {
			r.bad("C11.a/RANK-COVER", "rank constant "+n, "", "constant not found: anchor lost")
			return
		}
		rankVal[n], _ = constant.Int64Val(constant.ToInt(c.Val()))
	}
	ranks := []int64{rankVal["empty"], rankVal["unit"], rankVal["vector"]}
	sReg := rankRegions(str, ranks)
	cReg := rankRegions(con, ranks)
	printed := map[string]map[string]bool{}
	for _, n := range []string{"empty", "unit", "vector"} {
		if sReg[rankVal[n]] == nil {
			r.bad("C11.a/RANK-COVER", "span.String: case "+n, p.pos(str.Pos()), "span.String has no branch for this rank: anchor lost")
			return
		}
		printed[n] = spanReadsIn(str, sReg[rankVal[n]])
	}
	nCases := 0
	for _, n := range []string{"empty", "unit", "vector"} {
		reg := cReg[rankVal[n]]
		how := "where the rank can only be " + n + " it"
		if reg == nil {
			continue
		}
		nCases++
		used := spanReadsIn(con, reg)
		delete(used, "rank")
		var missing []string
		for fld := range used {
			if !printed[n][fld] {
				missing = append(missing, fld)
			}
		}
		sort.Strings(missing)
		key := "(semver.span).contains / (semver.span).String: rank " + n
		if len(missing) > 0 {
			r.bad("C11.a/RANK-COVER", key, p.pos(con.Pos()), fmt.Sprintf("for a span of rank %s matching consults %v, which the text of such a span does not show (it prints %v): two spans with the same text match differently, so the parsed-back set cannot match like the original", n, missing, setNames(printed[n])))
		} else {
			r.ok("C11.a/RANK-COVER", key, p.pos(con.Pos()), fmt.Sprintf("%s consults %v; the text shows %v", how, setNames(used), setNames(printed[n])))
		}
	}
	r.floor("C11.a/RANK-COVER", "rank cases of span.contains", nCases, 3)
	// b. PARSE-COVER: span literals built by parseSpan
	nLit := 0
	for _, b := range ps.Blocks {
		for _, in := range b.Instrs {
			al, ok := in.(*ssa.Alloc)
			if !ok || !strings.HasSuffix(al.Type().String(), "semver.span") || al.Referrers() == nil {
				continue
			}
			stored := map[string]bool{}
			rk := int64(-1)
			for _, rf := range *al.Referrers() {
				fa, ok := rf.(*ssa.FieldAddr)
				if !ok || fa.Referrers() == nil {
					continue
				}
				name := al.Type().Underlying().(*types.Pointer).Elem().Underlying().(*types.Struct).Field(fa.Field).Name()
				for _, u := range *fa.Referrers() {
					if st, ok := u.(*ssa.Store); ok && st.Addr == fa {
						stored[name] = true
						if name == "rank" {
							if k, ok := st.Val.(*ssa.Const); ok && k.Value != nil {
								rk, _ = constant.Int64Val(constant.ToInt(k.Value))
							}
						}
					}
				}
			}
			if len(stored) == 0 {
				continue // the zero span of an error return
			}
			nLit++
			rname := ""
			for n, v := range rankVal {
				if v == rk {
					rname = n
				}
			}
			key := fmt.Sprintf("(semver.System).parseSpan: span literal of rank %s", rname)
			if rname == "" {
				r.bad("C11.b/PARSE-COVER", fmt.Sprintf("(semver.System).parseSpan: span literal #%d", nLit), p.pos(al.Pos()), "a span is built without a constant rank")
				continue
			}
			var missing []string
			for fld := range printed[rname] {
				if !stored[fld] {
					missing = append(missing, fld)
				}
			}
			sort.Strings(missing)
			if len(missing) > 0 {
				r.bad("C11.b/PARSE-COVER", key, p.pos(al.Pos()), fmt.Sprintf("the parser builds a %s span without setting %v, which span.String prints for that rank: the text read is not the text written", rname, missing))
			} else {
				r.ok("C11.b/PARSE-COVER", key, p.pos(al.Pos()), fmt.Sprintf("sets %v; the printer shows %v", setNames(stored), setNames(printed[rname])))
			}
		}
	}
	r.floor("C11.b/PARSE-COVER", "span literals built by parseSpan", nLit, 3)
	for _, n := range []string{"(semver.span).String", "(semver.Set).String"} {
		if f := p.lookupFn(n); f != nil {
			writeFreeRule(r, p, e, "C11.c/PRINT-PURE", f, "set printer", "printing a set changes it")
		} else {
			r.bad("C11.c/PRINT-PURE", n, "", "function not found: anchor lost")
		}
	}
	nFZ := fourthZeroRule(r, p, "C11.d/NUGET-FOURTH-ZERO")
	r.floor("C11.d/NUGET-FOURTH-ZERO", "tails of versions filled with zeros", nFZ, 1)
	nLR := letterRangeRule(r, p, "C11.f/LETTER-RANGE")
	r.floor("C11.f/LETTER-RANGE", "comparisons of a byte with an end of A-Z, a-z or 0-9 in package semver", nLR, 10)
	nIR := infinityReadableRule(r, p, "C11.e/INFINITY-READABLE")
	r.floor("C11.e/INFINITY-READABLE", "bound parses in parseSpan and unit spans built by newSpan", nIR, 3)
}

// constReturns: the integer constants a three-way comparator returns directly.
func constReturns(f *ssa.Function) map[int64]token.Pos {
	out := map[int64]token.Pos{}
	var fromVal func(v ssa.Value, pos token.Pos, d int)
	fromVal = func(v ssa.Value, pos token.Pos, d int) {
		if d > 4 {
			return
		}
		switch x := v.(type) {
		case *ssa.Const:
			if x.Value != nil && x.Value.Kind() == constant.Int {
				if n, ok := constant.Int64Val(x.Value); ok {
					if _, seen := out[n]; !seen {
						out[n] = pos
					}
				}
			}
		case *ssa.Phi:
			for _, e := range x.Edges {
				fromVal(e, pos, d+1)
			}
		}
	}
	for _, b := range f.Blocks {
		if ret, ok := b.Instrs[len(b.Instrs)-1].(*ssa.Return); ok && len(ret.Results) == 1 {
			fromVal(ret.Results[0], ret.Pos(), 0)
		}
	}
	return out
}

func debugSign(p *Prog) {
	for _, f := range p.Funcs {
		if !p.inScope(f) || f.Blocks == nil || f.Signature.Results().Len() != 1 {
			continue
		}
		if b, ok := f.Signature.Results().At(0).Type().Underlying().(*types.Basic); !ok || b.Kind() != types.Int {
			continue
		}
		n := strings.ToLower(f.Name())
		if !strings.Contains(n, "compare") && !strings.Contains(n, "cmp") && !strings.HasPrefix(n, "sgn") {
			continue
		}
		cr := constReturns(f)
		var ks []int64
		for k := range cr {
			ks = append(ks, k)
		}
		sort.Slice(ks, func(i, j int) bool { return ks[i] < ks[j] })
		asym := ""
		for _, k := range ks {
			if _, ok := cr[-k]; !ok {
				asym = " ASYM"
			}
		}
		fmt.Println(fnKey(f), ks, asym)
	}
}

// oneSidedHelpers: three-way helpers that are one-sided by design.
var oneSidedHelpers = map[string]string{
	"semver.mavenUnknownQualifierCompare": "orders an unknown qualifier a against b; the caller (mavenExtension.compare) handles the mirrored case by calling it with the operands swapped and negating",
}

// signSymmetryRule: a three-way comparator whose non-constant results are all
// results of other comparators (no arithmetic, no negation) returns +k as a
// constant exactly if it returns -k as a constant: the delegates are mirrored
// by swapping the operands, so a constant outcome that has no mirrored
// constant makes cmp(a,b) > 0 without cmp(b,a) < 0 (the one-sided comparison
// of a forgotten "other operand is shorter/absent" case).
func signSymmetryRule(r *Report, p *Prog, rule string, fns []*ssa.Function) int {
	n := 0
	for _, f := range fns {
		if f == nil || f.Blocks == nil || f.Signature.Results().Len() != 1 {
			continue
		}
		if b, ok := f.Signature.Results().At(0).Type().Underlying().(*types.Basic); !ok || b.Kind() != types.Int {
			continue
		}
		n++
		key := fnKey(f) + ": constant outcomes are mirrored"
		cr := constReturns(f)
		// classify the non-constant results
		arithmetic := false
		var cls func(v ssa.Value, d int)
		cls = func(v ssa.Value, d int) {
			if d > 4 {
				return
			}
			switch x := v.(type) {
			case *ssa.Const, *ssa.Call, *ssa.Extract:
			case *ssa.Phi:
				for _, e := range x.Edges {
					cls(e, d+1)
				}
			default:
				arithmetic = true // negation, conversion of a bool, subtraction, ...
			}
		}
		for _, b := range f.Blocks {
			if ret, ok := b.Instrs[len(b.Instrs)-1].(*ssa.Return); ok && len(ret.Results) == 1 {
				cls(ret.Results[0], 0)
			}
		}
		var missing []int64
		for k := range cr {
			if _, ok := cr[-k]; !ok {
				missing = append(missing, k)
			}
		}
		sort.Slice(missing, func(i, j int) bool { return missing[i] < missing[j] })
		switch {
		case len(missing) == 0:
			r.ok(rule, key, p.pos(f.Pos()), fmt.Sprintf("constant results %v are mirrored", sortedInts(cr)))
		case arithmetic:
			r.ok(rule, key, p.pos(f.Pos()), "some results are computed (negation/arithmetic), so mirroring need not show in the constants: not judged")
		case oneSidedHelpers[fnKey(f)] != "":
			r.ok(rule, key, p.pos(f.Pos()), "one-sided by design: "+oneSidedHelpers[fnKey(f)])
		default:
			r.bad(rule, key, p.pos(cr[missing[0]]), fmt.Sprintf("the comparator returns the constant %d but never %d, and its other results are those of delegated comparisons: for the operands swapped there is no path that yields the opposite sign, so it is not antisymmetric (a case such as 'the other operand is shorter' is handled on one side only)", missing[0], -missing[0]))
		}
	}
	return n
}

func sortedInts(m map[int64]token.Pos) []int64 {
	var ks []int64
	for k := range m {
		ks = append(ks, k)
	}
	sort.Slice(ks, func(i, j int) bool { return ks[i] < ks[j] })
	return ks
}

// threeWayFns: in-scope functions returning int whose name marks them as comparators, in the given packages.
func threeWayFns(p *Prog, pkgs ...string) []*ssa.Function {
	var out []*ssa.Function
	for _, f := range p.Funcs {
		if !p.inScope(f) || f.Blocks == nil || f.Synthetic != "" || f.Pkg == nil {
			continue
		}
		okPkg := false
		for _, pk := range pkgs {
			if f.Pkg.Pkg.Path() == modPrefix+pk {
				okPkg = true
			}
		}
		n := strings.ToLower(f.Name())
		if okPkg && (strings.Contains(n, "compare") || strings.Contains(n, "cmp") || strings.HasPrefix(n, "sgn")) {
			out = append(out, f)
		}
	}
	sort.Slice(out, func(i, j int) bool { return fnKey(out[i]) < fnKey(out[j]) })
	return out
}

// mapOrderRule: a three-way comparator (and what it calls in its own package)
// does not iterate over a map: Go randomises map iteration, so a sign decided
// inside such a loop differs from call to call.
func mapOrderRule(r *Report, p *Prog, rule string, fns []*ssa.Function) int {
	n := 0
	for _, f := range fns {
		if f == nil || f.Blocks == nil {
			continue
		}
		n++
		seen := map[*ssa.Function]bool{}
		var bad []string
		var walk func(g *ssa.Function, d int)
		walk = func(g *ssa.Function, d int) {
			if g == nil || seen[g] || g.Blocks == nil || d > 4 {
				return
			}
			seen[g] = true
			for _, b := range g.Blocks {
				for _, in := range b.Instrs {
					switch x := in.(type) {
					case *ssa.Range:
						if _, ok := x.X.Type().Underlying().(*types.Map); ok {
							bad = append(bad, p.pos(x.Pos())+" in "+fnKey(g))
						}
					case ssa.CallInstruction:
						if sc := x.Common().StaticCallee(); sc != nil && sc.Pkg == f.Pkg && sc.Signature.Results().Len() == 1 {
							if bt, ok := sc.Signature.Results().At(0).Type().Underlying().(*types.Basic); ok && bt.Kind() == types.Int {
								walk(sc, d+1)
							}
						}
					}
				}
			}
		}
		walk(f, 0)
		key := fnKey(f) + ": no map iteration"
		if len(bad) > 0 {
			sort.Strings(bad)
			r.bad(rule, key, strings.SplitN(bad[0], " ", 2)[0], "a three-way comparator iterates over a map ("+strings.Join(bad, "; ")+"): the first differing entry it meets, and with it the sign it returns, depends on Go's randomised iteration order, so the order is not deterministic, antisymmetric or transitive")
		} else {
			r.ok(rule, key, p.pos(f.Pos()), "no range over a map in the comparator or the same-package three-way functions it calls")
		}
	}
	return n
}

func debugMapRange(p *Prog) {
	var roots []*ssa.Function
	for _, n := range []string{"(*resolve/npm.resolver).Resolve", "(*resolve/maven.resolver).Resolve", "(*resolve/pypi.resolver).Resolve"} {
		if f := p.lookupFn(n); f != nil {
			roots = append(roots, f)
		}
	}
	reach := p.reachableFrom(roots)
	var fs []*ssa.Function
	for f := range reach {
		fs = append(fs, f)
	}
	sort.Slice(fs, func(i, j int) bool { return fnKey(fs[i]) < fnKey(fs[j]) })
	for _, f := range fs {
		for _, b := range f.Blocks {
			for _, in := range b.Instrs {
				if rg, ok := in.(*ssa.Range); ok {
					if _, ok := rg.X.Type().Underlying().(*types.Map); ok {
						fmt.Printf("%s\t%s\t%s\n", p.pos(rg.Pos()), fnKey(f), short(rg.X.Type().String()))
					}
				}
			}
		}
	}
}

func debugSub(p *Prog) {
	for _, f := range p.Funcs {
		if !p.inScope(f) || f.Blocks == nil || f.Pkg == nil || !strings.HasSuffix(f.Pkg.Pkg.Path(), "semver") {
			continue
		}
		for _, b := range f.Blocks {
			for _, in := range b.Instrs {
				if bo, ok := in.(*ssa.BinOp); ok && bo.Op == token.SUB {
					fmt.Printf("%s\t%s\t%s - %s\t%s\n", p.pos(bo.Pos()), fnKey(f), bo.X, bo.Y, bo.Type())
				}
			}
		}
	}
}

// noWideSubtractRule: a three-way comparator or sign helper does not take the
// sign of a difference of two wide integers: a - b wraps around when the
// operands are more than half the range apart, and the sign of the wrapped
// value orders them the wrong way (antisymmetry and transitivity fail for
// those pairs only). Differences of values widened from 8/16-bit types cannot
// wrap and are accepted.
func noWideSubtractRule(r *Report, p *Prog, rule string, fns []*ssa.Function) int {
	narrow := func(v ssa.Value) bool {
		if c, ok := v.(*ssa.Convert); ok {
			if b, ok := c.X.Type().Underlying().(*types.Basic); ok {
				switch b.Kind() {
				case types.Uint8, types.Int8, types.Uint16, types.Int16, types.Bool:
					return true
				}
			}
		}
		if c, ok := v.(*ssa.Const); ok && c.Value != nil {
			return true // a constant offset (i - 1) is index arithmetic, not an operand difference
		}
		return false
	}
	n := 0
	for _, f := range fns {
		if f == nil || f.Blocks == nil {
			continue
		}
		n++
		key := fnKey(f) + ": no sign of a wide difference"
		bad := ""
		for _, b := range f.Blocks {
			for _, in := range b.Instrs {
				bo, ok := in.(*ssa.BinOp)
				if !ok || bo.Op != token.SUB {
					continue
				}
				bt, ok := bo.Type().Underlying().(*types.Basic)
				if !ok || bt.Info()&types.IsInteger == 0 {
					continue
				}
				if narrow(bo.X) || narrow(bo.Y) {
					continue
				}
				if bad == "" {
					bad = p.pos(bo.Pos())
				}
			}
		}
		if bad != "" {
			r.bad(rule, key, bad, "the comparator subtracts two wide integers: the difference wraps around when they are more than half the range apart, so the sign it yields orders such a pair the wrong way (and differently in the two directions); compare with < and > instead")
		} else {
			r.ok(rule, key, p.pos(f.Pos()), "no subtraction of wide integer operands (differences of widened bytes cannot wrap)")
		}
	}
	return n
}

func debugNarrow(p *Prog) {
	sz := func(b *types.Basic) (int, bool) {
		switch b.Kind() {
		case types.Int8:
			return 8, true
		case types.Uint8:
			return 8, false
		case types.Int16:
			return 16, true
		case types.Uint16:
			return 16, false
		case types.Int32:
			return 32, true
		case types.Uint32:
			return 32, false
		case types.Int64, types.Int:
			return 64, true
		case types.Uint64, types.Uint, types.Uintptr:
			return 64, false
		}
		return 0, false
	}
	for _, f := range p.Funcs {
		if !p.inScope(f) || f.Blocks == nil {
			continue
		}
		for _, b := range f.Blocks {
			for _, in := range b.Instrs {
				c, ok := in.(*ssa.Convert)
				if !ok {
					continue
				}
				sb, ok1 := c.X.Type().Underlying().(*types.Basic)
				db, ok2 := c.Type().Underlying().(*types.Basic)
				if !ok1 || !ok2 {
					continue
				}
				ss, ssig := sz(sb)
				ds, dsig := sz(db)
				if ss == 0 || ds == 0 {
					continue
				}
				if _, isConst := c.X.(*ssa.Const); isConst {
					continue
				}
				lossy := ds < ss || (ds == ss && ssig != dsig) || (ds > ss && ssig && !dsig)
				if lossy {
					fmt.Printf("%s\t%s\t%s <- %s (%s)\n", p.pos(c.Pos()), fnKey(f), c.Type(), c.X.Type(), c.X)
				}
			}
		}
	}
}

// parsedNumberFitsRule (C10.d): a number the version parsers read with
// strconv.ParseUint/ParseInt at bit size B is only converted to integer types
// that can hold every value of that size. Otherwise a numeric component near
// the top of the range wraps (typically to a negative number), the canonical
// printer prints the wrapped value, and the canonical string is a different
// version from the one that was parsed.
func parsedNumberFitsRule(r *Report, p *Prog, rule string, pkgs ...string) {
	sizes := types.SizesFor("gc", "amd64")
	if archOverride != "" {
		if s := types.SizesFor("gc", archOverride); s != nil {
			sizes = s
		}
	}
	intBits := int(sizes.Sizeof(types.Typ[types.Int])) * 8
	n := 0
	for _, f := range p.Funcs {
		if f.Pkg == nil || f.Blocks == nil {
			continue
		}
		in := false
		for _, pk := range pkgs {
			if f.Pkg.Pkg.Path() == modPrefix+pk {
				in = true
			}
		}
		if !in {
			continue
		}
		perFn := 0
		for _, b := range f.Blocks {
			for _, ins := range b.Instrs {
				call, ok := ins.(*ssa.Call)
				if !ok {
					continue
				}
				name := staticCalleeName(call)
				if name != "strconv.ParseUint" && name != "strconv.ParseInt" {
					continue
				}
				n++
				perFn++
				key := fmt.Sprintf("%s: %s #%d", fnKey(f), name, perFn)
				bc, ok := call.Call.Args[2].(*ssa.Const)
				if !ok || bc.Value == nil {
					r.bad(rule, key, p.pos(call.Pos()), "the bit size is not a constant: cannot decide which values the result can take")
					continue
				}
				bits := int(bc.Int64())
				if bits == 0 {
					bits = intBits
				}
				var bad []string
				if refs := call.Referrers(); refs != nil {
					for _, rf := range *refs {
						ex, ok := rf.(*ssa.Extract)
						if !ok || ex.Index != 0 || ex.Referrers() == nil {
							continue
						}
						for _, u := range *ex.Referrers() {
							cv, ok := u.(*ssa.Convert)
							if !ok {
								continue
							}
							tb, ok := cv.Type().Underlying().(*types.Basic)
							if !ok || tb.Info()&types.IsInteger == 0 {
								continue
							}
							tbits := int(sizes.Sizeof(tb)) * 8
							signed := tb.Info()&types.IsUnsigned == 0
							fits := false
							if name == "strconv.ParseUint" {
								if signed {
									fits = tbits-1 >= bits
								} else {
									fits = tbits >= bits
								}
							} else {
								fits = signed && tbits >= bits
							}
							if !fits {
								bad = append(bad, fmt.Sprintf("%s at %s", cv.Type(), p.pos(cv.Pos())))
							}
						}
					}
				}
				if len(bad) > 0 {
					r.bad(rule, key, p.pos(call.Pos()), fmt.Sprintf("a number parsed at bit size %d is converted to %s, which cannot hold every value of that size: a component near the top of the range wraps (to a negative number), is printed wrapped by the canonical printer, and the canonical string then denotes another version (or none)", bits, strings.Join(bad, ", ")))
				} else {
					r.ok(rule, key, p.pos(call.Pos()), fmt.Sprintf("parsed at bit size %d; every integer type the result is converted to holds that range", bits))
				}
			}
		}
	}
	r.floor(rule, "strconv.ParseUint/ParseInt calls in the version parsers", n, 4)
}

// doubleStepSites finds nested loops in which the inner loop advances the
// outer loop's counter past the element it consumed and then breaks out, so
// that the outer post statement advances it once more and an element is never
// looked at: for i := ...; ...; i++ { ... for cond { use(x[i]); i++; if done { break } } }.
type countedLoop struct{ outer, bad token.Pos }

func doubleStepSites(p *Prog, pkgs ...string) []token.Pos {
	var out []token.Pos
	for _, l := range countedLoops(p, pkgs...) {
		if l.bad.IsValid() {
			out = append(out, l.bad)
		}
	}
	return out
}

// countedLoops lists the for statements of the packages whose post statement
// increments a variable, each with the position of an offending inner loop.
func countedLoops(p *Prog, pkgs ...string) []countedLoop {
	var out []countedLoop
	for _, rel := range pkgs {
		pk := p.pkg(rel)
		if pk == nil {
			continue
		}
		for _, f := range pk.Syntax {
			ast.Inspect(f, func(n ast.Node) bool {
				outer, ok := n.(*ast.ForStmt)
				if !ok || outer.Post == nil {
					return true
				}
				inc, ok := outer.Post.(*ast.IncDecStmt)
				if !ok || inc.Tok != token.INC {
					return true
				}
				id, ok := inc.X.(*ast.Ident)
				if !ok {
					return true
				}
				obj := pk.TypesInfo.Uses[id]
				if obj == nil {
					obj = pk.TypesInfo.Defs[id]
				}
				cl := countedLoop{outer: outer.Pos()}
				defer func() { out = append(out, cl) }()
				for _, st := range outer.Body.List {
					inner, ok := st.(*ast.ForStmt)
					if !ok || inner.Post != nil {
						continue
					}
					incAt := -1
					for k, s2 := range inner.Body.List {
						if is, ok := s2.(*ast.IncDecStmt); ok && is.Tok == token.INC {
							if x, ok := is.X.(*ast.Ident); ok && pk.TypesInfo.Uses[x] == obj {
								incAt = k
							}
						}
					}
					if incAt < 0 {
						continue
					}
					// a break of the inner loop after the increment
					hasBreak := false
					for _, s2 := range inner.Body.List[incAt+1:] {
						ast.Inspect(s2, func(m ast.Node) bool {
							switch x := m.(type) {
							case *ast.ForStmt, *ast.RangeStmt, *ast.SwitchStmt, *ast.TypeSwitchStmt, *ast.SelectStmt, *ast.FuncLit:
								return false
							case *ast.BranchStmt:
								if x.Tok == token.BREAK && x.Label == nil {
									hasBreak = true
								}
							}
							return true
						})
					}
					// compensated by a decrement after the inner loop?
					compensated := false
					after := false
					for _, s3 := range outer.Body.List {
						if s3 == st {
							after = true
							continue
						}
						if after {
							if is, ok := s3.(*ast.IncDecStmt); ok && is.Tok == token.DEC {
								if x, ok := is.X.(*ast.Ident); ok && pk.TypesInfo.Uses[x] == obj {
									compensated = true
								}
							}
						}
					}
					if hasBreak && !compensated {
						cl.bad = inner.Pos()
					}
				}
				return true
			})
		}
	}
	return out
}

// numberWidthRule: the converse of PARSED-NUMBER-FITS. A number parsed at a bit
// size smaller than what its destination holds makes the parser refuse values
// the field could carry: versions the ecosystem's tool accepts are rejected
// (PyPI epoch parsed at 8 bits into an int: "256!1.0" fails). Reviewed
// exceptions are listed with their reason.
var narrowParseReviewed = map[string]string{
	"semver.isNumeric: strconv.ParseInt #1": "NuGet holds prerelease numbers in an int32 (SemVer2 implementation of NuGet.Versioning); the narrower size reproduces its overflow-to-text behaviour",
}

func numberWidthRule(r *Report, p *Prog, rule string, pkgs ...string) int {
	sizes := types.SizesFor("gc", "amd64")
	if archOverride != "" {
		if s := types.SizesFor("gc", archOverride); s != nil {
			sizes = s
		}
	}
	intBits := int(sizes.Sizeof(types.Typ[types.Int])) * 8
	n := 0
	for _, f := range p.Funcs {
		if f.Pkg == nil || f.Blocks == nil {
			continue
		}
		in := false
		for _, pk := range pkgs {
			if f.Pkg.Pkg.Path() == modPrefix+pk {
				in = true
			}
		}
		if !in {
			continue
		}
		perFn := map[string]int{}
		for _, b := range f.Blocks {
			for _, ins := range b.Instrs {
				call, ok := ins.(*ssa.Call)
				if !ok {
					continue
				}
				name := staticCalleeName(call)
				if name != "strconv.ParseUint" && name != "strconv.ParseInt" {
					continue
				}
				perFn[name]++
				key := fmt.Sprintf("%s: %s #%d", fnKey(f), name, perFn[name])
				bc, ok := call.Call.Args[2].(*ssa.Const)
				if !ok || bc.Value == nil {
					continue // reported by PARSED-NUMBER-FITS
				}
				n++
				bits := int(bc.Int64())
				if bits == 0 {
					bits = intBits
				}
				// capacity of the narrowest destination
				capacity, dest := 64, "the 64-bit result"
				if refs := call.Referrers(); refs != nil {
					for _, rf := range *refs {
						ex, ok := rf.(*ssa.Extract)
						if !ok || ex.Index != 0 || ex.Referrers() == nil {
							continue
						}
						for _, u := range *ex.Referrers() {
							cv, ok := u.(*ssa.Convert)
							if !ok {
								continue
							}
							tb, ok := cv.Type().Underlying().(*types.Basic)
							if !ok || tb.Info()&types.IsInteger == 0 {
								continue
							}
							c := int(sizes.Sizeof(tb)) * 8
							if name == "strconv.ParseUint" && tb.Info()&types.IsUnsigned == 0 {
								c--
							}
							if c < capacity {
								capacity, dest = c, cv.Type().String()
							}
						}
					}
				}
				switch {
				case bits >= capacity:
					r.ok(rule, key, p.pos(call.Pos()), fmt.Sprintf("parsed at bit size %d, destination %s holds %d bits", bits, dest, capacity))
				case narrowParseReviewed[key] != "":
					r.ok(rule, key, p.pos(call.Pos()), fmt.Sprintf("parsed at bit size %d, narrower than %s (%d bits): reviewed: %s", bits, dest, capacity, narrowParseReviewed[key]))
				default:
					r.bad(rule, key, p.pos(call.Pos()), fmt.Sprintf("the number is parsed at bit size %d although its destination (%s) holds %d bits: values the field can carry, and the ecosystem's tool accepts, make the parser fail with a range error", bits, dest, capacity))
				}
			}
		}
	}
	return n
}

// signedParseRule: identifiers of a version are runs of digits; strconv.ParseInt
// and Atoi also accept a leading sign, so "-1" (a legal alphanumeric prerelease
// identifier, '-' being in the alphabet) is read as the number -1 and sorts as
// a number. Every sign-accepting parse in the package either has its result
// tested negative on the way to an error return, or is a reviewed exception.
var signedParseReviewed = map[string]string{
	"semver.isNumeric: strconv.ParseInt #1": "NuGet branch: NuGet.Versioning parses prerelease numbers with int.TryParse, which accepts a sign",
}

func signedParseRule(r *Report, p *Prog, rule string, pkgs ...string) int {
	n := 0
	for _, f := range p.Funcs {
		if f.Pkg == nil || f.Blocks == nil {
			continue
		}
		in := false
		for _, pk := range pkgs {
			if f.Pkg.Pkg.Path() == modPrefix+pk {
				in = true
			}
		}
		if !in {
			continue
		}
		perFn := map[string]int{}
		for _, b := range f.Blocks {
			for _, ins := range b.Instrs {
				call, ok := ins.(*ssa.Call)
				if !ok {
					continue
				}
				name := staticCalleeName(call)
				if name != "strconv.ParseInt" && name != "strconv.Atoi" {
					continue
				}
				n++
				perFn[name]++
				key := fmt.Sprintf("%s: %s #%d", fnKey(f), name, perFn[name])
				// is the result compared `< 0` somewhere in the function?
				negTested := false
				var visit func(v ssa.Value, d int)
				visit = func(v ssa.Value, d int) {
					if d > 4 || v.Referrers() == nil {
						return
					}
					for _, u := range *v.Referrers() {
						switch x := u.(type) {
						case *ssa.BinOp:
							if k, ok := x.Y.(*ssa.Const); ok && k.Value != nil && x.Op == token.LSS && k.Int64() == 0 {
								negTested = true
							}
						case *ssa.Extract:
							if x.Index == 0 {
								visit(x, d+1)
							}
						case *ssa.Convert:
							visit(x, d+1)
						case *ssa.ChangeType:
							visit(x, d+1)
						case *ssa.Phi:
							visit(x, d+1)
						}
					}
				}
				visit(call, 0)
				switch {
				case negTested:
					r.ok(rule, key, p.pos(call.Pos()), "the parsed number is tested `< 0`: a signed spelling is rejected")
				case signedParseReviewed[key] != "":
					r.ok(rule, key, p.pos(call.Pos()), "reviewed: "+signedParseReviewed[key])
				default:
					r.bad(rule, key, p.pos(call.Pos()), "a sign-accepting parser reads identifier text and nothing rejects a negative result: an identifier such as \"-1\" (alphanumeric by the grammar, since '-' is in the identifier alphabet) is taken for the number -1 and ordered as a number")
				}
			}
		}
	}
	return n
}

// textFoldedRule: PEP 440 compares and normalises letters case-insensitively
// (the normal form is lower case). The parser matches its keywords through a
// case-insensitive prefix test and stores the table's spelling; any other text
// it keeps from the input in the parsed extension must be lower-cased on the
// way, or two spellings of one version (1.0+ABC, 1.0+abc) compare unequal.
func textFoldedRule(r *Report, p *Prog, rule, structName string) int {
	pk := p.pkg("semver")
	if pk == nil {
		r.bad(rule, "semver", "", "package not loaded")
		return 0
	}
	obj := pk.Types.Scope().Lookup(structName)
	if obj == nil {
		r.bad(rule, "semver."+structName, "", "type not found: anchor lost")
		return 0
	}
	st, ok := obj.Type().Underlying().(*types.Struct)
	if !ok {
		r.bad(rule, "semver."+structName, p.pos(obj.Pos()), "not a struct: anchor lost")
		return 0
	}
	n := 0
	for _, f := range p.Funcs {
		if f.Pkg == nil || f.Blocks == nil || f.Pkg.Pkg.Path() != modPrefix+"semver" || f.Synthetic != "" {
			continue
		}
		per := map[string]int{}
		for _, b := range f.Blocks {
			for _, in := range b.Instrs {
				s, ok := in.(*ssa.Store)
				if !ok {
					continue
				}
				fa, ok := s.Addr.(*ssa.FieldAddr)
				if !ok {
					continue
				}
				pt, ok := fa.X.Type().Underlying().(*types.Pointer)
				if !ok || !types.Identical(pt.Elem().Underlying(), st) || !types.Identical(pt.Elem(), obj.Type()) {
					continue
				}
				fld := st.Field(fa.Field)
				if bt, ok := fld.Type().Underlying().(*types.Basic); !ok || bt.Kind() != types.String {
					continue
				}
				n++
				per[fld.Name()]++
				key := fmt.Sprintf("%s: %s.%s store #%d", fnKey(f), structName, fld.Name(), per[fld.Name()])
				seen := map[ssa.Value]bool{}
				var raw ssa.Value
				var folded func(v ssa.Value, d int) bool
				folded = func(v ssa.Value, d int) bool {
					if seen[v] || d > 12 {
						return true
					}
					seen[v] = true
					switch x := v.(type) {
					case *ssa.Const:
						return true
					case *ssa.Phi:
						for _, e := range x.Edges {
							if !folded(e, d+1) {
								return false
							}
						}
						return true
					case *ssa.Slice:
						return folded(x.X, d+1)
					case *ssa.Call:
						if sc := x.Common().StaticCallee(); sc != nil && sc.Pkg != nil && sc.Pkg.Pkg.Path() == "strings" {
							switch sc.Name() {
							case "ToLower":
								return true
							case "ReplaceAll", "Replace", "TrimSpace", "TrimPrefix", "TrimSuffix", "Trim", "TrimLeft", "TrimRight":
								return folded(x.Common().Args[0], d+1)
							}
						}
					case *ssa.UnOp:
						// a load from a package-level table (or a field of one of its elements)
						var root ssa.Value = x.X
						for {
							switch y := root.(type) {
							case *ssa.FieldAddr:
								root = y.X
								continue
							case *ssa.IndexAddr:
								root = y.X
								continue
							case *ssa.UnOp:
								root = y.X
								continue
							}
							break
						}
						if _, ok := root.(*ssa.Global); ok {
							return true
						}
						if al, ok := root.(*ssa.Alloc); ok && al.Referrers() != nil {
							// a local copy (range variable): every whole-value store into it
							stores := 0
							for _, ref := range *al.Referrers() {
								if st2, ok := ref.(*ssa.Store); ok && st2.Addr == ssa.Value(al) {
									stores++
									if !folded(st2.Val, d+1) {
										return false
									}
								}
							}
							if stores > 0 {
								return true
							}
						}
					case *ssa.Field:
						// field of a value copied out of a table element (range over a table)
						return folded(x.X, d+1)
					case *ssa.Extract:
						return folded(x.Tuple, d+1)
					case *ssa.Next:
						return true // range over a package-level table; its Iter is checked by the table rules
					}
					if raw == nil {
						raw = v
					}
					return false
				}
				if folded(s.Val, 0) {
					r.ok(rule, key, p.pos(s.Pos()), "the stored text is a constant, a table spelling, or passes through strings.ToLower")
				} else {
					what := "text taken from the input"
					if raw != nil && raw.Pos().IsValid() {
						what += " (" + raw.Name() + " at " + p.pos(raw.Pos()) + ")"
					}
					r.bad(rule, key, p.pos(s.Pos()), "the parser keeps "+what+" in the parsed version without lower-casing it: PEP 440 treats letters case-insensitively, so two spellings of the same version compare unequal and have different canonical strings")
				}
			}
		}
	}
	return n
}

// printNarrowRule (C10.f PRINT-NOT-NARROWED): version numbers are held in
// 64-bit values on every platform. A printer that converts one to a narrower
// integer before formatting it (fmt.Sprint(int(v)) where int has 32 bits)
// prints a truncated, possibly negative number: the canonical string then
// denotes another version or does not parse. Decided under the sizes of the
// analysed architecture (the thorough tier repeats the rules for GOARCH=386):
// no integer conversion whose result is formatted (fmt.*, strconv.Itoa /
// FormatInt / AppendInt) narrows its operand.
func printNarrowRule(r *Report, p *Prog, rule string, pkgs ...string) int {
	sizes := types.SizesFor("gc", "amd64")
	if archOverride != "" {
		if s := types.SizesFor("gc", archOverride); s != nil {
			sizes = s
		}
	}
	formatted := func(v ssa.Value) bool {
		if v.Referrers() == nil {
			return false
		}
		for _, u := range *v.Referrers() {
			switch x := u.(type) {
			case *ssa.MakeInterface:
				return true // handed to a fmt function as an operand
			case *ssa.Call:
				n := staticCalleeName(x)
				if n == "strconv.Itoa" || n == "strconv.FormatInt" || n == "strconv.AppendInt" || n == "strconv.FormatUint" {
					return true
				}
			case *ssa.Convert:
				if x.Referrers() != nil {
					for _, u2 := range *x.Referrers() {
						if c, ok := u2.(*ssa.Call); ok && strings.HasPrefix(staticCalleeName(c), "strconv.") {
							return true
						}
					}
				}
			}
		}
		return false
	}
	n := 0
	for _, f := range p.Funcs {
		if f.Pkg == nil || f.Blocks == nil || f.Synthetic != "" {
			continue
		}
		in := false
		for _, pk := range pkgs {
			if f.Pkg.Pkg.Path() == modPrefix+pk {
				in = true
			}
		}
		if !in {
			continue
		}
		per := 0
		for _, b := range f.Blocks {
			for _, ins := range b.Instrs {
				c, ok := ins.(*ssa.Convert)
				if !ok || !formatted(c) {
					continue
				}
				sb, ok1 := c.X.Type().Underlying().(*types.Basic)
				db, ok2 := c.Type().Underlying().(*types.Basic)
				if !ok1 || !ok2 || sb.Info()&types.IsInteger == 0 || db.Info()&types.IsInteger == 0 {
					continue
				}
				if _, isConst := c.X.(*ssa.Const); isConst {
					continue
				}
				n++
				per++
				key := fmt.Sprintf("%s: formatted integer #%d keeps its width", fnKey(f), per)
				ss, ds := sizes.Sizeof(sb), sizes.Sizeof(db)
				if ds < ss {
					r.bad(rule, key, p.pos(c.Pos()), fmt.Sprintf("a %d-bit %s is converted to a %d-bit %s and then formatted: a number of 2^%d or more is printed truncated (as a negative number), so the canonical string of such a version denotes another version or does not parse", ss*8, c.X.Type(), ds*8, c.Type(), ds*8-1))
				} else {
					r.ok(rule, key, p.pos(c.Pos()), fmt.Sprintf("%s (%d bits) to %s (%d bits)", c.X.Type(), ss*8, c.Type(), ds*8))
				}
			}
		}
	}
	return n
}

// parseErrorUsedRule (C02/PARSE-ERROR-USED): strconv.ParseUint/ParseInt report
// a number that does not fit with an error and return the LARGEST value of the
// size; a caller that discards the error turns every such number into that one
// value, so two different large numbers compare equal (PEP 440 numbers and
// local segments have no upper bound; 20-digit build stamps exist). The error
// result of every such call in package semver is used.
func parseErrorUsedRule(r *Report, p *Prog, rule string, pkgs ...string) int {
	n := 0
	for _, f := range p.Funcs {
		if f.Pkg == nil || f.Blocks == nil || f.Synthetic != "" {
			continue
		}
		in := false
		for _, pk := range pkgs {
			if f.Pkg.Pkg.Path() == modPrefix+pk {
				in = true
			}
		}
		if !in {
			continue
		}
		per := map[string]int{}
		for _, b := range f.Blocks {
			for _, ins := range b.Instrs {
				call, ok := ins.(*ssa.Call)
				if !ok {
					continue
				}
				name := staticCalleeName(call)
				if name != "strconv.ParseUint" && name != "strconv.ParseInt" && name != "strconv.Atoi" {
					continue
				}
				n++
				per[name]++
				key := fmt.Sprintf("%s: the error of %s #%d is used", fnKey(f), name, per[name])
				used := false
				if refs := call.Referrers(); refs != nil {
					for _, rf := range *refs {
						ex, ok := rf.(*ssa.Extract)
						if !ok || ex.Index != 1 || ex.Referrers() == nil {
							continue
						}
						for _, u := range *ex.Referrers() {
							if _, isDbg := u.(*ssa.DebugRef); !isDbg {
								used = true
							}
						}
					}
				}
				if used {
					r.ok(rule, key, p.pos(call.Pos()), "the error result is tested or returned")
				} else {
					r.bad(rule, key, p.pos(call.Pos()), "the error is discarded: for a number that does not fit, "+name+" returns the largest value of the size together with the error, so every such number becomes that one value and two different large numbers compare equal")
				}
			}
		}
	}
	return n
}
