package main

import (
	"fmt"
	"go/ast"
	"go/token"
	"go/types"
	"strings"
)

// trimSuffixRule: a loop that walks a slice from its end and cuts it at the
// loop index (`x = x[:i]`) under a condition is a "trim trailing ..." loop only
// if it stops at the first element for which the condition fails. Without a
// break (or the condition in the loop header) every later match cuts again,
// so the slice ends at the LEFTMOST match and everything after it, matching
// or not, is lost (RubyGems 1.0.0.rc.0.1 became 1.0.0.rc).
func trimSuffixRule(r *Report, p *Prog, rule string, pkgs ...string) (loops, trims int) {
	for _, rel := range pkgs {
		pk := p.pkg(rel)
		if pk == nil {
			continue
		}
		for _, f := range pk.Syntax {
			if strings.HasSuffix(p.Fset.Position(f.Pos()).Filename, "_test.go") {
				continue
			}
			ord := map[string]int{}
			ast.Inspect(f, func(nd ast.Node) bool {
				loop, ok := nd.(*ast.ForStmt)
				if !ok || loop.Post == nil {
					return true
				}
				dec, ok := loop.Post.(*ast.IncDecStmt)
				if !ok || dec.Tok != token.DEC {
					return true
				}
				iv, ok := dec.X.(*ast.Ident)
				if !ok {
					return true
				}
				ivar := pk.TypesInfo.Uses[iv]
				loops++
				// x = x[:i] anywhere in the body (not in nested loops or closures)
				var cut *ast.AssignStmt
				var cutIf *ast.IfStmt
				leaves := false
				var visit func(n ast.Node, under *ast.IfStmt)
				visit = func(n ast.Node, under *ast.IfStmt) {
					ast.Inspect(n, func(m ast.Node) bool {
						switch x := m.(type) {
						case *ast.FuncLit, *ast.ForStmt, *ast.RangeStmt:
							return m == n
						case *ast.IfStmt:
							if m != n {
								visit(x, x)
								return false
							}
						case *ast.BranchStmt:
							if x.Tok == token.BREAK || x.Tok == token.GOTO {
								leaves = true
							}
						case *ast.ReturnStmt:
							leaves = true
						case *ast.AssignStmt:
							if len(x.Lhs) == 1 && len(x.Rhs) == 1 && x.Tok == token.ASSIGN {
								if se, ok := ast.Unparen(x.Rhs[0]).(*ast.SliceExpr); ok && se.Low == nil && se.High != nil {
									if hi, ok := ast.Unparen(se.High).(*ast.Ident); ok && pk.TypesInfo.Uses[hi] == ivar &&
										types.ExprString(se.X) == types.ExprString(x.Lhs[0]) {
										cut, cutIf = x, under
									}
								}
							}
						}
						return true
					})
				}
				visit(loop.Body, nil)
				if cut == nil {
					return true
				}
				trims++
				fn := p.enclosingFuncName(loop.Pos())
				ord[fn]++
				key := fmt.Sprintf("%s: trimming loop #%d over %s", fn, ord[fn], types.ExprString(cut.Lhs[0]))
				switch {
				case cutIf == nil:
					r.ok(rule, key, p.pos(cut.Pos()), "the cut is unconditional")
				case leaves:
					r.ok(rule, key, p.pos(cut.Pos()), "the loop is left (break/return) on some path, so the cut applies to a suffix")
				default:
					r.bad(rule, key, p.pos(cut.Pos()), fmt.Sprintf("the loop runs from the end of %s and cuts it at the index whenever `%s` holds, but never stops at an element for which it does not: the slice ends at the leftmost match and the elements after it are lost, not just a trailing run", types.ExprString(cut.Lhs[0]), types.ExprString(cutIf.Cond)))
				}
				return true
			})
		}
	}
	return
}

// keyLiteralCompleteRule (C06.h KEY-LITERAL-COMPLETE): the tables of the
// resolvers (children, reservations, versions) are keyed by
// resolve.PackageKey{System, Name}, and every stored key carries its system.
// A key built for a lookup as a literal that names only some of the fields
// (PackageKey{Name: alias}) has the zero system and never equals a stored key:
// the lookup silently misses, and a reserved name is no longer seen as
// reserved. Every keyed PackageKey literal with at least one field sets all.
func keyLiteralCompleteRule(r *Report, p *Prog, rule string, pkgs ...string) int {
	n := 0
	for _, rel := range pkgs {
		pk := p.pkg(rel)
		if pk == nil {
			continue
		}
		for _, f := range pk.Syntax {
			if strings.HasSuffix(p.Fset.Position(f.Pos()).Filename, "_test.go") {
				continue
			}
			ord := map[string]int{}
			ast.Inspect(f, func(nd ast.Node) bool {
				cl, ok := nd.(*ast.CompositeLit)
				if !ok || len(cl.Elts) == 0 {
					return true
				}
				t := pk.TypesInfo.TypeOf(cl)
				if t == nil || !strings.HasSuffix(t.String(), "deps.dev/util/resolve.PackageKey") {
					return true
				}
				st, ok := t.Underlying().(*types.Struct)
				if !ok {
					return true
				}
				if _, keyed := cl.Elts[0].(*ast.KeyValueExpr); !keyed {
					return true // positional literals are complete by construction
				}
				n++
				fn := p.enclosingFuncName(cl.Pos())
				ord[fn]++
				key := fmt.Sprintf("%s: PackageKey literal #%d names every field", fn, ord[fn])
				set := map[string]bool{}
				for _, e := range cl.Elts {
					if kv, ok := e.(*ast.KeyValueExpr); ok {
						if id, ok := kv.Key.(*ast.Ident); ok {
							set[id.Name] = true
						}
					}
				}
				var missing []string
				for i := 0; i < st.NumFields(); i++ {
					if !set[st.Field(i).Name()] {
						missing = append(missing, st.Field(i).Name())
					}
				}
				if len(missing) > 0 {
					r.bad(rule, key, p.pos(cl.Pos()), fmt.Sprintf("the key is built without %v: stored keys carry every field, so a table lookup with this key never hits (and an equality test with it is never true)", missing))
				} else {
					r.ok(rule, key, p.pos(cl.Pos()), "all fields set")
				}
				return true
			})
		}
	}
	return n
}
