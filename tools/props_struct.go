package main

import (
	"fmt"
	"go/constant"
	"go/token"
	"go/types"
	"sort"
	"strings"

	"golang.org/x/tools/go/ssa"
)

// mustPassBlocks: every path from the entry of fn to a success return passes a
// block accepted by pred. Returns an offending path or nil.
func mustPassBlocks(fn *ssa.Function, pred func(*ssa.BasicBlock) bool) []*ssa.BasicBlock {
	type item struct {
		b    *ssa.BasicBlock
		path []*ssa.BasicBlock
	}
	seen := map[*ssa.BasicBlock]bool{}
	stack := []item{{fn.Blocks[0], []*ssa.BasicBlock{fn.Blocks[0]}}}
	for len(stack) > 0 {
		it := stack[len(stack)-1]
		stack = stack[:len(stack)-1]
		if seen[it.b] {
			continue
		}
		seen[it.b] = true
		if pred(it.b) {
			continue
		}
		if ret, ok := it.b.Instrs[len(it.b.Instrs)-1].(*ssa.Return); ok {
			if isSuccessReturn(ret) {
				return it.path
			}
			continue
		}
		for _, s := range it.b.Succs {
			stack = append(stack, item{s, append(append([]*ssa.BasicBlock{}, it.path...), s)})
		}
	}
	return nil
}

func checkC13(r *Report) {
	p := loadResolve("", true)
	e := runEffect(p)
	cmpTrusted(r)
	pathTrusted(r)
	r.Explain = "Structural clauses of 'canonicalisation yields one representative per isomorphism class'. C13.f SIGN-SYMMETRIC: a three-way comparator of package resolve whose non-constant results are all delegated comparisons returns +k as a constant exactly if it returns -k (a length or presence case handled for one operand only makes the node order, and with it the duplicate scan, depend on the input numbering). C13.a PURE: every comparator used by Graph.Canon (orderedNodes.Less and the sort closures of Canon/renumber) is free of side effects, so duplicate detection and order cannot depend on which pairs the sort compared. C13.b COVER: each comparator over a graph type reads every field of both operands (Node: Version, Errors; NodeError: Req, Error; Edge: From, To, Requirement, Type; VersionKey; PackageKey; dep.Type/attr.Set), following delegation to nested comparators, so no component of the graph is left to input order. C13.c MUST-SORT: every success path of Canon passes the per-node error sort loop, the node sort and renumber, and every path of renumber reaches the edge sort. C13.d DUPE-ADJACENT: the duplicate scan that decides between the cheap and the breadth-first canonicalisation compares every adjacent pair of the sorted nodes. C13.e SORT-SELF: each sort.Slice callback indexes the slice being sorted. Not decided: correctness of the BFS relabelling for duplicate nodes."
	canon := p.lookupFn("(*resolve.Graph).Canon")
	renum := p.lookupFn("(*resolve.Graph).renumber")
	if canon == nil || renum == nil {
		r.bad("C13.a/PURE", "Graph.Canon", "", "(*resolve.Graph).Canon or renumber not found")
		return
	}
	reach := p.reachableFrom([]*ssa.Function{canon})
	var fs []*ssa.Function
	for f := range reach {
		fs = append(fs, f)
	}
	sort.Slice(fs, func(i, j int) bool { return fnKey(fs[i]) < fnKey(fs[j]) })
	comps := findComparators(p, fs)
	nPure := 0
	for _, c := range comps {
		if c.in != nil || strings.HasPrefix(c.kind, "sort.Interface") {
			nPure++
			pureRule(r, p, e, "C13.a/PURE", c)
		}
	}
	r.floor("C13.a/PURE", "sort comparators used by Graph.Canon", nPure, 3)

	// COVER
	seen := map[*ssa.Function]bool{}
	nCover := 0
	for _, c := range comps {
		f := c.fn
		switch {
		case strings.HasPrefix(c.kind, "method") && len(f.Params) == 2:
			if st, tn := structOf(f.Params[0].Type()); st != nil && strings.HasPrefix(tn, "resolve") {
				nCover++
				coverRule(r, p, "C13.b/COVER", f, st, tn, paramOps(f, 0, 1), seen)
			}
		case c.elem != nil && len(f.Params) == 2:
			if st, tn := structOf(c.elem); st != nil {
				nCover++
				coverRule(r, p, "C13.b/COVER", f, st, tn, indexOps(f), seen)
			}
		}
	}
	// comparators reached by delegation through fields (VersionKey, PackageKey, dep.Type, attr.Set)
	for _, name := range []string{"(resolve.VersionKey).Compare", "(resolve.PackageKey).Compare", "(resolve.NodeError).Compare", "(resolve.Node).Compare", "(resolve/dep.Type).Compare", "(resolve/internal/attr.Set).Compare"} {
		f := p.lookupFn(name)
		if f == nil {
			r.bad("C13.b/COVER", name, "", "comparator not found: anchor lost")
			continue
		}
		if st, tn := structOf(f.Params[0].Type()); st != nil {
			if !seen[f] {
				nCover++
			}
			coverRule(r, p, "C13.b/COVER", f, st, tn, paramOps(f, 0, 1), seen)
		}
	}
	r.floor("C13.b/COVER", "comparators over graph types", nCover, 8)

	// MUST-SORT
	isCallTo := func(names ...string) func(*ssa.BasicBlock) bool {
		set := nameSet(names...)
		return func(b *ssa.BasicBlock) bool { return blockCalls(b, set) != nil }
	}
	for _, req := range []struct {
		fn   *ssa.Function
		what string
		pred func(*ssa.BasicBlock) bool
	}{
		{canon, "node sort (sort.Sort)", isCallTo("sort.Sort", "sort.Stable")},
		{canon, "renumber (edge renumbering and sort)", isCallTo("(*resolve.Graph).renumber")},
		{renum, "edge sort (sort.Slice)", isCallTo("sort.Slice", "sort.SliceStable", "slices.SortFunc", "slices.SortStableFunc")},
	} {
		key := fnKey(req.fn) + ": " + req.what
		if path := mustPassBlocks(req.fn, req.pred); path != nil {
			pp := pathPositions(p, path)
			r.bad("C13.c/MUST-SORT", key, pp[len(pp)-1], "a success path of the canonicaliser skips the "+req.what+": that component keeps its input order", pp...)
		} else {
			r.ok("C13.c/MUST-SORT", key, p.pos(req.fn.Pos()), "every path from entry to a success return passes it")
		}
	}
	dupeAdjacentRule(r, p, "C13.d/DUPE-ADJACENT")
	if n := sortSelfRule(r, p, "C13.e/SORT-SELF", []*ssa.Function{canon, renum}); n < 2 {
		r.floor("C13.e/SORT-SELF", "sort.Slice calls in Canon/renumber", n, 2)
	}
	// the per-node error sort: a loop over g.Nodes on every success path whose every iteration sorts
	{
		key := fnKey(canon) + ": per-node error sort"
		sortSet := nameSet("sort.Slice", "sort.SliceStable", "slices.SortFunc", "slices.SortStableFunc")
		var l *loop
		loops := naturalLoops(canon)
		for _, b := range canon.Blocks {
			if in := blockCalls(b, sortSet); in != nil {
				// the sorted value must be a field named Errors
				call := in.(ssa.CallInstruction)
				if f := nearestField(unwrapIface(call.Common().Args[0])); f != nil && f.Name() == "Errors" {
					l = innermostLoop(loops, b)
				}
			}
		}
		if l == nil {
			r.bad("C13.c/MUST-SORT", key, p.pos(canon.Pos()), "no loop in Canon sorts the Errors of each node any more: per-node errors keep their input order")
		} else if path := mustPassBlocks(canon, func(b *ssa.BasicBlock) bool { return b == l.header }); path != nil {
			pp := pathPositions(p, path)
			r.bad("C13.c/MUST-SORT", key, pp[len(pp)-1], "a success path of Canon skips the loop that sorts per-node errors", pp...)
		} else if res := loopAccount(l, sortSet, []exemption{{"fewer than two errors (nothing to sort)", func(c ssa.Value) bool {
			b, ok := c.(*ssa.BinOp)
			if !ok || (b.Op != token.LSS && b.Op != token.LEQ) {
				return false
			}
			k, ok := b.Y.(*ssa.Const)
			if !ok || k.Value == nil {
				return false
			}
			lim := k.Int64()
			if b.Op == token.LEQ {
				lim++
			}
			call, ok := b.X.(*ssa.Call)
			if !ok || lim > 2 {
				return false
			}
			bi, ok := call.Common().Value.(*ssa.Builtin)
			return ok && bi.Name() == "len"
		}}}); len(res.unaccounted) > 0 {
			pp := pathPositions(p, res.unaccounted[0])
			r.bad("C13.c/MUST-SORT", key, pp[len(pp)-1], "an iteration of the node loop can skip sorting that node's errors", pp...)
		} else {
			r.ok("C13.c/MUST-SORT", key, blockPos(p, l.header), "the loop over the nodes is on every success path and every iteration sorts the node's Errors (or has fewer than two)")
			// ordering: Node.Compare compares Errors element by element, so they must be sorted before the nodes are
			var nodeSort *ssa.BasicBlock
			for _, b := range canon.Blocks {
				if blockCalls(b, nameSet("sort.Sort", "sort.Stable")) != nil {
					nodeSort = b
				}
			}
			okey := fnKey(canon) + ": errors sorted before nodes"
			switch {
			case nodeSort == nil:
				r.bad("C13.c/MUST-SORT", okey, p.pos(canon.Pos()), "node sort not found")
			case l.body[nodeSort] || !l.header.Dominates(nodeSort):
				r.bad("C13.c/MUST-SORT", okey, blockPos(p, nodeSort), "the node sort is not preceded by the per-node error sort: Node.Compare compares the Errors slices element by element, so nodes that differ only in the recorded order of their errors are ordered by that input order")
			default:
				r.ok("C13.c/MUST-SORT", okey, blockPos(p, nodeSort), "the error-sort loop dominates the node sort and is finished before it")
			}
		}
	}
	noWideSubtractRule(r, p, "C13.f/NO-WIDE-SUBTRACT", threeWayFns(p, "resolve"))
	mapOrderRule(r, p, "C13.f/MAP-ORDER", threeWayFns(p, "resolve", "resolve/dep", "resolve/version", "resolve/internal/attr"))
	nSym := signSymmetryRule(r, p, "C13.f/SIGN-SYMMETRIC", threeWayFns(p, "resolve"))
	loopReturnRule(r, p, "C13.f/LOOP-NONZERO", threeWayFns(p, "resolve"))
	r.floor("C13.f/SIGN-SYMMETRIC", "three-way comparators of package resolve", nSym, 3)
}

// noopStoreRule (deny-list): Store(IndexAddr(X,I), v) where v is what was just
// loaded from IndexAddr(X,I): writing back the value read.
func noopStores(fns []*ssa.Function) []*ssa.Store {
	var out []*ssa.Store
	origin := func(v ssa.Value) (ssa.Value, ssa.Value, bool) {
		for d := 0; d < 6; d++ {
			u, ok := v.(*ssa.UnOp)
			if !ok || u.Op != token.MUL {
				return nil, nil, false
			}
			switch a := u.X.(type) {
			case *ssa.IndexAddr:
				return a.X, a.Index, true
			case *ssa.Alloc:
				sv := singleStore(a)
				if sv == nil {
					return nil, nil, false
				}
				v = sv
			default:
				return nil, nil, false
			}
		}
		return nil, nil, false
	}
	for _, f := range fns {
		for _, b := range f.Blocks {
			for _, in := range b.Instrs {
				st, ok := in.(*ssa.Store)
				if !ok {
					continue
				}
				ia, ok := st.Addr.(*ssa.IndexAddr)
				if !ok {
					continue
				}
				if x, i, ok := origin(st.Val); ok && x == ia.X && i == ia.Index {
					out = append(out, st)
				}
			}
		}
	}
	return out
}

func pkgFuncs(p *Prog, rel string) []*ssa.Function {
	var out []*ssa.Function
	for _, f := range p.Funcs {
		if p.pkgOfFn(f).Pkg.Path() == modPrefix+rel {
			out = append(out, f)
		}
	}
	return out
}

func checkC14(r *Report) {
	p := loadResolve("", true)
	e := runEffect(p)
	pathTrusted(r)
	effectTrusted(r)
	r.Explain = "Structural clauses of 'the in-memory client reports what was last added'. C14.a NOOP-STORE (deny-list, expected count zero, armed by a positive example analysed on every run): no store in package resolve writes back to s[i] the value just read from s[i] — the shape of AddVersion's replace branch storing the old element instead of the new one. C14.b REPLACE-STORES-NEW: in LocalClient.AddVersion the store into the version slice inside the replace loop stores the parameter. C14.c READ-PURE: Version, Versions, Requirements and MatchingVersions of LocalClient write nothing reachable from the receiver, so lookups cannot change what later lookups report. C14.d ADD-COMPLETE: every return of AddVersion except the one for Deleted versions passes the store of the requirements, the store of the version list and the loop (or helper) that makes dependency packages known. C14.g SORT-AFTER-APPEND: in AddVersion every path from the append of a new version, and from the replacement of a stored one, to the store of the version list passes through SortVersions; for npm the position of a version depends on the latest tag of the others, so there is no ordering test on the new element alone that could make the sort unnecessary. C14.h ARG-NOT-RETAINED: AddVersion neither reorders the requirement slice it is given nor keeps it: the value stored under the version's key is a copy, so what the client reports cannot change when the caller reuses or edits its slice, and the caller's slice is not sorted behind its back. C14.f KNOWN-BY-PRESENCE: Versions, Requirements and MatchingVersions decide between 'found' and ErrNotFound on the comma-ok result of a lookup in the client's own table (presence of the key), never on the looked-up value being nil or empty, so a package known only through a requirement (present with no versions) is reported as known by all of them alike. C14.e KEY-COVER: each lookup method reads every leaf component of the key it is given, so a key that was never added cannot be reported as found because it resembles a stored one. Not decided: equivalence with a map model over all histories."
	fns := pkgFuncs(p, "resolve")
	r.floor("C14.a/NOOP-STORE", "functions of package resolve scanned", len(fns), 100)
	nIdxStores := 0
	for _, f := range fns {
		for _, b := range f.Blocks {
			for _, in := range b.Instrs {
				if st, ok := in.(*ssa.Store); ok {
					if _, ok := st.Addr.(*ssa.IndexAddr); ok {
						nIdxStores++
					}
				}
			}
		}
	}
	bad := noopStores(fns)
	for _, st := range bad {
		r.bad("C14.a/NOOP-STORE", fnKey(st.Parent())+": element written back unchanged", p.pos(st.Pos()), "the element just read from this index is stored back to it: a replace that replaces nothing")
	}
	if len(bad) == 0 {
		r.ok("C14.a/NOOP-STORE", "package resolve", "", fmt.Sprintf("none of the %d indexed stores writes back the value read from the same element", nIdxStores))
	}
	r.floor("C14.a/NOOP-STORE", "indexed stores in package resolve", nIdxStores, 10)
	// positive example
	if tp := loadTestdata(); tp != nil {
		pos := noopStores(tp.Funcs)
		if len(pos) == 0 {
			r.bad("C14.a/NOOP-STORE", "positive example testdata/pos.NoopStore", "", "the rule no longer fires on its positive example: it has lost sensitivity")
		} else {
			r.ok("C14.a/NOOP-STORE", "positive example testdata/pos.NoopStore", "", "the rule fires on the seeded example, as it must")
		}
	}

	// C14.b
	add := p.lookupFn("(*resolve.LocalClient).AddVersion")
	if add == nil {
		r.bad("C14.b/REPLACE-STORES-NEW", "LocalClient.AddVersion", "", "function not found")
	} else {
		n := 0
		for _, b := range add.Blocks {
			for _, in := range b.Instrs {
				st, ok := in.(*ssa.Store)
				if !ok {
					continue
				}
				ia, ok := st.Addr.(*ssa.IndexAddr)
				if !ok {
					continue
				}
				if !strings.HasSuffix(ia.X.Type().String(), "[]deps.dev/util/resolve.Version") {
					continue
				}
				n++
				key := fnKey(add) + ": replace store"
				v := st.Val
				for d := 0; d < 4; d++ {
					if u, ok := v.(*ssa.UnOp); ok && u.Op == token.MUL {
						if al, ok := u.X.(*ssa.Alloc); ok {
							if sv := singleStore(al); sv != nil {
								v = sv
								continue
							}
						}
					}
					break
				}
				if _, isParam := v.(*ssa.Parameter); isParam {
					r.ok("C14.b/REPLACE-STORES-NEW", key, p.pos(st.Pos()), "the replace branch stores the parameter "+v.Name())
				} else {
					r.bad("C14.b/REPLACE-STORES-NEW", key, p.pos(st.Pos()), "the replace branch of AddVersion stores something other than the version being added")
				}
			}
		}
		r.floor("C14.b/REPLACE-STORES-NEW", "element stores into a []resolve.Version in AddVersion", n, 1)
		addCompleteRule(r, p, e, add)
	}
	keyCoverRule(r, p, "C14.e/KEY-COVER", "(*resolve.LocalClient).Version", 2)
	keyCoverRule(r, p, "C14.e/KEY-COVER", "(*resolve.LocalClient).Versions", 2)
	keyCoverRule(r, p, "C14.e/KEY-COVER", "(*resolve.LocalClient).Requirements", 2)
	keyCoverRule(r, p, "C14.e/KEY-COVER", "(*resolve.LocalClient).MatchingVersions", 2)
	for _, m := range []string{"Versions", "Requirements", "MatchingVersions"} {
		knownByPresenceRule(r, p, "C14.f/KNOWN-BY-PRESENCE", "(*resolve.LocalClient)."+m)
	}
	sortAfterAppendRule(r, p, "C14.g/SORT-AFTER-APPEND")
	argNotRetainedRule(r, p, e, "C14.h/ARG-NOT-RETAINED")
	argMapsCopiedRule(r, p, "C14.i/ARG-MAPS-COPIED")
	n := readPureRule(r, p, e, "C14.c/READ-PURE", "resolve.LocalClient")
	r.floor("C14.c/READ-PURE", "resolve.Client methods of LocalClient", n, 4)
}

var testdataProg *Prog
var testdataTried bool

// loadTestdata loads the positive examples under /verif/tools/testdata/pos.
func loadTestdata() *Prog {
	if testdataTried {
		return testdataProg
	}
	testdataTried = true
	testdataProg = loadExtra(verifDir() + "/tools/testdata/pos")
	return testdataProg
}

// ---- C18 -------------------------------------------------------------------

// guardedFields finds struct fields F with a sibling FMu of type sync.Mutex/RWMutex.
func guardedFields(p *Prog) map[*types.Var]*types.Var {
	out := map[*types.Var]*types.Var{}
	for _, pk := range p.Pkgs {
		sc := pk.Types.Scope()
		for _, n := range sc.Names() {
			tn, ok := sc.Lookup(n).(*types.TypeName)
			if !ok {
				continue
			}
			st, ok := tn.Type().Underlying().(*types.Struct)
			if !ok {
				continue
			}
			for i := 0; i < st.NumFields(); i++ {
				mu := st.Field(i)
				ts := mu.Type().String()
				if !strings.HasSuffix(mu.Name(), "Mu") || (ts != "sync.Mutex" && ts != "sync.RWMutex") {
					continue
				}
				for j := 0; j < st.NumFields(); j++ {
					if st.Field(j).Name()+"Mu" == mu.Name() {
						out[st.Field(j)] = mu
					}
				}
			}
		}
	}
	return out
}

// locksetRule: every access to a guarded field holds its mutex (must-analysis).
func locksetRule(r *Report, p *Prog, rule string) int {
	guarded := guardedFields(p)
	nAcc := 0
	for _, f := range p.Funcs {
		// quick filter
		uses := false
		for _, b := range f.Blocks {
			for _, in := range b.Instrs {
				if fa, ok := in.(*ssa.FieldAddr); ok {
					if fv, _ := fieldOfAddr(fa); guarded[fv] != nil {
						uses = true
					}
				}
			}
		}
		if !uses {
			continue
		}
		type lockKey struct {
			base ssa.Value
			mu   *types.Var
		}
		// forward must-analysis: in[b] = intersection over preds of out[pred]
		in := map[*ssa.BasicBlock]map[lockKey]bool{}
		out := map[*ssa.BasicBlock]map[lockKey]bool{}
		transfer := func(b *ssa.BasicBlock, held map[lockKey]bool, visit func(ssa.Instruction, map[lockKey]bool)) map[lockKey]bool {
			h := map[lockKey]bool{}
			for k := range held {
				h[k] = true
			}
			for _, ins := range b.Instrs {
				if visit != nil {
					visit(ins, h)
				}
				call, ok := ins.(*ssa.Call)
				if !ok {
					continue
				}
				sc := call.Common().StaticCallee()
				if sc == nil || len(call.Common().Args) == 0 {
					continue
				}
				fv, base := fieldOfAddr(call.Common().Args[0])
				if fv == nil {
					continue
				}
				switch fullName(sc) {
				case "(*sync.Mutex).Lock", "(*sync.RWMutex).Lock", "(*sync.RWMutex).RLock":
					h[lockKey{base, fv}] = true
				case "(*sync.Mutex).Unlock", "(*sync.RWMutex).Unlock", "(*sync.RWMutex).RUnlock":
					delete(h, lockKey{base, fv})
				}
			}
			return h
		}
		changed := true
		for iter := 0; changed && iter < 100; iter++ {
			changed = false
			for _, b := range f.Blocks {
				var held map[lockKey]bool
				if b == f.Blocks[0] {
					held = map[lockKey]bool{}
				} else {
					first := true
					for _, pr := range b.Preds {
						o, ok := out[pr]
						if !ok {
							continue
						}
						if first {
							held = map[lockKey]bool{}
							for k := range o {
								held[k] = true
							}
							first = false
						} else {
							for k := range held {
								if !o[k] {
									delete(held, k)
								}
							}
						}
					}
					if held == nil {
						continue
					}
				}
				in[b] = held
				no := transfer(b, held, nil)
				if len(no) != len(out[b]) || out[b] == nil {
					changed = true
				} else {
					for k := range no {
						if !out[b][k] {
							changed = true
						}
					}
				}
				out[b] = no
			}
		}
		for _, b := range f.Blocks {
			if in[b] == nil {
				continue
			}
			transfer(b, in[b], func(ins ssa.Instruction, held map[lockKey]bool) {
				fa, ok := ins.(*ssa.FieldAddr)
				if !ok {
					return
				}
				fv, base := fieldOfAddr(fa)
				mu := guarded[fv]
				if mu == nil {
					return
				}
				if al, ok := base.(*ssa.Alloc); ok && al.Parent() == f {
					return // construction of a fresh object
				}
				nAcc++
				key := fmt.Sprintf("%s: access to %s", fnKey(f), fieldOwnerKey(p, fv))
				if held[lockKey{base, mu}] {
					r.ok(rule, key, p.pos(fa.Pos()), mu.Name()+" is held on every path to this access")
				} else {
					r.bad(rule, key, p.pos(fa.Pos()), "the guarded field is accessed on a path that does not hold "+mu.Name()+": a data race when goroutines share the client")
				}
			})
		}
	}
	r.floor(rule, "guarded fields (F with sibling FMu)", len(guarded), 1)
	return nAcc
}

func checkC18(r *Report) {
	p := loadResolve("", true)
	e := runEffect(p)
	pathTrusted(r)
	effectTrusted(r)
	r.Explain = "Structural clauses of 'the API-backed client maps bundles consistently, race-free'. C18.a LOCKSET: every access to a field F that has a sibling mutex FMu (APIClient.bundledVersions) is made with that mutex held on all paths (forward must-analysis of Lock/Unlock/defer Unlock per basic block). C18.b DERIVED-FIRST: the map update that stores a bundle into bundledVersions is dominated by a SetAttr(version.DerivedFrom, ...) call in the same function, so a stored bundle always records what it derives from. C18.c BUNDLE-GUARD: in each of the four resolve.Client methods of APIClient every RPC on the Insights service is on the false side of the isNPMBundle(name) test and the true side reads through getBundledVersion, so all four calls treat bundle names consistently. C18.d CLIENT-STATE: no field of APIClient is stored to after construction and the only field-held memory updated in place is bundledVersions. C18.e ALIAS-ISOLATED: no function of the API client that receives a dependency type by value writes its shared attribute map, so the alias (KnownAs) added to one requirement cannot leak into the other requirements built from the same per-section template. C18.g BUNDLE-FROZEN: a slice read out of a bundledVersion outside npmRequirements (which builds the entries before they are stored) is never sorted, appended to, stored into or passed to a callee whose effect summary writes it, because entries of the shared table are handed out to every caller after the lock is released. C18.f SORT-SELF: the callback that orders bundles parent-first indexes the very slice being sorted. C18.l BUNDLE-KEY-CONSTRUCTOR: every key used to store into or look up the table of bundles in npmRequirements is the result of mangledName or the root's name. C18.m SCOPE-AT: an index of the at sign used to split a name@version text is compared in a way that tells position 0 (the scope of an npm name) from a separator. Not decided: equality of graphs through the two clients; the race detector's verdict on schedules (C18.a is the static necessary condition for it)."
	n := locksetRule(r, p, "C18.a/LOCKSET")
	r.floor("C18.a/LOCKSET", "accesses to guarded fields", n, 2)
	if tp := loadTestdata(); tp != nil {
		tr := newReport("testdata", "quick")
		locksetRule(tr, tp, "LOCKSET")
		fired, silent := false, false
		for _, o := range tr.Obls {
			if strings.Contains(o.Key, "UnlockedAccess") && !o.OK {
				fired = true
			}
			if strings.Contains(o.Key, "LockedAccess") && !strings.Contains(o.Key, "Unlocked") && o.OK {
				silent = true
			}
		}
		if fired && silent {
			r.ok("C18.a/LOCKSET", "positive example testdata/pos.guarded", "", "fires on UnlockedAccess and is silent on LockedAccess, as it must")
		} else {
			r.bad("C18.a/LOCKSET", "positive example testdata/pos.guarded", "", "the rule no longer separates its positive and negative examples: it has lost sensitivity")
		}
	}

	// C18.b
	derived, ok := p.pkg("resolve/version").Types.Scope().Lookup("DerivedFrom").(*types.Const)
	if !ok {
		r.bad("C18.b/DERIVED-FIRST", "version.DerivedFrom", "", "constant not found")
	} else {
		nUpd := 0
		for _, f := range pkgFuncs(p, "resolve") {
			for _, b := range f.Blocks {
				for i, in := range b.Instrs {
					mu, ok := in.(*ssa.MapUpdate)
					if !ok {
						continue
					}
					fv := nearestField(mu.Map)
					if fv == nil || fieldOwnerKey(p, fv) != "resolve.APIClient.bundledVersions" {
						continue
					}
					nUpd++
					key := fnKey(f) + ": store into bundledVersions"
					found := false
					for _, ob := range f.Blocks {
						for j, oin := range ob.Instrs {
							call, ok := oin.(*ssa.Call)
							if !ok || !strings.HasSuffix(staticCalleeName(call), "version.AttrSet).SetAttr") || len(call.Common().Args) < 2 {
								continue
							}
							c, ok := call.Common().Args[1].(*ssa.Const)
							if !ok || c.Value == nil || !constant.Compare(c.Value, token.EQL, derived.Val()) {
								continue
							}
							if (ob == b && j < i) || (ob != b && ob.Dominates(b)) {
								found = true
							}
						}
					}
					if found {
						r.ok("C18.b/DERIVED-FIRST", key, p.pos(mu.Pos()), "dominated by SetAttr(version.DerivedFrom, ...)")
					} else {
						r.bad("C18.b/DERIVED-FIRST", key, p.pos(mu.Pos()), "a bundle is stored without a dominating SetAttr(version.DerivedFrom, ...): the resolver cannot tell which package it derives from")
					}
				}
			}
		}
		r.floor("C18.b/DERIVED-FIRST", "map updates of APIClient.bundledVersions", nUpd, 1)
	}

	// C18.c
	nGuard := 0
	for tname, ms := range clientMethods(p) {
		if !strings.HasSuffix(tname, "resolve.APIClient") {
			continue
		}
		sort.Slice(ms, func(i, j int) bool { return ms[i].Name() < ms[j].Name() })
		for _, m := range ms {
			nGuard++
			key := fnKey(m) + ": bundle guard"
			// the guard: an If whose condition is the result of isNPMBundle
			var guard *ssa.BasicBlock
			for _, b := range m.Blocks {
				if ifi, ok := b.Instrs[len(b.Instrs)-1].(*ssa.If); ok {
					if call, ok := ifi.Cond.(*ssa.Call); ok && staticCalleeName(call) == "resolve.isNPMBundle" {
						guard = b
					}
				}
			}
			if guard == nil {
				r.bad("C18.c/BUNDLE-GUARD", key, p.pos(m.Pos()), "the method no longer tests isNPMBundle(name): bundle names would be sent to the service")
				continue
			}
			thenB, elseB := guard.Succs[0], guard.Succs[1]
			okAll := true
			nRPC := 0
			for _, b := range m.Blocks {
				for _, in := range b.Instrs {
					call, ok := in.(ssa.CallInstruction)
					if !ok {
						continue
					}
					isRPC := call.Common().IsInvoke() && strings.HasSuffix(call.Common().Value.Type().String(), "InsightsClient")
					isPeer := false
					if sc := call.Common().StaticCallee(); sc != nil && sc != m && sc.Signature.Recv() != nil && p.inScope(sc) {
						// delegation to another method of the client that itself talks to the service
						for _, other := range ms {
							if other == sc {
								isPeer = true
							}
						}
					}
					if !isRPC && !isPeer {
						continue
					}
					nRPC++
					if !(elseB.Dominates(b) && len(elseB.Preds) == 1) {
						okAll = false
						r.bad("C18.c/BUNDLE-GUARD", key+" / "+lastCallName(in), p.pos(in.Pos()), "a call to the Insights service (or to another client method) is not confined to the non-bundle side of isNPMBundle(name)")
					}
				}
			}
			readsBundle := false
			for _, b := range m.Blocks {
				if thenB.Dominates(b) && blockCalls(b, nameSet("(*resolve.APIClient).getBundledVersion")) != nil {
					readsBundle = true
				}
			}
			if !readsBundle {
				okAll = false
				r.bad("C18.c/BUNDLE-GUARD", key+" / bundle side", p.pos(m.Pos()), "the bundle side of the guard no longer reads through getBundledVersion")
			}
			if okAll {
				r.ok("C18.c/BUNDLE-GUARD", key, blockPos(p, guard), fmt.Sprintf("%d service calls, all on the non-bundle side; the bundle side reads through getBundledVersion", nRPC))
			}
		}
	}
	r.floor("C18.c/BUNDLE-GUARD", "resolve.Client methods of APIClient", nGuard, 4)

	// C18.e: requirement types built from a shared template are cloned before they are annotated
	if af := attrSetMapField(p); af != nil {
		n := byValueAttrMutation(r, p, e, "C18.e/ALIAS-ISOLATED", af, func(f *ssa.Function) bool {
			return p.pkgOfFn(f).Pkg.Path() == modPrefix+"resolve" && strings.HasSuffix(p.Fset.Position(f.Pos()).Filename, "/api.go")
		})
		ok := true
		for _, o := range r.Obls {
			if o.Rule == "C18.e/ALIAS-ISOLATED" && !o.OK {
				ok = false
			}
		}
		if ok {
			r.ok("C18.e/ALIAS-ISOLATED", "util/resolve/api.go", "", fmt.Sprintf("none of the %d by-value attribute-set parameters in the API client's code has its shared map written (the per-section dependency type is cloned before KnownAs is added)", n))
		}
		r.floor("C18.e/ALIAS-ISOLATED", "by-value attribute-set parameters in api.go", n, 1)
		nET := entryOwnTypeRule(r, p, "C18.h/ENTRY-OWN-TYPE", "util/resolve/api.go")
		r.floor("C18.h/ENTRY-OWN-TYPE", "requirements built inside loops in api.go", nET, 2)
		nNF := sentinelWrappedRule(r, p, "C18.i/NOTFOUND-WRAPPED", "ErrNotFound")
		r.floor("C18.i/NOTFOUND-WRAPPED", "not-found answers of the clients in package resolve", nNF, 6)
		handedOutCopiedRule(r, p, "C18.j/HANDED-OUT-COPIED")
		bundleKeyResolvedRule(r, p, "C18.k/BUNDLE-KEY-RESOLVED")
		nBK := bundleKeyConstructorRule(r, p, "C18.l/BUNDLE-KEY-CONSTRUCTOR")
		r.floor("C18.l/BUNDLE-KEY-CONSTRUCTOR", "stores and lookups in the table of bundles of npmRequirements", nBK, 4)
		nSA := scopeAtRule(r, p, "C18.m/SCOPE-AT")
		r.floor("C18.m/SCOPE-AT", "indexes of \"@\" taken in package resolve and the schema reader", nSA, 3)
		nNT := sentinelComparedRule(r, p, "C18.i/NOTFOUND-TESTED", "ErrNotFound")
		r.floor("C18.i/NOTFOUND-TESTED", "tests for ErrNotFound in the resolvers and clients", nNT, 1)
	}
	// C18.f
	{
		var apiFns []*ssa.Function
		for _, f := range pkgFuncs(p, "resolve") {
			if strings.HasSuffix(p.Fset.Position(f.Pos()).Filename, "/api.go") {
				apiFns = append(apiFns, f)
			}
		}
		n := sortSelfRule(r, p, "C18.f/SORT-SELF", apiFns)
		r.floor("C18.f/SORT-SELF", "sort.Slice calls in api.go", n, 1)
	}
	// C18.d
	structStateRule(r, p, e, "C18.d/CLIENT-STATE", "resolve", "APIClient", map[string]string{"bundledVersions": "guarded by bundledVersionsMu (C18.a)"})
	bundleFrozenRule(r, p, e, "C18.g/BUNDLE-FROZEN")
}

// bundleFrozenRule: a bundledVersion stored in the client's shared table is
// handed out (by value, sharing its slices) to every caller and every
// goroutine after the lock is released, so what it holds is never changed in
// place after it was built: a slice read out of a bundledVersion is not
// sorted, appended to, stored into, or passed to a callee whose effect summary
// writes that argument. Only npmRequirements, which builds the entries before
// they are stored, is exempt.
func bundleFrozenRule(r *Report, p *Prog, e *Effect, rule string) {
	isBundle := func(t types.Type) bool {
		if pt, ok := t.Underlying().(*types.Pointer); ok {
			t = pt.Elem()
		}
		return strings.HasSuffix(t.String(), "deps.dev/util/resolve.bundledVersion")
	}
	fromBundle := func(v ssa.Value) (string, bool) {
		for d := 0; d < 6 && v != nil; d++ {
			switch x := v.(type) {
			case *ssa.Field:
				if isBundle(x.X.Type()) {
					return x.X.Type().Underlying().(*types.Struct).Field(x.Field).Name(), true
				}
				v = x.X
			case *ssa.UnOp:
				if fa, ok := x.X.(*ssa.FieldAddr); ok && x.Op == token.MUL {
					if isBundle(fa.X.Type()) {
						return fa.X.Type().Underlying().(*types.Pointer).Elem().Underlying().(*types.Struct).Field(fa.Field).Name(), true
					}
					v = fa.X
				} else {
					v = x.X
				}
			case *ssa.Slice:
				v = x.X
			case *ssa.ChangeType:
				v = x.X
			default:
				return "", false
			}
		}
		return "", false
	}
	nReads := 0
	perFn := map[*ssa.Function]int{}
	for _, f := range pkgFuncs(p, "resolve") {
		if strings.HasSuffix(fnKey(f), ".npmRequirements") || f.Blocks == nil {
			continue
		}
		for _, b := range f.Blocks {
			for _, in := range b.Instrs {
				report := func(name, what string, pos token.Pos) {
					perFn[f]++
					r.bad(rule, fmt.Sprintf("%s: bundledVersion.%s %s #%d", fnKey(f), name, what, perFn[f]), p.pos(pos), "memory held by an entry of the shared bundle table is changed in place after the entry was stored: every caller and goroutine that was handed this bundle shares the slice, and the write happens outside the lock")
				}
				switch x := in.(type) {
				case *ssa.Field:
					if isBundle(x.X.Type()) {
						nReads++
					}
				case *ssa.FieldAddr:
					if isBundle(x.X.Type()) {
						nReads++
					}
				case *ssa.Store:
					if ia, ok := x.Addr.(*ssa.IndexAddr); ok {
						if name, ok := fromBundle(ia.X); ok {
							report(name, "element stored", x.Pos())
						}
					}
				case *ssa.Call:
					if bi, ok := x.Call.Value.(*ssa.Builtin); ok {
						if (bi.Name() == "append" || bi.Name() == "copy" || bi.Name() == "clear") && len(x.Call.Args) > 0 {
							if name, ok := fromBundle(x.Call.Args[0]); ok {
								report(name, "given to "+bi.Name(), x.Pos())
							}
						}
						continue
					}
					sc := x.Call.StaticCallee()
					if sc == nil {
						continue
					}
					for k, a := range x.Call.Args {
						name, ok := fromBundle(a)
						if !ok {
							continue
						}
						writes := false
						if _, isMut := sliceMutators[fullName(sc)]; isMut && k == 0 {
							writes = true
						}
						if s := e.sums[sc]; s != nil && k < maxParam {
							for _, o := range s.writes {
								if o.p&(1<<uint(2*k)) != 0 {
									writes = true
								}
							}
						}
						if writes {
							report(name, "passed to "+fnKey(sc)+", which writes that argument", x.Pos())
						}
					}
				}
			}
		}
	}
	if len(perFn) == 0 {
		r.ok(rule, "package resolve: slices of stored bundles", "", fmt.Sprintf("%d reads of bundledVersion fields outside npmRequirements; none is sorted, appended to, stored into or passed to a callee that writes it", nReads))
	}
	r.floor(rule, "reads of bundledVersion fields outside npmRequirements", nReads, 3)
}

// sliceMutators: library functions that reorder or overwrite their first argument.
var sliceMutators = map[string]bool{
	"sort.Slice": true, "sort.SliceStable": true, "sort.Sort": true, "sort.Stable": true, "sort.Strings": true, "sort.Ints": true,
	"slices.Sort": true, "slices.SortFunc": true, "slices.SortStableFunc": true, "slices.Reverse": true,
}

func lastCallName(in ssa.Instruction) string {
	if n := staticCalleeName(in); n != "" {
		return n
	}
	return invokeName(in)
}

// structStateRule: who-may-write on the fields of one struct type.
func structStateRule(r *Report, p *Prog, e *Effect, rule, pkgRel, typeName string, inPlaceOK map[string]string) {
	tn, ok := p.pkg(pkgRel).Types.Scope().Lookup(typeName).(*types.TypeName)
	if !ok {
		r.bad(rule, pkgRel+"."+typeName, "", "type not found")
		return
	}
	st, ok := tn.Type().Underlying().(*types.Struct)
	if !ok {
		r.bad(rule, pkgRel+"."+typeName, "", "not a struct")
		return
	}
	fields := map[*types.Var]bool{}
	for i := 0; i < st.NumFields(); i++ {
		fields[st.Field(i)] = true
	}
	nStores := 0
	violated := map[string]bool{}
	for _, f := range p.Funcs {
		for _, b := range f.Blocks {
			for _, in := range b.Instrs {
				sto, ok := in.(*ssa.Store)
				if !ok {
					continue
				}
				fv, base := fieldOfAddr(sto.Addr)
				if fv == nil || !fields[fv] {
					continue
				}
				nStores++
				if al, ok := base.(*ssa.Alloc); ok && al.Parent() == f {
					r.ok(rule, fnKey(f)+": initialises "+typeName+"."+fv.Name(), p.pos(sto.Pos()), "store into an object freshly allocated in the same function (constructor)")
					continue
				}
				violated[fv.Name()] = true
				r.bad(rule, fnKey(f)+": stores "+typeName+"."+fv.Name(), p.pos(sto.Pos()), "a field of "+typeName+" is reassigned after construction")
			}
		}
	}
	for _, s := range e.allSites {
		if s.kind == "store" || s.field == nil || !fields[s.field] {
			continue
		}
		if why, ok := inPlaceOK[s.field.Name()]; ok {
			r.ok(rule, fnKey(s.fn)+": "+s.desc, p.pos(s.pos), "in-place update of "+s.field.Name()+" allowed: "+why)
			continue
		}
		violated[s.field.Name()] = true
		r.bad(rule, fnKey(s.fn)+": "+s.desc, p.pos(s.pos), "memory held by "+typeName+"."+s.field.Name()+" is updated in place")
	}
	for i := 0; i < st.NumFields(); i++ {
		if n := st.Field(i).Name(); !violated[n] {
			r.ok(rule, "field "+typeName+"."+n, p.pos(st.Field(i).Pos()), "never reassigned after construction")
		}
	}
	r.floor(rule, "constructor stores into "+typeName, nStores, 1)
}

// addCompleteRule (C14.d): every return of AddVersion, except the early return
// for versions flagged Deleted, is preceded by the store of the requirements
// into lc.imports and by the loop that makes every dependency package known.
func addCompleteRule(r *Report, p *Prog, e *Effect, add *ssa.Function) {
	rule := "C14.d/ADD-COMPLETE"
	// a helper "updates field F" if its effect summary has a map update on F
	helperUpd := func(f *ssa.Function, field string) bool {
		s := e.sums[f]
		if s == nil || f == add {
			return false
		}
		for st := range s.writes {
			if st.kind == "map update" && st.field != nil && fieldOwnerKey(p, st.field) == "resolve.LocalClient."+field {
				return true
			}
		}
		return false
	}
	fieldUpd := func(b *ssa.BasicBlock, field string) bool {
		for _, in := range b.Instrs {
			if mu, ok := in.(*ssa.MapUpdate); ok {
				if fv := nearestField(mu.Map); fv != nil && fieldOwnerKey(p, fv) == "resolve.LocalClient."+field {
					return true
				}
			}
			if c, ok := in.(ssa.CallInstruction); ok {
				if sc := c.Common().StaticCallee(); sc != nil && helperUpd(sc, field) {
					return true
				}
			}
		}
		return false
	}
	// the ensure loop: a loop whose body updates PackageVersions under a failed lookup
	var ensure *loop
	for _, l := range naturalLoops(add) {
		for b := range l.body {
			if fieldUpd(b, "PackageVersions") {
				ensure = l
			}
		}
	}
	// exempt: the true edge of the Deleted test
	isDeletedGuard := func(b *ssa.BasicBlock) bool {
		ifi, ok := b.Instrs[len(b.Instrs)-1].(*ssa.If)
		if !ok {
			return false
		}
		return condDerives(ifi.Cond, 0, func(v ssa.Value) bool {
			c, ok := v.(*ssa.Call)
			if !ok || !strings.HasSuffix(staticCalleeName(c), "version.AttrSet).HasAttr") || len(c.Common().Args) < 2 {
				return false
			}
			k, ok := c.Common().Args[1].(*ssa.Const)
			return ok && k.Value != nil
		})
	}
	check := func(what string, pred func(*ssa.BasicBlock) bool) {
		key := fnKey(add) + ": every return passes " + what
		// paths from entry avoiding pred blocks; the Deleted early return is cut
		type item struct {
			b    *ssa.BasicBlock
			path []*ssa.BasicBlock
		}
		seen := map[*ssa.BasicBlock]bool{}
		stack := []item{{add.Blocks[0], []*ssa.BasicBlock{add.Blocks[0]}}}
		for len(stack) > 0 {
			it := stack[len(stack)-1]
			stack = stack[:len(stack)-1]
			if seen[it.b] {
				continue
			}
			seen[it.b] = true
			if pred(it.b) {
				continue
			}
			if _, ok := it.b.Instrs[len(it.b.Instrs)-1].(*ssa.Return); ok {
				pp := pathPositions(p, it.path)
				r.bad(rule, key, pp[len(pp)-1], "a path through AddVersion returns without "+what+": what the client later reports no longer reflects this addition", pp...)
				return
			}
			for i, s := range it.b.Succs {
				if i == 0 && isDeletedGuard(it.b) {
					continue
				}
				stack = append(stack, item{s, append(append([]*ssa.BasicBlock{}, it.path...), s)})
			}
		}
		r.ok(rule, key, p.pos(add.Pos()), "holds on every path except the early return for versions flagged Deleted")
	}
	check("the store of the requirements into lc.imports", func(b *ssa.BasicBlock) bool { return fieldUpd(b, "imports") })
	check("the store of the version list into lc.PackageVersions", func(b *ssa.BasicBlock) bool {
		direct := false
		for _, in := range b.Instrs {
			if mu, ok := in.(*ssa.MapUpdate); ok {
				if fv := nearestField(mu.Map); fv != nil && fieldOwnerKey(p, fv) == "resolve.LocalClient.PackageVersions" {
					direct = true
				}
			}
		}
		return direct && (ensure == nil || !ensure.body[b])
	})
	// the loop may have been moved into a helper that is called with the dependencies
	helperCall := func(b *ssa.BasicBlock) bool {
		for _, in := range b.Instrs {
			if c, ok := in.(ssa.CallInstruction); ok {
				if sc := c.Common().StaticCallee(); sc != nil && helperUpd(sc, "PackageVersions") && len(naturalLoops(sc)) > 0 {
					return true
				}
			}
		}
		return false
	}
	hasHelper := false
	for _, b := range add.Blocks {
		if helperCall(b) {
			hasHelper = true
		}
	}
	if ensure == nil && !hasHelper {
		r.bad(rule, fnKey(add)+": dependency packages made known", p.pos(add.Pos()), "AddVersion no longer has a loop (or a helper with one) that enters every dependency package into PackageVersions")
	} else {
		check("the loop that makes every dependency package known", func(b *ssa.BasicBlock) bool {
			return (ensure != nil && b == ensure.header) || helperCall(b)
		})
	}
}

// knownByPresenceRule: see checkC14 (C14.f).
func knownByPresenceRule(r *Report, p *Prog, rule, fnName string) {
	f := p.lookupFn(fnName)
	if f == nil {
		r.bad(rule, fnName, "", "function not found: anchor lost")
		return
	}
	errIdx := f.Signature.Results().Len() - 1
	// blocks that return a non-nil / a nil error
	reachErr, reachOK := map[*ssa.BasicBlock]bool{}, map[*ssa.BasicBlock]bool{}
	var mark func(b *ssa.BasicBlock, m map[*ssa.BasicBlock]bool)
	mark = func(b *ssa.BasicBlock, m map[*ssa.BasicBlock]bool) {
		if m[b] {
			return
		}
		m[b] = true
		for _, pr := range b.Preds {
			mark(pr, m)
		}
	}
	for _, b := range f.Blocks {
		ret, ok := b.Instrs[len(b.Instrs)-1].(*ssa.Return)
		if !ok || len(ret.Results) <= errIdx {
			continue
		}
		if c, ok := ret.Results[errIdx].(*ssa.Const); ok && c.Value == nil {
			mark(b, reachOK)
		} else {
			mark(b, reachErr)
		}
	}
	n := 0
	for _, b := range f.Blocks {
		ifi, ok := b.Instrs[len(b.Instrs)-1].(*ssa.If)
		if !ok {
			continue
		}
		s0, s1 := b.Succs[0], b.Succs[1]
		// a deciding branch: one side can only fail, the other can succeed
		onlyErr0 := reachErr[s0] && !reachOK[s0]
		onlyErr1 := reachErr[s1] && !reachOK[s1]
		if onlyErr0 == onlyErr1 {
			continue
		}
		n++
		key := fmt.Sprintf("%s: found/not-found decision #%d", fnKey(f), n)
		presence := condDerives(ifi.Cond, 0, func(v ssa.Value) bool {
			ex, ok := v.(*ssa.Extract)
			if !ok || ex.Index != 1 {
				return false
			}
			lk, ok := ex.Tuple.(*ssa.Lookup)
			return ok && lk.CommaOk && nearestField(lk.X) != nil
		})
		if presence {
			r.ok(rule, key, p.pos(ifi.Pos()), "decided on the comma-ok result of a lookup in the client's own table")
		} else {
			r.bad(rule, key, blockPos(p, b), "ErrNotFound is decided on something other than the presence of the key in the client's table (the value being nil or empty): a package or version that is present with nothing in it is reported as unknown, and the client's read methods disagree about what is known")
		}
	}
	if n == 0 {
		r.bad(rule, fnKey(f)+": found/not-found decision", p.pos(f.Pos()), "no branch separating the found return from the ErrNotFound return was recognised: anchor lost")
	}
}

// sortAfterAppendRule: see checkC14 (C14.g).
func sortAfterAppendRule(r *Report, p *Prog, rule string) {
	f := p.lookupFn("(*resolve.LocalClient).AddVersion")
	if f == nil {
		r.bad(rule, "(*resolve.LocalClient).AddVersion", "", "function not found: anchor lost")
		return
	}
	loops := naturalLoops(f)
	// the store of the version list outside any loop (a block in which SortVersions
	// precedes the store is not a stop: reaching it means the sort was passed)
	stores := map[*ssa.BasicBlock]bool{}
	nStores := 0
	for _, b := range f.Blocks {
		if innermostLoop(loops, b) != nil {
			continue
		}
		sorted := false // a SortVersions call earlier in the same block
		for _, in := range b.Instrs {
			if staticCalleeName(in) == "resolve.SortVersions" {
				sorted = true
			}
			if mu, ok := in.(*ssa.MapUpdate); ok {
				if fv := nearestField(mu.Map); fv != nil && fieldOwnerKey(p, fv) == "resolve.LocalClient.PackageVersions" {
					nStores++
					if !sorted {
						stores[b] = true
					}
				}
			}
		}
	}
	n := 0
	for _, b := range f.Blocks {
		for i, in := range b.Instrs {
			c, ok := in.(*ssa.Call)
			if !ok {
				continue
			}
			bi, ok := c.Call.Value.(*ssa.Builtin)
			if !ok || bi.Name() != "append" || !strings.HasSuffix(c.Type().String(), "[]deps.dev/util/resolve.Version") {
				continue
			}
			n++
			key := fmt.Sprintf("%s: append of a version #%d is followed by SortVersions", fnKey(f), n)
			path := mustPassFrom(b, i, stores, func(x ssa.Instruction) bool {
				return staticCalleeName(x) == "resolve.SortVersions"
			}, true)
			if path != nil {
				r.bad(rule, key, p.pos(c.Pos()), "a path from the append of a new version to the store of the version list skips SortVersions: for npm the place of a version depends on the latest tag of the others, so the list a package reports depends on the order of the AddVersion calls", pathPositions(p, path)...)
			} else {
				r.ok(rule, key, p.pos(c.Pos()), "every path to the store of the version list calls SortVersions")
			}
		}
	}
	// a replaced element changes the attributes the order depends on (npm's latest tag) just as a new one does
	nRep := 0
	for _, b := range f.Blocks {
		for i, in := range b.Instrs {
			st, ok := in.(*ssa.Store)
			if !ok {
				continue
			}
			ia, ok := st.Addr.(*ssa.IndexAddr)
			if !ok || !strings.HasSuffix(ia.X.Type().String(), "[]deps.dev/util/resolve.Version") {
				continue
			}
			nRep++
			key := fmt.Sprintf("%s: replacement of a version #%d is followed by SortVersions", fnKey(f), nRep)
			path := mustPassFrom(b, i, stores, func(x ssa.Instruction) bool {
				return staticCalleeName(x) == "resolve.SortVersions"
			}, true)
			if path != nil {
				r.bad(rule, key, p.pos(st.Pos()), "a path from the replacement of a stored version to the store of the version list skips SortVersions: the new attributes (npm's latest tag) can change where the version belongs, so the list keeps the order that was right for the old attributes and disagrees with MatchingVersions", pathPositions(p, path)...)
			} else {
				r.ok(rule, key, p.pos(st.Pos()), "every path to the store of the version list calls SortVersions")
			}
		}
	}
	r.floor(rule, "replacements of a stored version in AddVersion", nRep, 1)
	r.floor(rule, "appends to the version list in AddVersion", n, 1)
	if nStores == 0 {
		r.bad(rule, fnKey(f)+": store of the version list", p.pos(f.Pos()), "no store to PackageVersions outside a loop: anchor lost")
	}
}

// argNotRetainedRule: see checkC14 (C14.h).
func argNotRetainedRule(r *Report, p *Prog, e *Effect, rule string) {
	f := p.lookupFn("(*resolve.LocalClient).AddVersion")
	if f == nil {
		r.bad(rule, "(*resolve.LocalClient).AddVersion", "", "function not found: anchor lost")
		return
	}
	var deps *ssa.Parameter
	k := -1
	for i, prm := range f.Params {
		if strings.HasSuffix(prm.Type().String(), "[]deps.dev/util/resolve.RequirementVersion") {
			deps, k = prm, i
		}
	}
	if deps == nil {
		r.bad(rule, fnKey(f)+": requirement slice parameter", p.pos(f.Pos()), "no []RequirementVersion parameter: anchor lost")
		return
	}
	// is v the parameter itself (not a copy)?
	var isParam func(v ssa.Value, d int) bool
	isParam = func(v ssa.Value, d int) bool {
		if d > 6 || v == nil {
			return false
		}
		switch x := v.(type) {
		case *ssa.Parameter:
			return x == deps
		case *ssa.Phi:
			for _, ed := range x.Edges {
				if isParam(ed, d+1) {
					return true
				}
			}
		case *ssa.Slice:
			return isParam(x.X, d+1)
		case *ssa.UnOp:
			if al, ok := x.X.(*ssa.Alloc); ok && x.Op == token.MUL && al.Referrers() != nil {
				for _, rf := range *al.Referrers() {
					if st, ok := rf.(*ssa.Store); ok && st.Addr == al && isParam(st.Val, d+1) {
						return true
					}
				}
			}
		}
		return false
	}
	_ = k
	nUses := 0
	bad := false
	for _, b := range f.Blocks {
		for _, in := range b.Instrs {
			switch x := in.(type) {
			case *ssa.MapUpdate:
				if isParam(x.Value, 0) {
					nUses++
					bad = true
					r.bad(rule, fnKey(f)+": requirement slice stored", p.pos(x.Pos()), "the caller's requirement slice itself is stored in the client: when the caller reuses or edits the slice, what Requirements reports for this version changes")
				}
			case *ssa.Call:
				sc := x.Call.StaticCallee()
				if sc == nil {
					continue
				}
				for j, a := range x.Call.Args {
					if !isParam(a, 0) {
						continue
					}
					nUses++
					writes := sliceMutators[fullName(sc)] && j == 0
					if s := e.sums[sc]; s != nil && j < maxParam {
						for _, o := range s.writes {
							if o.p&(1<<uint(2*j)) != 0 {
								writes = true
							}
						}
					}
					if writes {
						bad = true
						r.bad(rule, fnKey(f)+": requirement slice passed to "+fnKey(sc), p.pos(x.Pos()), "the caller's requirement slice is handed to a function that reorders its argument: AddVersion sorts the caller's data in place")
					}
				}
			}
		}
	}
	if !bad {
		r.ok(rule, fnKey(f)+": requirement slice", p.pos(f.Pos()), "the parameter is copied before it is sorted and stored")
	}
}
