package main

import (
	"fmt"
	"go/ast"
	"go/constant"
	"go/token"
	"go/types"
	"strings"

	"golang.org/x/tools/go/ssa"
)

// loopBoundRule: in fn there is a loop whose header condition compares a
// counter with the named constant's value, the counter is a phi incremented by
// exactly one on every back edge and starts from a constant.
// constName is resolved through the syntax (named constant in fn's package or
// function scope) to its value.
func loopBoundRule(r *Report, p *Prog, rule string, fn *ssa.Function, constName string) {
	key := fnKey(fn) + ": loop bounded by " + constName
	val, ok := lookupConstInFn(p, fn, constName)
	var boundParam *ssa.Parameter
	if !ok {
		// the bound may be a parameter that every caller sets to a constant
		for _, prm := range fn.Params {
			if prm.Name() == constName {
				boundParam = prm
			}
		}
		if boundParam == nil {
			r.bad(rule, key, p.pos(fn.Pos()), "constant "+constName+" no longer declared in or for this function")
			return
		}
		for _, caller := range p.Funcs {
			for _, b := range caller.Blocks {
				for _, in := range b.Instrs {
					if c, ok := in.(ssa.CallInstruction); ok && c.Common().StaticCallee() == fn {
						idx := -1
						for i, prm := range fn.Params {
							if prm == boundParam {
								idx = i
							}
						}
						if _, isConst := c.Common().Args[idx].(*ssa.Const); !isConst {
							r.bad(rule, key, p.pos(in.Pos()), "the bound "+constName+" is a parameter and this caller does not pass a constant")
							return
						}
					}
				}
			}
		}
	}
	for _, l := range naturalLoops(fn) {
		// find an If in the loop whose condition involves `phi < const`
		for b := range l.body {
			ifi, ok := b.Instrs[len(b.Instrs)-1].(*ssa.If)
			if !ok {
				continue
			}
			found := false
			var visit func(v ssa.Value, d int)
			visit = func(v ssa.Value, d int) {
				if d > 4 || found {
					return
				}
				if bo, ok := v.(*ssa.BinOp); ok {
					if bo.Op == token.LSS || bo.Op == token.LEQ {
						c, isC := bo.Y.(*ssa.Const)
						if (boundParam != nil && bo.Y == ssa.Value(boundParam)) || (boundParam == nil && isC && c.Value != nil && constant.Compare(c.Value, token.EQL, val)) {
							if phi, ok := bo.X.(*ssa.Phi); ok && phi.Block() == l.header && counterPhi(phi, l) {
								found = true
								return
							}
						}
					}
					visit(bo.X, d+1)
					visit(bo.Y, d+1)
				}
			}
			visit(ifi.Cond, 0)
			if !found {
				continue
			}
			// the false edge of this If (or a conjunct) must leave the loop:
			// some successor chain outside the body.
			exits := false
			for _, s := range b.Succs {
				if !l.body[s] {
					exits = true
				}
			}
			// conditions like `i < N && cond` are split over blocks; accept
			// if b is the header or dominates all back-edge sources.
			domAll := true
			for _, pr := range l.header.Preds {
				if l.body[pr] && !b.Dominates(pr) {
					domAll = false
				}
			}
			if exits && domAll {
				r.ok(rule, key, blockPos(p, b), "loop condition compares a counter (0, +1 per iteration, never reset) with "+constName+" and its failure leaves the loop")
				return
			}
		}
	}
	r.bad(rule, key, p.pos(fn.Pos()), "no loop in this function is bounded by "+constName+" through a monotone counter any more")
}

// counterPhi: phi at the loop header with one constant entry edge and back
// edges that are phi+1.
func counterPhi(phi *ssa.Phi, l *loop) bool {
	okEntry, okBack := false, false
	for i, e := range phi.Edges {
		pred := phi.Block().Preds[i]
		if !l.body[pred] {
			if _, ok := e.(*ssa.Const); ok {
				okEntry = true
			} else {
				return false
			}
			continue
		}
		bo, ok := e.(*ssa.BinOp)
		if !ok || bo.Op != token.ADD || bo.X != ssa.Value(phi) {
			return false
		}
		c, ok := bo.Y.(*ssa.Const)
		if !ok || c.Value == nil || !constant.Compare(c.Value, token.EQL, constant.MakeInt64(1)) {
			return false
		}
		okBack = true
	}
	return okEntry && okBack
}

// lookupConstInFn resolves a named constant declared inside fn or at package
// level of fn's package (or, as pkg.Name, of another in-scope package).
func lookupConstInFn(p *Prog, fn *ssa.Function, name string) (constant.Value, bool) {
	pk := p.Pkgs[p.pkgOfFn(fn).Pkg.Path()]
	if pk == nil {
		return nil, false
	}
	syn := fn.Syntax()
	for id, obj := range pk.TypesInfo.Defs {
		c, ok := obj.(*types.Const)
		if !ok || id.Name != name {
			continue
		}
		if c.Parent() == pk.Types.Scope() {
			return c.Val(), true
		}
		if syn != nil && syn.Pos() <= id.Pos() && id.Pos() <= syn.End() {
			return c.Val(), true
		}
	}
	// qualified: search all in-scope packages' package-level constants
	for _, q := range p.Pkgs {
		if c, ok := q.Types.Scope().Lookup(name).(*types.Const); ok {
			return c.Val(), true
		}
	}
	return nil, false
}

// trimChainNonEmpty discharges x[0] where x = strings.TrimLeft(z[i:], C), z =
// strings.Trim/TrimRight(_, C0), every byte of C is in C0 and i is the result of
// a strings.Index* call on z: the slice did not panic, so 0 <= i < len(z); z is
// then non-empty and its last byte is outside C0, hence outside C, so TrimLeft
// leaves at least that byte. Any other producer (TrimSpace, another cutset) is
// not proven.
func trimChainNonEmpty(p *Prog, n ast.Node) (bool, string) {
	ix, ok := n.(*ast.IndexExpr)
	if !ok {
		return false, "not an index expression"
	}
	for _, f := range p.Funcs {
		if f.Syntax() == nil || f.Syntax().Pos() > ix.Pos() || ix.End() > f.Syntax().End() {
			continue
		}
		for _, b := range f.Blocks {
			for _, in := range b.Instrs {
				var x, idx ssa.Value
				switch lk := in.(type) {
				case *ssa.Lookup:
					if lk.Pos() == ix.Lbrack {
						x, idx = lk.X, lk.Index
					}
				case *ssa.Index:
					if lk.Pos() == ix.Lbrack {
						x, idx = lk.X, lk.Index
					}
				}
				if x == nil {
					continue
				}
				if k, ok := idx.(*ssa.Const); !ok || k.Value == nil || k.Int64() != 0 {
					return false, "index is not the constant 0"
				}
				tl, ok := x.(*ssa.Call)
				if !ok || staticCalleeName(tl) != "strings.TrimLeft" {
					return false, "the indexed string is not the result of strings.TrimLeft"
				}
				c, ok := ssaConstString(tl.Call.Args[1])
				if !ok {
					return false, "TrimLeft cutset is not a constant"
				}
				sl, ok := tl.Call.Args[0].(*ssa.Slice)
				if !ok || sl.High != nil || sl.Low == nil {
					return false, "TrimLeft is not applied to a suffix z[i:]"
				}
				z, ok := sl.X.(*ssa.Call)
				if !ok || (staticCalleeName(z) != "strings.Trim" && staticCalleeName(z) != "strings.TrimRight") {
					return false, "the suffix is not taken from the result of strings.Trim/TrimRight"
				}
				c0, ok := ssaConstString(z.Call.Args[1])
				if !ok {
					return false, "Trim cutset is not a constant"
				}
				for _, ch := range c {
					if !strings.ContainsRune(c0, ch) {
						return false, fmt.Sprintf("TrimLeft removes %q, which the outer Trim does not: the remainder can be trimmed to nothing", string(ch))
					}
				}
				ic, ok := sl.Low.(*ssa.Call)
				if !ok || !strings.HasPrefix(staticCalleeName(ic), "strings.Index") || len(ic.Call.Args) == 0 || ic.Call.Args[0] != ssa.Value(z) {
					return false, "the suffix does not start at an index found in the same string"
				}
				return true, fmt.Sprintf("TrimLeft(z[i:], %q) with z = %s(_, %q) and i = %s(z, _)", c, staticCalleeName(z), c0, staticCalleeName(ic))
			}
		}
	}
	return false, "no string index instruction found at this position"
}

func ssaConstString(v ssa.Value) (string, bool) {
	k, ok := v.(*ssa.Const)
	if !ok || k.Value == nil || k.Value.Kind() != constant.String {
		return "", false
	}
	return constant.StringVal(k.Value), true
}
