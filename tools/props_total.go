package main

import (
	"encoding/json"
	"fmt"
	"go/ast"
	"go/constant"
	"go/token"
	"go/types"
	"os"
	"path/filepath"
	"sort"
	"strings"

	"golang.org/x/tools/go/packages"
	"golang.org/x/tools/go/ssa"
)

type totalityReq struct {
	Expr  string   `json:"expr"`
	Facts []string `json:"facts"`
	Count int      `json:"count"` // how many sites with this expression must satisfy the facts (0 = all)
}

type totalityFn struct {
	Fn       string        `json:"fn"`
	Sites    int           `json:"sites"`
	Kind     string        `json:"kind"`
	Why      string        `json:"why"`
	Exprs    []string      `json:"exprs"`
	Requires []totalityReq `json:"requires"`
}

type reviewedItem struct {
	Fn   string `json:"fn"`
	Text string `json:"text"`
	Why  string `json:"why"`
}

type reviewedSCC struct {
	Members []string `json:"members"`
	Kind    string   `json:"kind"`
	Why     string   `json:"why"`
}

type totalityTable struct {
	Kinds     map[string]string `json:"kinds"`
	Functions []totalityFn      `json:"functions"`
	Panics    []reviewedItem    `json:"panics"`
	Asserts   []reviewedItem    `json:"asserts"`
	SCCs      []reviewedSCC     `json:"sccs"`
	NilSpan   []reviewedItem    `json:"nil_span"`
}

func loadTotality() *totalityTable {
	var t totalityTable
	names := []string{"totality_table.json", "totality_extra.json"}
	if archOverride == "386" {
		names = append(names, "totality_386.json")
	}
	for _, name := range names {
		b, err := os.ReadFile(filepath.Join(verifDir(), "tools", name))
		if err != nil {
			fatalf("cannot read %s: %v", name, err)
		}
		var part totalityTable
		if err := json.Unmarshal(b, &part); err != nil {
			fatalf("%s: %v", name, err)
		}
		if part.Kinds != nil {
			t.Kinds = part.Kinds
		}
		t.Functions = append(t.Functions, part.Functions...)
		t.Panics = append(t.Panics, part.Panics...)
		t.Asserts = append(t.Asserts, part.Asserts...)
		t.SCCs = append(t.SCCs, part.SCCs...)
		t.NilSpan = append(t.NilSpan, part.NilSpan...)
	}
	return &t
}

func inScopeFile(f string) bool {
	if !strings.HasPrefix(f, repoRoot+"/util/") || strings.Contains(f, "internal/resolvetest") || strings.HasSuffix(f, "_test.go") {
		return false
	}
	base := filepath.Base(f)
	return !strings.HasSuffix(base, "_string.go") && base != "stringer.go"
}

func checkC04(r *Report) {
	p := loadResolve("", true)
	tab := loadTotality()
	r.Trusted = append(r.Trusted, "the gc compiler's prove pass (go build -gcflags=-d=ssa/check_bce/debug=1) for the set of bounds checks that remain",
		"the guard-fact derivation in /verif/tools/facts.go (AST dominance by enclosing/preceding terminating conditions, invalidated by intervening assignments)",
		"the reviewed invariants in /verif/tools/totality_table.json and totality_extra.json (kinds other than guard facts are argued in text and trusted)",
		"go/types, go/ssa, VTA call graph")
	r.Explain = "Obligations for 'every entry point returns a value or an error'. C04.1 BOUNDS: the obligation set is every index/slice bounds check the gc compiler's prove pass cannot remove in the in-scope packages (the compiler only analyses; nothing runs). Each site must fall in a function reviewed in totality_table.json, within that function's reviewed budget, and where the reviewed argument is a dominating test the required guard facts are re-derived from the syntax tree on every run (deleting the guard, or adding an unreviewed index expression, alarms). C04.2 PANICS: every explicit panic and every single-result type assertion in scope is enumerated and must be on the reviewed list. C04.3 PB-DEREF: a field read through a singular sub-message pointer of an API Requirements response must be dominated by a nil test (or use the nil-safe getter). C04.4 RECURSION: every non-trivial SCC of the in-scope call graph must carry a reviewed reason, re-checked where it has a shape: visited-map (recursive call dominated by a lookup-and-exit and an update of the same map), consumes-input (removing the calls dominated by a successful accept/HasPrefix of a non-empty literal leaves the SCC acyclic), ancestor-guard (a loop walking a parent chain with an error exit dominates the recursive call). C04.5 LOOP-BOUNDS: the four loop-bound constants still bound a monotone counter. C04.6 ENUM-INDEX: package-level tables indexed by an enumeration are as long as the enumeration. C04.7 NIL-SPAN: in package semver an empty span carries nil bounds; every dereference (direct, or through a callee that dereferences its parameter without a nil test, computed to a fixpoint) of a *Version loaded from a span's min/max field is dominated by a test that excludes the empty span or nil, or is on a short reviewed list. Not decided: termination of other loops, stack depth of recursion that is linear in the input size, memory exhaustion, panics inside the standard library or gRPC."
	r.Assume = []string{"values of named integer types are among their declared constants when they index a table (System values come from the package's own constants)", "protobuf-go never yields nil elements in repeated fields and RPC results are non-nil when err == nil"}

	// ---- C04.1
	sites, err := unprovenBounds(p)
	if err != nil {
		r.bad("C04.1/BOUNDS", "go build", "", err.Error())
		return
	}
	sites = locateBounds(p, sites)
	sortSites(sites)
	byFn := map[string][]bceSite{}
	nIn := 0
	for _, s := range sites {
		if !inScopeFile(s.file) {
			continue
		}
		nIn++
		if s.node == nil {
			r.bad("C04.1/BOUNDS", fmt.Sprintf("%s:%d", strings.TrimPrefix(s.file, repoRoot+"/"), s.line), relPos(token.Position{Filename: s.file, Line: s.line, Column: s.col}), "the compiler reports an unproven bounds check here but no index, slice or call expression was found at that position")
			continue
		}
		byFn[s.fn] = append(byFn[s.fn], s)
	}
	reviewed := map[string]*totalityFn{}
	for i := range tab.Functions {
		e := &tab.Functions[i]
		if old := reviewed[e.Fn]; old != nil {
			// an architecture-specific supplement adds to the function's budget
			old.Sites += e.Sites
			old.Exprs = append(old.Exprs, e.Exprs...)
			old.Requires = append(old.Requires, e.Requires...)
			continue
		}
		reviewed[e.Fn] = e
	}
	pms := map[*ast.File]parentMap{}
	factsAt := func(n ast.Node) map[string]bool {
		out := map[string]bool{}
		for f := range p.fileOf {
			if f.Pos() <= n.Pos() && n.Pos() <= f.End() {
				if pms[f] == nil {
					pms[f] = buildParents(f)
				}
				for _, g := range guardFactsAt(n, pms[f]) {
					out[g.text] = true
				}
			}
		}
		return out
	}
	kinds := map[string]int{}
	nGuardChecked := 0
	var fns []string
	for fn := range byFn {
		fns = append(fns, fn)
	}
	sort.Strings(fns)
	for _, fn := range fns {
		ss := byFn[fn]
		ent := reviewed[fn]
		if ent == nil {
			for i, s := range ss {
				r.bad("C04.1/BOUNDS", fmt.Sprintf("%s: %s #%d", fn, s.expr, i+1), p.pos(s.pos), "an index/slice expression whose bounds check the compiler cannot remove, in a function with no reviewed invariant: show that it cannot go out of range (or guard it) and add the function to totality_table.json")
			}
			continue
		}
		known := map[string]bool{}
		for _, e := range ent.Exprs {
			known[e] = true
		}
		req := map[string][]string{}
		reqCount := map[string]int{}
		reqHeld := map[string]int{}
		lastMissing := map[string]string{}
		for _, q := range ent.Requires {
			req[q.Expr] = q.Facts
			reqCount[q.Expr] = q.Count
		}
		unknown := 0
		present := map[string]bool{}
		for _, s := range ss {
			present[s.expr] = true
		}
		seenExpr := map[string]int{}
		for _, s := range ss {
			seenExpr[s.expr]++
			key := fmt.Sprintf("%s: %s #%d", fn, s.expr, seenExpr[s.expr])
			if !known[s.expr] {
				unknown++
				// a renamed variable keeps the shape of a reviewed expression that is no
				// longer present under its old spelling; anything else is a new expression
				renamed := ""
				for _, e := range ent.Exprs {
					if !present[e] && exprShape(e) == exprShape(s.expr) {
						renamed = e
					}
				}
				switch {
				case len(ss) > ent.Sites:
					r.bad("C04.1/BOUNDS", key, p.pos(s.pos), fmt.Sprintf("this function now has %d unproven bounds checks but only %d were reviewed, and this expression is not among them", len(ss), ent.Sites))
				case renamed != "":
					r.ok("C04.1/BOUNDS", key, p.pos(s.pos), "same shape as the reviewed expression "+renamed+" (identifiers renamed), within the reviewed budget ("+ent.Kind+")")
				default:
					r.bad("C04.1/BOUNDS", key, p.pos(s.pos), "a bounds-checked expression of a form that was not reviewed appears in a reviewed function (the count is within budget, but no reviewed expression that has gone has this shape): the reviewed argument does not cover it")
				}
				continue
			}
			if facts, ok := req[s.expr]; ok {
				have := factsAt(s.node)
				var missing []string
				for _, f := range facts {
					if f == "ssa:trim-chain" {
						ok, why := trimChainNonEmpty(p, s.node)
						if os.Getenv("DEPSCHECK_DEBUG") != "" {
							fmt.Fprintln(os.Stderr, "trim-chain", p.pos(s.pos), ok, why)
						}
						if !ok {
							missing = append(missing, "non-empty after trimming ("+why+")")
						}
						continue
					}
					if !have[f] {
						missing = append(missing, f)
					}
				}
				nGuardChecked++
				if len(missing) > 0 && reqCount[s.expr] > 0 {
					lastMissing[s.expr] = fmt.Sprintf("%s: %v", p.pos(s.pos), missing)
					// only some sites with this text are guard-dependent
					kinds[ent.Kind+" (reviewed)"]++
					r.ok("C04.1/BOUNDS", key, p.pos(s.pos), ent.Kind+": "+ent.Why)
					continue
				}
				if len(missing) == 0 {
					reqHeld[s.expr]++
				}
				if len(missing) > 0 {
					r.bad("C04.1/BOUNDS", key, p.pos(s.pos), fmt.Sprintf("the reviewed argument needs the dominating condition(s) %q, which no longer hold at this expression: it can now go out of range", missing))
					continue
				}
				kinds["guard facts re-derived"]++
				r.ok("C04.1/BOUNDS", key, p.pos(s.pos), fmt.Sprintf("%s; dominating conditions %q re-derived", ent.Kind, facts))
				continue
			}
			kinds[ent.Kind+" (reviewed)"]++
			r.ok("C04.1/BOUNDS", key, p.pos(s.pos), ent.Kind+": "+ent.Why)
		}
		for e, c := range reqCount {
			if c > 0 && seenExpr[e] > 0 && reqHeld[e] < c {
				r.bad("C04.1/BOUNDS", fmt.Sprintf("%s: %s guard", fn, e), p.pos(ss[0].pos), fmt.Sprintf("%d occurrences of this expression were reviewed as dominated by %q; only %d still are (missing at %s)", c, req[e], reqHeld[e], lastMissing[e]))
			}
		}
		if len(ss) > ent.Sites && unknown == 0 {
			r.bad("C04.1/BOUNDS", fn+": budget", p.pos(ss[0].pos), fmt.Sprintf("%d unproven bounds checks, %d reviewed", len(ss), ent.Sites))
		}
	}
	r.floor("C04.1/BOUNDS", "unproven bounds checks in scope", nIn, 200)
	r.floor("C04.1/BOUNDS", "sites whose guard facts are re-derived", nGuardChecked, 60)
	r.Stats["bounds_discharge_classes"] = kinds
	r.Stats["bounds_sites_total_reported_by_compiler"] = len(sites)

	// ---- C04.2 panics and assertions
	panicsAndAsserts(r, p, tab)
	// ---- C04.3
	pbDerefRule(r, p)
	// ---- C04.4
	recursionRule(r, p, tab)
	// ---- C04.5
	for _, lb := range []struct{ fn, c string }{
		{"(*maven.Project).ProcessDependencies", "MaxImports"},
		{"(*resolve.APIClient).fetchMavenParents", "MaxMavenParent"},
		{"(*resolve/pypi.resolution).resolve", "maxRounds"},
		{"(*resolve/maven.resolver).Resolve", "maxRetries"},
	} {
		f := p.lookupFn(lb.fn)
		if f == nil {
			r.bad("C04.5/LOOP-BOUNDS", lb.fn+": loop bounded by "+lb.c, "", "function not found: anchor lost")
			continue
		}
		loopBoundRule(r, p, "C04.5/LOOP-BOUNDS", f, lb.c)
	}
	// ---- C04.6
	enumIndexRule(r, p)
	// ---- C04.7
	okN, badN := nilSpanRule(p)
	for i, f := range okN {
		r.ok("C04.7/NIL-SPAN", fmt.Sprintf("%s: span.%s dereferenced by %s #%d", fnKey(f.fn), f.field, derefName(f.use), i+1), p.pos(f.use.Pos()), "dominated by a test that excludes the empty span (rank) or nil")
	}
	for i, f := range badN {
		key := fmt.Sprintf("%s: span.%s dereferenced by %s #%d", fnKey(f.fn), f.field, derefName(f.use), i+1)
		why := ""
		for _, it := range tab.NilSpan {
			if it.Fn == fnKey(f.fn) && strings.Contains(derefName(f.use), it.Text) {
				why = it.Why
			}
		}
		if why != "" {
			r.ok("C04.7/NIL-SPAN", key, p.pos(f.use.Pos()), "reviewed: "+why)
		} else {
			r.bad("C04.7/NIL-SPAN", key, p.pos(f.use.Pos()), "a *Version loaded from a span's "+f.field+" field is dereferenced here (directly or by the callee) with no dominating test that the span is not the empty span: empty spans carry nil bounds, so this panics for an empty operand")
		}
	}
	r.floor("C04.7/NIL-SPAN", "dereferences of span.min/max in package semver", len(okN)+len(badN), 15)
	// ---- C04.8
	errNilRule(r, p, "C04.8/ERR-NIL")
	nCV := constraintImpliesVersionsRule(r, p, "C04.9/CONSTRAINT-IMPLIES-VERSIONS")
	r.floor("C04.9/CONSTRAINT-IMPLIES-VERSIONS", "stores of a marker comparison's constraint", nCV, 1)
}

func derefName(in ssa.Instruction) string {
	if n := staticCalleeName(in); n != "" {
		return n
	}
	return "field access"
}

// panicsAndAsserts enumerates explicit panics and unchecked type assertions.
func panicsAndAsserts(r *Report, p *Prog, tab *totalityTable) {
	revP := map[string]string{}
	for _, it := range tab.Panics {
		revP[it.Fn+"|"+it.Text] = it.Why
	}
	revA := map[string]string{}
	for _, it := range tab.Asserts {
		revA[it.Fn+"|"+it.Text] = it.Why
	}
	nP, nA := 0, 0
	var files []*ast.File
	for f := range p.fileOf {
		files = append(files, f)
	}
	sort.Slice(files, func(i, j int) bool { return files[i].Pos() < files[j].Pos() })
	for _, f := range files {
		fname := p.Fset.Position(f.Pos()).Filename
		if !inScopeFile(fname) {
			continue
		}
		pk := p.fileOf[f]
		pm := buildParents(f)
		ast.Inspect(f, func(n ast.Node) bool {
			switch x := n.(type) {
			case *ast.CallExpr:
				if id, ok := x.Fun.(*ast.Ident); ok && id.Name == "panic" {
					if _, isBuiltin := pk.TypesInfo.Uses[id].(*types.Builtin); isBuiltin {
						nP++
						fn := p.enclosingFuncName(x.Pos())
						text := types.ExprString(x)
						key := fn + ": " + text
						if why, ok := revP[fn+"|"+text]; ok {
							if fn == "resolve/pypi.(markerExpr).Eval" {
								if pf := p.lookupFn("(*resolve/pypi.envParser).parseMarkerExpr"); pf != nil {
									if found, prop, pos := errPropagated(pf, "semver.System).ParseConstraint"); !found || !prop {
										r.bad("C04.2/PANICS", key, p.pos(pos), "the reviewed reason no longer holds: parseMarkerExpr swallows the error of ParseConstraint, so a ~= expression without a constraint reaches this panic")
										return true
									}
								}
							}
							r.ok("C04.2/PANICS", key, p.pos(x.Pos()), "reviewed: "+why)
						} else {
							r.bad("C04.2/PANICS", key, p.pos(x.Pos()), "an explicit panic that is not on the reviewed list: show it is unreachable from text input (and list it with the reason) or return an error")
						}
					}
				}
			case *ast.TypeAssertExpr:
				if x.Type == nil {
					return true // type switch
				}
				// comma-ok forms are safe
				switch par := pm[x].(type) {
				case *ast.AssignStmt:
					if len(par.Lhs) == 2 && len(par.Rhs) == 1 {
						return true
					}
				case *ast.ValueSpec:
					if len(par.Names) == 2 {
						return true
					}
				}
				nA++
				fn := p.enclosingFuncName(x.Pos())
				text := types.ExprString(x)
				key := fn + ": " + text
				if why, ok := revA[fn+"|"+text]; ok {
					r.ok("C04.2/ASSERTS", key, p.pos(x.Pos()), "reviewed: "+why)
				} else {
					r.bad("C04.2/ASSERTS", key, p.pos(x.Pos()), "a single-result type assertion (panics on mismatch) that is not on the reviewed list")
				}
			}
			return true
		})
	}
	r.floor("C04.2/PANICS", "explicit panics in scope", nP, 5)
	r.floor("C04.2/ASSERTS", "single-result type assertions in scope", nA, 4)
}

// pbDerefRule: field reads through singular sub-message pointers of Requirements responses.
func pbDerefRule(r *Report, p *Prog) {
	pk := p.pkg("resolve")
	isReqMsgPtr := func(t types.Type) bool {
		pt, ok := t.(*types.Pointer)
		if !ok {
			return false
		}
		nt, ok := pt.Elem().(*types.Named)
		if !ok || nt.Obj().Pkg() == nil {
			return false
		}
		// every generated message of the API packages (responses of all RPCs, not only Requirements)
		_, isStruct := nt.Underlying().(*types.Struct)
		return strings.HasPrefix(nt.Obj().Pkg().Path(), "deps.dev/api/") && isStruct
	}
	n, nGetter := 0, 0
	for _, f := range pk.Syntax {
		pm := buildParents(f)
		ast.Inspect(f, func(nd ast.Node) bool {
			sel, ok := nd.(*ast.SelectorExpr)
			if !ok {
				return true
			}
			tv, ok := pk.TypesInfo.Types[sel.X]
			if !ok || !isReqMsgPtr(tv.Type) {
				return true
			}
			s := pk.TypesInfo.Selections[sel]
			if s == nil {
				return true
			}
			if s.Kind() != types.FieldVal {
				nGetter++
				return true // method call: generated getters are nil-safe
			}
			// Is the base itself a singular message field, or a parameter?
			base := ast.Unparen(sel.X)
			risky := false
			what := ""
			switch b := base.(type) {
			case *ast.SelectorExpr:
				if bs := pk.TypesInfo.Selections[b]; bs != nil && bs.Kind() == types.FieldVal {
					risky = true
					what = "singular sub-message field " + types.ExprString(b)
				}
			case *ast.Ident:
				if v, ok := pk.TypesInfo.Uses[b].(*types.Var); ok {
					// parameters of message type are fed from response fields
					if isParam(pk, v) {
						risky = true
						what = "parameter " + b.Name + " (fed from a response field)"
					}
				}
			}
			if !risky {
				return true
			}
			n++
			key := p.enclosingFuncName(sel.Pos()) + ": " + types.ExprString(sel)
			want := types.ExprString(base) + " != nil"
			have := false
			for _, g := range guardFactsAt(sel, pm) {
				if g.text == want {
					have = true
				}
			}
			if have {
				r.ok("C04.3/PB-DEREF", key, p.pos(sel.Pos()), "dominated by "+want)
			} else {
				r.bad("C04.3/PB-DEREF", key, p.pos(sel.Pos()), "field read through "+what+" without a dominating nil test: a response that omits the sub-message makes the client panic (use the generated getter)")
			}
			return true
		})
	}
	r.floor("C04.3/PB-DEREF", "accesses to Requirements messages through nil-safe getters or guarded fields", n+nGetter, 20)
}

func isParam(pk *packages.Package, v *types.Var) bool {
	for _, f := range pk.Syntax {
		found := false
		ast.Inspect(f, func(n ast.Node) bool {
			var ft *ast.FuncType
			switch x := n.(type) {
			case *ast.FuncDecl:
				ft = x.Type
			case *ast.FuncLit:
				ft = x.Type
			}
			if ft != nil && ft.Params != nil {
				for _, fl := range ft.Params.List {
					for _, nm := range fl.Names {
						if pk.TypesInfo.Defs[nm] == v {
							found = true
						}
					}
				}
			}
			return !found
		})
		if found {
			return true
		}
	}
	return false
}

// ---- recursion -------------------------------------------------------------

func recursionRule(r *Report, p *Prog, tab *totalityTable) {
	sccs := recursiveSCCs(p)
	rev := map[string]*reviewedSCC{}
	for i := range tab.SCCs {
		ms := append([]string{}, tab.SCCs[i].Members...)
		sort.Strings(ms)
		rev[strings.Join(ms, ",")] = &tab.SCCs[i]
	}
	for _, comp := range sccs {
		key := "SCC {" + strings.Join(comp, ", ") + "}"
		ent := rev[strings.Join(comp, ",")]
		var pos string
		var fns []*ssa.Function
		for _, m := range comp {
			if f := p.lookupFn(m); f != nil {
				fns = append(fns, f)
				if pos == "" {
					pos = p.pos(f.Pos())
				}
			}
		}
		if ent == nil {
			r.bad("C04.4/RECURSION", key, pos, "a recursion cycle with no reviewed termination argument: bound it by a visited set, by consumed input, or by the structure it descends, and list it in totality_extra.json")
			continue
		}
		switch ent.Kind {
		case "visited-map":
			if why := checkVisitedMap(p, fns); why != "" {
				r.bad("C04.4/RECURSION", key, pos, "reviewed as visited-map, but "+why)
			} else {
				r.ok("C04.4/RECURSION", key, pos, "visited-map (re-checked: every recursive call is dominated by a lookup-and-exit on a map parameter and by an update of that map): "+ent.Why)
			}
		case "consumes-input":
			if why := checkConsumesInput(p, fns); why != "" {
				r.bad("C04.4/RECURSION", key, pos, "reviewed as consumes-input, but "+why)
			} else {
				r.ok("C04.4/RECURSION", key, pos, "consumes-input (re-checked: without the calls dominated by a successful match of a non-empty literal the component is acyclic): "+ent.Why)
			}
		case "ancestor-guard":
			if why := checkAncestorGuard(p, fns); why != "" {
				r.bad("C04.4/RECURSION", key, pos, "reviewed as ancestor-guard, but "+why)
			} else {
				r.ok("C04.4/RECURSION", key, pos, "ancestor-guard (re-checked: a loop that walks a parent chain and exits with an error dominates the recursive call): "+ent.Why)
			}
		default:
			r.ok("C04.4/RECURSION", key, pos, ent.Kind+" (trusted): "+ent.Why)
		}
	}
	r.floor("C04.4/RECURSION", "recursive components of the in-scope call graph", len(sccs), 6)
}

func inSet(fns []*ssa.Function, f *ssa.Function) bool {
	for _, x := range fns {
		if x == f || (f != nil && f.Origin() == x) {
			return true
		}
	}
	return false
}

// recursive call sites inside the component
func recCalls(fns []*ssa.Function) []*ssa.Call {
	var out []*ssa.Call
	for _, f := range fns {
		for _, b := range f.Blocks {
			for _, in := range b.Instrs {
				if c, ok := in.(*ssa.Call); ok {
					if sc := c.Common().StaticCallee(); sc != nil && inSet(fns, sc) {
						out = append(out, c)
					}
					// recursive closure called through a captured variable
					if c.Common().StaticCallee() == nil && !c.Common().IsInvoke() && len(fns) == 1 && fns[0].Parent() != nil {
						out = append(out, c)
					}
				}
			}
		}
	}
	return out
}

func dominatesInstr(a ssa.Instruction, b ssa.Instruction) bool {
	if a.Block() == b.Block() {
		for _, in := range a.Block().Instrs {
			if in == a {
				return true
			}
			if in == b {
				return false
			}
		}
	}
	return a.Block().Dominates(b.Block())
}

func checkVisitedMap(p *Prog, fns []*ssa.Function) string {
	calls := recCalls(fns)
	if len(calls) == 0 {
		return "no recursive call was found"
	}
	for _, c := range calls {
		f := c.Parent()
		ok := false
		for _, prm := range f.Params {
			if _, isMap := prm.Type().Underlying().(*types.Map); !isMap {
				continue
			}
			upd, look := false, false
			for _, b := range f.Blocks {
				for _, in := range b.Instrs {
					switch x := in.(type) {
					case *ssa.MapUpdate:
						if x.Map == ssa.Value(prm) && dominatesInstr(x, c) {
							upd = true
						}
					case *ssa.If:
						if condDerives(x.Cond, 0, func(v ssa.Value) bool {
							l, ok := v.(*ssa.Lookup)
							return ok && l.X == ssa.Value(prm)
						}) && b.Dominates(c.Block()) && b != c.Block() {
							look = true
						}
					}
				}
			}
			// the map must be passed on unchanged
			passed := false
			for _, a := range c.Common().Args {
				if a == ssa.Value(prm) {
					passed = true
				}
			}
			if upd && look && passed {
				ok = true
			}
		}
		if !ok {
			return "the recursive call at " + p.pos(c.Pos()) + " is no longer dominated by a lookup-and-exit and an update of a visited map that is passed along"
		}
	}
	return ""
}

// guardedByLiteralMatch: the call is dominated by the true edge of
// accept("lit") / strings.HasPrefix(s, lit-from-nonempty-list).
func guardedByLiteralMatch(c *ssa.Call) bool {
	f := c.Parent()
	for _, b := range f.Blocks {
		ifi, ok := b.Instrs[len(b.Instrs)-1].(*ssa.If)
		if !ok {
			continue
		}
		cond := ifi.Cond
		neg := false
		if u, ok := cond.(*ssa.UnOp); ok && u.Op == token.NOT {
			cond = u.X
			neg = true
		}
		call, ok := cond.(*ssa.Call)
		if !ok {
			continue
		}
		name := staticCalleeName(call)
		good := false
		switch {
		case strings.HasSuffix(name, "envParser).accept"):
			if k, ok := call.Common().Args[1].(*ssa.Const); ok && k.Value != nil && k.Value.Kind() == constant.String && len(constant.StringVal(k.Value)) > 0 {
				good = true
			}
		case name == "strings.HasPrefix":
			good = true // non-emptiness of the literal list is checked on the syntax tree
		}
		if !good {
			continue
		}
		succ := b.Succs[0]
		if neg {
			succ = b.Succs[1]
		}
		if succ.Dominates(c.Block()) && len(succ.Preds) == 1 {
			return true
		}
	}
	return false
}

func checkConsumesInput(p *Prog, fns []*ssa.Function) string {
	// edges of the component that are NOT guarded by a literal match
	adj := map[*ssa.Function][]*ssa.Function{}
	for _, c := range recCalls(fns) {
		if guardedByLiteralMatch(c) {
			continue
		}
		callee := c.Common().StaticCallee()
		if callee == nil {
			return "a recursive call through a function value cannot be classified"
		}
		adj[c.Parent()] = append(adj[c.Parent()], callee)
	}
	// acyclic?
	state := map[*ssa.Function]int{}
	var cyc func(f *ssa.Function) bool
	cyc = func(f *ssa.Function) bool {
		state[f] = 1
		for _, g := range adj[f] {
			if state[g] == 1 || (state[g] == 0 && cyc(g)) {
				return true
			}
		}
		state[f] = 2
		return false
	}
	for _, f := range fns {
		if state[f] == 0 && cyc(f) {
			return "there is a cycle of calls none of which is preceded by a successful match of a non-empty literal: the recursion can repeat without consuming input"
		}
	}
	// HasPrefix-guarded recursion: the prefixes must be non-empty literals
	for _, f := range fns {
		fd, ok := f.Syntax().(*ast.FuncDecl)
		if !ok {
			continue
		}
		pk := p.Pkgs[p.pkgOfFn(f).Pkg.Path()]
		bad := ""
		ast.Inspect(fd.Body, func(n ast.Node) bool {
			rs, ok := n.(*ast.RangeStmt)
			if !ok {
				return true
			}
			if cl, ok := rs.X.(*ast.CompositeLit); ok {
				for _, e := range cl.Elts {
					if s, ok := constString(pk, e); ok && s == "" {
						bad = "the literal list ranged over contains an empty string, so a match need not consume input"
					}
				}
			}
			return true
		})
		if bad != "" {
			return bad
		}
	}
	return ""
}

func checkAncestorGuard(p *Prog, fns []*ssa.Function) string {
	for _, c := range recCalls(fns) {
		f := c.Parent()
		ok := false
		for _, l := range naturalLoops(f) {
			// header phi advanced by a load of a field named parent
			walks := false
			for _, in := range l.header.Instrs {
				phi, isPhi := in.(*ssa.Phi)
				if !isPhi {
					continue
				}
				for _, e := range phi.Edges {
					if u, ok := e.(*ssa.UnOp); ok && u.Op == token.MUL {
						if fv, base := fieldOfAddr(u.X); fv != nil && fv.Name() == "parent" && base == ssa.Value(phi) {
							walks = true
						}
					}
				}
			}
			if !walks {
				continue
			}
			errExit := false
			for b := range l.body {
				for _, s := range b.Succs {
					if !l.body[s] {
						if ret, ok := s.Instrs[len(s.Instrs)-1].(*ssa.Return); ok && !isSuccessReturn(ret) {
							errExit = true
						}
					}
				}
			}
			if errExit && l.header.Dominates(c.Block()) {
				ok = true
			}
		}
		if !ok {
			return "the recursive call at " + p.pos(c.Pos()) + " is no longer dominated by a loop that walks the parent chain and returns an error when the version reappears"
		}
	}
	return ""
}

// enumIndexRule: package-level tables indexed by an enumeration type.
func enumIndexRule(r *Report, p *Prog) {
	n := 0
	var files []*ast.File
	for f := range p.fileOf {
		files = append(files, f)
	}
	sort.Slice(files, func(i, j int) bool { return files[i].Pos() < files[j].Pos() })
	for _, f := range files {
		if !inScopeFile(p.Fset.Position(f.Pos()).Filename) {
			continue
		}
		pk := p.fileOf[f]
		ast.Inspect(f, func(nd ast.Node) bool {
			ix, ok := nd.(*ast.IndexExpr)
			if !ok {
				return true
			}
			id, ok := ast.Unparen(ix.X).(*ast.Ident)
			if !ok {
				return true
			}
			v, ok := pk.TypesInfo.Uses[id].(*types.Var)
			if !ok || v.Parent() != pk.Types.Scope() {
				return true
			}
			var length int64 = -1
			switch t := v.Type().Underlying().(type) {
			case *types.Array:
				length = t.Len()
			case *types.Slice:
				if cl, ok := pkgVarInit(pk, v.Name()).(*ast.CompositeLit); ok {
					length = compositeLen(pk, cl)
				}
			default:
				return true
			}
			// index type through conversions
			idx := ast.Unparen(ix.Index)
			for {
				call, ok := idx.(*ast.CallExpr)
				if !ok || len(call.Args) != 1 {
					break
				}
				if tv, ok := pk.TypesInfo.Types[call.Fun]; !ok || !tv.IsType() {
					break
				}
				idx = ast.Unparen(call.Args[0])
			}
			tv, ok := pk.TypesInfo.Types[idx]
			if !ok {
				return true
			}
			nt, ok := tv.Type.(*types.Named)
			if !ok || nt.Obj().Pkg() == nil || !inScopePath(nt.Obj().Pkg().Path()) {
				return true
			}
			if b, ok := nt.Underlying().(*types.Basic); !ok || b.Info()&types.IsInteger == 0 {
				return true
			}
			var max int64 = -1
			maxName := ""
			sc := nt.Obj().Pkg().Scope()
			for _, name := range sc.Names() {
				if c, ok := sc.Lookup(name).(*types.Const); ok && types.Identical(c.Type(), nt) {
					if cv, ok := constToInt(types.TypeAndValue{Value: c.Val()}); ok && cv > max {
						max, maxName = cv, name
					}
				}
			}
			if max < 0 {
				return true
			}
			n++
			key := fmt.Sprintf("%s: %s[%s]", p.enclosingFuncName(ix.Pos()), v.Name(), short(nt.String()))
			switch {
			case length < 0:
				r.bad("C04.6/ENUM-INDEX", key, p.pos(ix.Pos()), "cannot determine the length of the table")
			case length > max:
				r.ok("C04.6/ENUM-INDEX", key, p.pos(ix.Pos()), fmt.Sprintf("table has %d entries, the largest %s constant is %s = %d", length, nt.Obj().Name(), maxName, max))
			default:
				r.bad("C04.6/ENUM-INDEX", key, p.pos(ix.Pos()), fmt.Sprintf("table has %d entries but %s = %d: indexing with that system panics", length, maxName, max))
			}
			return true
		})
	}
	r.floor("C04.6/ENUM-INDEX", "package-level tables indexed by an enumeration", n, 1)
}

// compositeLen computes the length of a slice/array literal with optional keys.
func compositeLen(pk *packages.Package, cl *ast.CompositeLit) int64 {
	var next, max int64
	for _, e := range cl.Elts {
		if kv, ok := e.(*ast.KeyValueExpr); ok {
			if k, ok := constInt64(pk, kv.Key); ok {
				next = k
			}
		}
		next++
		if next > max {
			max = next
		}
	}
	return max
}

// exprShape replaces the identifiers of an expression text by positional
// placeholders ($1, $2, ... in order of first appearance; builtins and
// literals stay), so that renaming variables keeps the shape.
func exprShape(s string) string {
	var b strings.Builder
	names := map[string]int{}
	i := 0
	isStart := func(c byte) bool { return c == '_' || c >= 'a' && c <= 'z' || c >= 'A' && c <= 'Z' }
	isPart := func(c byte) bool { return isStart(c) || c >= '0' && c <= '9' }
	for i < len(s) {
		c := s[i]
		switch {
		case c == '"' || c == '\'' || c == '`':
			j := i + 1
			for j < len(s) && s[j] != c {
				if s[j] == '\\' {
					j++
				}
				j++
			}
			if j < len(s) {
				j++
			}
			b.WriteString(s[i:j])
			i = j
		case isStart(c):
			j := i
			for j < len(s) && isPart(s[j]) {
				j++
			}
			w := s[i:j]
			switch w {
			case "len", "cap", "int", "string", "byte", "nil", "true", "false":
				b.WriteString(w)
			default:
				if _, ok := names[w]; !ok {
					names[w] = len(names) + 1
				}
				fmt.Fprintf(&b, "$%d", names[w])
			}
			i = j
		default:
			b.WriteByte(c)
			i++
		}
	}
	return b.String()
}
