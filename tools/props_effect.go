package main

import (
	"encoding/json"
	"fmt"
	"go/token"
	"go/types"
	"os"
	"path/filepath"
	"sort"
	"strings"

	"golang.org/x/tools/go/ssa"
)

// resolveRoots returns the Resolve methods of every in-scope type that
// implements resolve.Resolver.
func resolveRoots(p *Prog) []*ssa.Function {
	var roots []*ssa.Function
	for _, f := range p.Funcs {
		if f.Name() != "Resolve" || f.Signature.Recv() == nil || f.Synthetic != "" {
			continue
		}
		pk := p.pkgOfFn(f).Pkg.Path()
		if pk == modPrefix+"resolve/npm" || pk == modPrefix+"resolve/maven" || pk == modPrefix+"resolve/pypi" {
			if implementsIface(p, f.Signature.Recv().Type(), "Resolver") {
				roots = append(roots, f)
			}
		}
	}
	return roots
}

func implementsIface(p *Prog, t types.Type, name string) bool {
	obj := p.pkg("resolve").Types.Scope().Lookup(name)
	if obj == nil {
		fatalf("resolve.%s not found", name)
	}
	it := obj.Type().Underlying().(*types.Interface)
	return types.Implements(t, it)
}

// clientMethods returns, per implementing type, the methods that implement
// resolve.Client (matched through the interface, not by a name list).
func clientMethods(p *Prog) map[string][]*ssa.Function {
	obj := p.pkg("resolve").Types.Scope().Lookup("Client")
	it := obj.Type().Underlying().(*types.Interface)
	names := map[string]bool{}
	for i := 0; i < it.NumMethods(); i++ {
		names[it.Method(i).Name()] = true
	}
	out := map[string][]*ssa.Function{}
	for _, f := range p.Funcs {
		if f.Signature.Recv() == nil || f.Synthetic != "" || !names[f.Name()] {
			continue
		}
		rt := f.Signature.Recv().Type()
		if types.Implements(rt, it) {
			k := short(rt.String())
			out[k] = append(out[k], f)
		}
	}
	return out
}

// receiverWriteWhitelist: fields of a client that its read methods may write, with the reason.
var receiverWriteWhitelist = map[string]string{
	"resolve.APIClient.bundledVersions": "cache of bundled versions discovered by Requirements; guarded by bundledVersionsMu (rule C18/LOCKSET)",
}

func fieldOwnerKey(p *Prog, f *types.Var) string {
	if f == nil {
		return ""
	}
	// find the struct type declaring f among in-scope named types
	for _, pk := range p.Pkgs {
		sc := pk.Types.Scope()
		for _, n := range sc.Names() {
			tn, ok := sc.Lookup(n).(*types.TypeName)
			if !ok {
				continue
			}
			st, ok := tn.Type().Underlying().(*types.Struct)
			if !ok {
				continue
			}
			for i := 0; i < st.NumFields(); i++ {
				if st.Field(i) == f {
					return short(pk.PkgPath) + "." + n + "." + f.Name()
				}
			}
		}
	}
	return f.Name()
}

func effectTrusted(r *Report) {
	r.Trusted = append(r.Trusted, "go/types, go/ssa (x/tools v0.29.0), VTA call graph seeded with CHA",
		"library models in /verif/tools/effect.go: sort.*, slices.*, append, copy, delete, clear write their first argument; slices.Clone/maps.Clone return fresh memory",
		"Go type safety in scope (the run asserts that no in-scope package imports unsafe or cgo)")
}

func siteKey(fn *ssa.Function, s *site) string {
	if fn == s.fn {
		return fnKey(fn) + ": " + s.desc
	}
	return fnKey(fn) + " -> " + fnKey(s.fn) + ": " + s.desc
}

// ownershipRule emits rule C05.a-style obligations for the functions in reach.
func ownershipRule(r *Report, p *Prog, e *Effect, rule string, reach map[*ssa.Function]bool) (nSites, nSrc int) {
	bad := map[*site][]*effReport{}
	for _, rep := range e.sortedReports() {
		if reach[rep.fn] {
			bad[rep.site] = append(bad[rep.site], rep)
		}
	}
	sites := append([]*site{}, e.allSites...)
	sort.Slice(sites, func(i, j int) bool {
		if a, b := fnKey(sites[i].fn), fnKey(sites[j].fn); a != b {
			return a < b
		}
		if sites[i].pos != sites[j].pos {
			return sites[i].pos < sites[j].pos
		}
		return sites[i].desc < sites[j].desc
	})
	for _, s := range sites {
		if !reach[s.fn] || !(s.client || s.cache) {
			continue
		}
		nSites++
		if reps := bad[s]; len(reps) > 0 {
			for _, rep := range reps {
				via := ""
				if rep.via != "" {
					via = " through the call to " + rep.via
				}
				r.bad(rule, siteKey(rep.fn, s)+" ["+rep.origin+"]", p.pos(rep.pos),
					fmt.Sprintf("memory owned by the %s is written: %s at %s%s", rep.origin, s.desc, p.pos(s.pos), via),
					"write: "+p.pos(s.pos)+" in "+fnKey(s.fn))
			}
			continue
		}
		r.ok(rule, fnKey(s.fn)+": "+s.desc, p.pos(s.pos), "the origin set of the written region never contains client or cache memory on any call path")
	}
	for _, sc := range e.srcCalls {
		if reach[sc.fn] {
			nSrc++
		}
	}
	return
}

func checkC05(r *Report) {
	p := loadResolve("", true)
	e := runEffect(p)
	effectTrusted(r)
	r.Explain = "Ownership/effect analysis on go/ssa over everything reachable (VTA call graph) from the three Resolve methods. C05.a OWN: every value obtained from a resolve.Client interface call (and from a resolver-lifetime lru cache) is tracked with direct/deep origin facts through fields, slices, maps, closures, local cells (flow- and field-sensitive) and function summaries; every primitive write site (store, map update, append, copy, sort.*/slices.* mutators) whose region type could be client or cache memory must never see such an origin. C05.b READ-PURE: the resolve.Client methods of each implementing type write nothing reachable from their receiver (one whitelisted field, lock-guarded). C05.c RESOLVER-STATE: no field of a resolver is written after construction and Resolve stores to no package-level variable. C05.d CACHE-PURE: a function that adds to a resolver-lifetime lru cache reads (transitively, closures included) no per-call field of the struct that holds the cache, so a cached value is a function of its key and the client only and cannot carry one resolution's root into the next. C05.f CACHE-KEY: the value added to a resolver-lifetime cache is computed from the key it is stored under: in a backward slice of the value (stopping at the key itself) the only parameters of the filling function that appear, besides the receiver and the context, are the key, so no two inputs with different results share an entry. C05.g MAP-RANGE: every range over a map reachable from the Resolve methods is on a reviewed table with the reason its (randomised) order cannot reach the canonicalised result; loops reviewed as set-building or edges-only are re-checked on their body. C05.e CACHE-ON-SUCCESS: a value produced by a call that also returns an error is added to a resolver-lifetime cache only where that error is known to be nil, so a failed computation is not replayed as a success by later resolutions. This decides the structural clause 'resolution never mutates what the client handed out or resolver-lifetime state'; it does not decide equality of graphs."
	r.Assume = []string{"out-of-scope callees (std, grpc, protobuf) do not write memory reachable from their arguments unless modelled", "values returned by resolve.Client implementations alias client state (worst case)"}
	roots := resolveRoots(p)
	r.floor("C05.a/OWN", "Resolve methods of resolve.Resolver implementations", len(roots), 3)
	reach := p.reachableFrom(roots)
	nSites, nSrc := ownershipRule(r, p, e, "C05.a/OWN", reach)
	r.floor("C05.a/OWN", "client source call sites reachable from Resolve", nSrc, 15)
	r.floor("C05.a/OWN", "write sites on client/cache-capable region types reachable from Resolve", nSites, 12)
	nMut := 0
	for _, s := range e.allSites {
		if reach[s.fn] && (strings.HasPrefix(s.kind, "sort.") || strings.HasPrefix(s.kind, "slices.")) {
			nMut++
		}
	}
	r.floor("C05.a/OWN", "modelled library mutator call sites reachable from Resolve", nMut, 6)

	// C05.b
	n := readPureRule(r, p, e, "C05.b/READ-PURE", "")
	r.floor("C05.b/READ-PURE", "resolve.Client methods of in-scope implementations", n, 8)

	// C05.c
	resolverStateRule(r, p, e, roots)
	// C05.d
	cachePureRule(r, p, e)
	// C05.e
	cacheOnSuccessRule(r, p)
	cacheKeyRule(r, p)
	mapRangeRule(r, p, roots)
	depOrderTotalRule(r, p, "C05.h/DEP-ORDER-TOTAL")
	nCI := cacheIndexAgreesRule(r, p, "C05.i/CACHE-INDEX-AGREES")
	r.floor("C05.i/CACHE-INDEX-AGREES", "index updates in the instantiations of the Add method of the resolver-lifetime LRU cache", nCI, 4)
	r.Stats["functions_in_scope"] = len(p.Funcs)
	r.Stats["functions_reachable_from_Resolve"] = len(reach)
	r.Stats["summary_passes"] = e.passes
	r.Stats["call_sites_analysed"] = e.nCalls
	r.note("the three PyPI lru caches are not synchronised; the property's quantifier uses one PyPI resolver per goroutine, so this is recorded, not armed")
}

// readPureRule checks that Client read methods write nothing reachable from the receiver.
func readPureRule(r *Report, p *Prog, e *Effect, rule, onlyType string) int {
	n := 0
	cms := clientMethods(p)
	for _, tname := range sortedKeys(cms) {
		if onlyType != "" && !strings.HasSuffix(tname, onlyType) {
			continue
		}
		ms := cms[tname]
		sort.Slice(ms, func(i, j int) bool { return ms[i].Name() < ms[j].Name() })
		for _, m := range ms {
			n++
			s := e.sums[m]
			clean := true
			type kv struct{ k, pos, why string }
			var bads []kv
			var allowed []string
			for st, o := range s.writes {
				if o.p&paramBits(0) == 0 {
					continue
				}
				fk := fieldOwnerKey(p, st.field)
				if why, ok := receiverWriteWhitelist[fk]; ok {
					allowed = append(allowed, fk+" ("+why+")")
					continue
				}
				clean = false
				bads = append(bads, kv{siteKey(m, st), p.pos(st.pos), "a read method of a resolve.Client writes memory reachable from its receiver: " + st.desc + " in " + fnKey(st.fn)})
			}
			sort.Slice(bads, func(i, j int) bool { return bads[i].k+bads[i].pos < bads[j].k+bads[j].pos })
			for _, b := range bads {
				r.bad(rule, b.k, b.pos, b.why)
			}
			if clean {
				how := "no write site in the call closure carries a receiver origin"
				if len(allowed) > 0 {
					sort.Strings(allowed)
					how += "; whitelisted: " + strings.Join(dedup(allowed), "; ")
				}
				r.ok(rule, fnKey(m), p.pos(m.Pos()), how)
			}
		}
	}
	return n
}

func dedup(ss []string) []string {
	var out []string
	for i, s := range ss {
		if i == 0 || s != ss[i-1] {
			out = append(out, s)
		}
	}
	return out
}

// resolverStateRule: who-may-write on the fields of the resolver structs.
func resolverStateRule(r *Report, p *Prog, e *Effect, roots []*ssa.Function) {
	rule := "C05.c/RESOLVER-STATE"
	structs := map[*types.Struct]string{}
	fields := map[*types.Var]string{}
	for _, root := range roots {
		rt := root.Signature.Recv().Type()
		if pt, ok := rt.Underlying().(*types.Pointer); ok {
			rt = pt.Elem()
		}
		st, ok := rt.Underlying().(*types.Struct)
		if !ok {
			r.bad(rule, fnKey(root)+": receiver", p.pos(root.Pos()), "receiver is not a struct; the rule cannot enumerate resolver state")
			continue
		}
		structs[st] = short(rt.String())
		for i := 0; i < st.NumFields(); i++ {
			fields[st.Field(i)] = short(rt.String()) + "." + st.Field(i).Name()
		}
	}
	violated := map[string]bool{}
	// state the analysis cannot follow: a container of package sync (or an
	// atomic box) is written through its methods, which are not store sites,
	// and hands its contents out as interface values
	for fv, name := range fields {
		if c := opaqueContainer(fv.Type(), 0); c != "" {
			violated[name] = true
			r.bad(rule, "field "+name+": followable state", p.pos(fv.Pos()), "the resolver keeps state in a "+c+": what is stored there lives across resolutions, and values loaded from it are shared with every later call, but neither is visible to the ownership analysis (undecided; a memo of parsed dependencies kept this way let one resolution's inherited exclusions leak into the next)")
		}
	}
	nStores := 0
	for _, f := range p.Funcs {
		for _, b := range f.Blocks {
			for _, ins := range b.Instrs {
				st, ok := ins.(*ssa.Store)
				if !ok {
					continue
				}
				fa, ok := st.Addr.(*ssa.FieldAddr)
				if !ok {
					continue
				}
				stt, ok := fa.X.Type().Underlying().(*types.Pointer).Elem().Underlying().(*types.Struct)
				if !ok || structs[stt] == "" {
					continue
				}
				nStores++
				fname := structs[stt] + "." + stt.Field(fa.Field).Name()
				if al, ok := fa.X.(*ssa.Alloc); ok && al.Parent() == f {
					r.ok(rule, fnKey(f)+": initialises "+fname, p.pos(st.Pos()), "store into a resolver freshly allocated in the same function (constructor)")
					continue
				}
				violated[fname] = true
				r.bad(rule, fnKey(f)+": stores "+fname, p.pos(st.Pos()), "a field of a resolver is written after construction: state shared between resolutions")
			}
		}
	}
	// writes into memory held directly by resolver fields (maps, slices)
	for _, s := range e.allSites {
		if s.kind == "store" || s.field == nil || fields[s.field] == "" {
			continue
		}
		violated[fields[s.field]] = true
		r.bad(rule, fnKey(s.fn)+": "+s.desc, p.pos(s.pos), "memory held by resolver field "+fields[s.field]+" is written in place")
	}
	for _, fv := range sortedVals(fields) {
		if !violated[fv] {
			r.ok(rule, "field "+fv, "", "never stored to after construction and never updated in place (pointer-typed fields designate the client, decided by C05.a/b, or an lru cache, whose values are sources for C05.a)")
		}
	}
	r.floor(rule, "resolver struct fields", len(fields), 5)
	r.floor(rule, "constructor stores into resolver fields", nStores, 5)
	for _, root := range roots {
		s := e.sums[root]
		var gs []string
		for g := range s.wglobal {
			gs = append(gs, short(g.String()))
		}
		sort.Strings(gs)
		if len(gs) > 0 {
			r.bad(rule, fnKey(root)+": global stores", p.pos(root.Pos()), "Resolve may store to package-level variables: "+strings.Join(gs, ", "))
		} else {
			r.ok(rule, fnKey(root)+": global stores", p.pos(root.Pos()), "no store to a package-level variable anywhere in the call closure")
		}
	}
}

// opaqueContainer names a sync.Map / sync.Pool / atomic.Value / atomic.Pointer
// held by value (directly, in an array or in an embedded struct) in t.
func opaqueContainer(t types.Type, d int) string {
	if d > 3 {
		return ""
	}
	if n, ok := t.(*types.Named); ok && n.Obj().Pkg() != nil {
		switch n.Obj().Pkg().Path() + "." + n.Obj().Name() {
		case "sync.Map", "sync.Pool", "sync/atomic.Value", "sync/atomic.Pointer":
			return n.Obj().Pkg().Path() + "." + n.Obj().Name()
		}
	}
	switch u := t.Underlying().(type) {
	case *types.Struct:
		for i := 0; i < u.NumFields(); i++ {
			if c := opaqueContainer(u.Field(i).Type(), d+1); c != "" {
				return c
			}
		}
	case *types.Array:
		return opaqueContainer(u.Elem(), d+1)
	case *types.Pointer:
		if d == 0 {
			return opaqueContainer(u.Elem(), d+1)
		}
	}
	return ""
}

func sortedVals(m map[*types.Var]string) []string {
	var out []string
	for _, v := range m {
		out = append(out, v)
	}
	sort.Strings(out)
	return out
}

// cachePureRule (C05.d): functions that populate a resolver-lifetime cache read
// no per-call state of the struct holding the cache.
func cachePureRule(r *Report, p *Prog, e *Effect) {
	rule := "C05.d/CACHE-PURE"
	isCachePtr := func(t types.Type) bool { return strings.Contains(t.String(), "internal/lru.Cache[") }
	n := 0
	for _, f := range p.Funcs {
		if f.Synthetic != "" {
			continue
		}
		for _, b := range f.Blocks {
			for _, in := range b.Instrs {
				call, ok := in.(*ssa.Call)
				if !ok {
					continue
				}
				sc := call.Common().StaticCallee()
				if sc == nil || !isLruMethod(sc, "Add") {
					continue
				}
				// the cache is a field of some struct: find it
				fv := nearestField(call.Common().Args[0])
				if fv == nil {
					continue
				}
				var owner *types.Struct
				ownerName := ""
				for _, pk := range p.Pkgs {
					sc := pk.Types.Scope()
					for _, nm := range sc.Names() {
						if tn, ok := sc.Lookup(nm).(*types.TypeName); ok {
							if st, ok := tn.Type().Underlying().(*types.Struct); ok {
								for i := 0; i < st.NumFields(); i++ {
									if st.Field(i) == fv {
										owner, ownerName = st, short(pk.PkgPath)+"."+nm
									}
								}
							}
						}
					}
				}
				if owner == nil {
					continue
				}
				n++
				key := fnKey(f) + ": fills " + ownerName + "." + fv.Name()
				var perCall []string
				reads := fieldsReadBefore(e, call)
				for i := 0; i < owner.NumFields(); i++ {
					fld := owner.Field(i)
					if isCachePtr(fld.Type()) || isClientIface(fld.Type()) {
						continue
					}
					if reads[fld] {
						perCall = append(perCall, fld.Name())
					}
				}
				sort.Strings(perCall)
				if len(perCall) > 0 {
					r.bad(rule, key, p.pos(call.Pos()), "the function that computes and caches this value reads per-call state ("+ownerName+"."+strings.Join(perCall, ", ")+"): the cache outlives the call, so a later resolution on the same resolver can be served a value computed for another root")
				} else {
					r.ok(rule, key, p.pos(call.Pos()), "the call closure reads only the client and cache fields of "+ownerName)
				}
			}
		}
	}
	r.floor(rule, "call sites that add to a resolver-lifetime cache", n, 3)
}

// fieldsReadBefore collects the struct fields read (directly, through callees
// or through closures created) in the blocks of call's function from which the
// call is reachable: the code that can contribute to the values it is given.
func fieldsReadBefore(e *Effect, call *ssa.Call) map[*types.Var]bool {
	f := call.Parent()
	reach := map[*ssa.BasicBlock]bool{}
	stack := []*ssa.BasicBlock{call.Block()}
	for len(stack) > 0 {
		b := stack[len(stack)-1]
		stack = stack[:len(stack)-1]
		if reach[b] {
			continue
		}
		reach[b] = true
		stack = append(stack, b.Preds...)
	}
	out := map[*types.Var]bool{}
	addSum := func(g *ssa.Function) {
		if s := e.sums[g]; s != nil {
			for fv := range s.fields {
				out[fv] = true
			}
		}
	}
	for _, b := range f.Blocks {
		if !reach[b] {
			continue
		}
		for _, in := range b.Instrs {
			switch x := in.(type) {
			case *ssa.FieldAddr:
				out[x.X.Type().Underlying().(*types.Pointer).Elem().Underlying().(*types.Struct).Field(x.Field)] = true
			case *ssa.Field:
				out[x.X.Type().Underlying().(*types.Struct).Field(x.Field)] = true
			case *ssa.MakeClosure:
				addSum(x.Fn.(*ssa.Function))
			case ssa.CallInstruction:
				if sc := x.Common().StaticCallee(); sc != nil {
					addSum(sc)
				}
				for _, t := range e.callees[x] {
					addSum(t)
				}
			}
		}
	}
	return out
}

// cacheOnSuccessRule (C05.e): cache.Add(k, v) with v produced by a call that
// also returns an error must be dominated by the err == nil side of a test of
// that very error.
func cacheOnSuccessRule(r *Report, p *Prog) {
	rule := "C05.e/CACHE-ON-SUCCESS"
	n := 0
	var producers func(v ssa.Value, depth int, out *[]*ssa.Call)
	producers = func(v ssa.Value, depth int, out *[]*ssa.Call) {
		if depth > 8 {
			return
		}
		switch x := v.(type) {
		case *ssa.Extract:
			if c, ok := x.Tuple.(*ssa.Call); ok {
				*out = append(*out, c)
			}
		case *ssa.Call:
			// value passed through a helper such as slices.Clone
			for _, a := range x.Common().Args {
				producers(a, depth+1, out)
			}
		case *ssa.UnOp:
			if al, ok := x.X.(*ssa.Alloc); ok {
				for _, ref := range *al.Referrers() {
					if st, ok := ref.(*ssa.Store); ok && st.Addr == ssa.Value(al) {
						producers(st.Val, depth+1, out)
					}
				}
				return
			}
			producers(x.X, depth+1, out)
		case *ssa.Phi:
			for _, e := range x.Edges {
				producers(e, depth+1, out)
			}
		case *ssa.ChangeType:
			producers(x.X, depth+1, out)
		case *ssa.MakeInterface:
			producers(x.X, depth+1, out)
		case *ssa.Slice:
			producers(x.X, depth+1, out)
		}
	}
	for _, f := range p.Funcs {
		if f.Synthetic != "" {
			continue
		}
		for _, b := range f.Blocks {
			for _, in := range b.Instrs {
				call, ok := in.(*ssa.Call)
				if !ok {
					continue
				}
				sc := call.Common().StaticCallee()
				if sc == nil || !isLruMethod(sc, "Add") || len(call.Common().Args) < 3 {
					continue
				}
				if strings.Contains(p.pkgOfFn(f).Pkg.Path(), "internal/lru") {
					continue
				}
				n++
				key := fnKey(f) + ": value added to " + fieldNameOf(call.Common().Args[0])
				var prods []*ssa.Call
				producers(call.Common().Args[2], 0, &prods)
				var prod *ssa.Call
				okGuard := true
				fallible := 0
				for _, pc := range prods {
					res := pc.Common().Signature().Results()
					if res.Len() < 2 || res.At(res.Len()-1).Type().String() != "error" {
						continue
					}
					fallible++
					if !errKnownNil(f, pc, call) {
						okGuard = false
						prod = pc
					} else if prod == nil {
						prod = pc
					}
				}
				if fallible == 0 {
					r.ok(rule, key, p.pos(call.Pos()), "the cached value is not the result of a fallible call")
					continue
				}
				if okGuard {
					r.ok(rule, key, p.pos(call.Pos()), "added only where the error returned by "+lastCallName(prod)+" is known to be nil")
				} else {
					r.bad(rule, key, p.pos(call.Pos()), "the value returned by "+lastCallName(prod)+" is cached on a path where its error has not been found nil: a failed computation is stored in the resolver-lifetime cache and later resolutions are served it as a success")
				}
			}
		}
	}
	r.floor(rule, "call sites that add to a resolver-lifetime cache", n, 3)
}

func fieldNameOf(v ssa.Value) string {
	if f := nearestField(v); f != nil {
		return f.Name()
	}
	return short(v.Type().String())
}

// errKnownNil: the block of `at` is protected by a test of the error result of call pc.
func errKnownNil(f *ssa.Function, pc *ssa.Call, at *ssa.Call) bool {
	res := pc.Common().Signature().Results()
	var errVal ssa.Value
	for _, ref := range *pc.Referrers() {
		if ex, ok := ref.(*ssa.Extract); ok && ex.Index == res.Len()-1 {
			errVal = ex
		}
	}
	if errVal == nil {
		return false
	}
	isErr := func(v ssa.Value) bool {
		if v == errVal {
			return true
		}
		if u, ok := v.(*ssa.UnOp); ok {
			if al, ok := u.X.(*ssa.Alloc); ok {
				for _, ref := range *al.Referrers() {
					if st, ok := ref.(*ssa.Store); ok && st.Val == errVal {
						return true
					}
				}
			}
		}
		return false
	}
	for _, g := range f.Blocks {
		ifi, ok := g.Instrs[len(g.Instrs)-1].(*ssa.If)
		if !ok {
			continue
		}
		bo, ok := ifi.Cond.(*ssa.BinOp)
		if !ok || (bo.Op != token.NEQ && bo.Op != token.EQL) {
			continue
		}
		var other ssa.Value
		if isErr(bo.X) {
			other = bo.Y
		} else if isErr(bo.Y) {
			other = bo.X
		} else {
			continue
		}
		if c, ok := other.(*ssa.Const); !ok || !c.IsNil() {
			continue
		}
		failSucc := g.Succs[0]
		if bo.Op == token.EQL {
			failSucc = g.Succs[1]
		}
		if guardedBy(g, failSucc, at.Block()) {
			return true
		}
	}
	return false
}

// cacheKeyRule (C05.f): cache.Add(k, v): v depends on the parameters of the
// filling function only through k.
func cacheKeyRule(r *Report, p *Prog) {
	rule := "C05.f/CACHE-KEY"
	n := 0
	perFn := map[*ssa.Function]int{}
	// cell returns the parameter a value is a verbatim copy of: the parameter
	// itself, or a load of the local cell the parameter was spilled to.
	paramOf := func(v ssa.Value) *ssa.Parameter {
		switch x := v.(type) {
		case *ssa.Parameter:
			return x
		case *ssa.UnOp:
			if x.Op == token.MUL {
				if al, ok := x.X.(*ssa.Alloc); ok {
					if q, ok := singleStore(al).(*ssa.Parameter); ok {
						return q
					}
				}
			}
		}
		return nil
	}
	for _, f := range p.Funcs {
		if f.Synthetic != "" {
			continue
		}
		for _, b := range f.Blocks {
			for _, in := range b.Instrs {
				call, ok := in.(*ssa.Call)
				if !ok {
					continue
				}
				sc := call.Common().StaticCallee()
				if sc == nil || !isLruMethod(sc, "Add") || len(call.Common().Args) < 3 {
					continue
				}
				n++
				perFn[f]++
				k, v := call.Common().Args[1], call.Common().Args[2]
				keyParam := paramOf(k)
				// backward slice of v
				seen := map[ssa.Value]bool{}
				var foreign []string
				var walk func(x ssa.Value, depth int)
				walk = func(x ssa.Value, depth int) {
					if x == nil || seen[x] || depth > 60 {
						return
					}
					seen[x] = true
					if x == k {
						return
					}
					if q := paramOf(x); q != nil {
						if keyParam != nil && q == keyParam {
							return
						}
						if q.Parent() == f {
							isRecv := f.Signature.Recv() != nil && len(f.Params) > 0 && q == f.Params[0]
							isCtx := strings.HasSuffix(q.Type().String(), "context.Context")
							if !isRecv && !isCtx {
								foreign = append(foreign, q.Name())
							}
						}
						return
					}
					switch y := x.(type) {
					case *ssa.Alloc:
						// everything stored into the cell (or into its fields/elements)
						if y.Referrers() != nil {
							for _, rf := range *y.Referrers() {
								switch z := rf.(type) {
								case *ssa.Store:
									if z.Addr == y {
										walk(z.Val, depth+1)
									}
								case *ssa.FieldAddr, *ssa.IndexAddr:
									if zr := z.(ssa.Value).Referrers(); zr != nil {
										for _, r2 := range *zr {
											if st, ok := r2.(*ssa.Store); ok && st.Addr == z.(ssa.Value) {
												walk(st.Val, depth+1)
											}
										}
									}
								}
							}
						}
						return
					case *ssa.MakeClosure:
						for _, bnd := range y.Bindings {
							walk(bnd, depth+1)
						}
						return
					case *ssa.Const, *ssa.Global, *ssa.Function, *ssa.Builtin, *ssa.FreeVar:
						return
					}
					if ins, ok := x.(ssa.Instruction); ok {
						for _, op := range ins.Operands(nil) {
							if *op != nil {
								walk(*op, depth+1)
							}
						}
					}
				}
				walk(v, 0)
				// the lookups of the same cache in this function use the same key
				cacheField := nearestField(call.Common().Args[0])
				for _, b2 := range f.Blocks {
					for _, in2 := range b2.Instrs {
						g, ok := in2.(*ssa.Call)
						if !ok || g.Common().StaticCallee() == nil || !isLruMethod(g.Common().StaticCallee(), "Get") || len(g.Common().Args) < 2 {
							continue
						}
						if nearestField(g.Common().Args[0]) != cacheField {
							continue
						}
						gk := g.Common().Args[1]
						same := gk == k || (paramOf(gk) != nil && paramOf(gk) == keyParam)
						gkey := fmt.Sprintf("%s: lookup and store #%d use the same key", fnKey(f), perFn[f])
						if same {
							r.ok(rule, gkey, p.pos(g.Pos()), "Get and Add are given the same value")
						} else {
							r.bad(rule, gkey, p.pos(g.Pos()), "the cache is looked up under one value and filled under another: a lookup can hit an entry that was computed for a different input")
						}
					}
				}
				sort.Strings(foreign)
				foreign = uniqStrings(foreign)
				key := fmt.Sprintf("%s: value cached under its key #%d", fnKey(f), perFn[f])
				switch {
				case len(foreign) > 0 && keyParam != nil:
					r.bad(rule, key, p.pos(call.Pos()), fmt.Sprintf("the cached value is computed from parameter(s) %v but stored under %s: inputs that differ there share one entry, so whichever was seen first decides the result for the others", foreign, keyParam.Name()))
				case len(foreign) > 0:
					r.bad(rule, key, p.pos(call.Pos()), fmt.Sprintf("the cached value is computed from parameter(s) %v, but the key it is stored under is a derived value, not that input: inputs that map to the same key while giving different results share one entry", foreign))
				default:
					r.ok(rule, key, p.pos(call.Pos()), "the value depends on the function's inputs only through the key")
				}
			}
		}
	}
	r.floor(rule, "call sites that add to a resolver-lifetime cache", n, 3)
}

func uniqStrings(s []string) []string {
	var out []string
	for i, x := range s {
		if i == 0 || x != s[i-1] {
			out = append(out, x)
		}
	}
	return out
}

// ---- C05.g MAP-RANGE --------------------------------------------------------

type mapRangeRow struct {
	Fn    string `json:"fn"`
	Map   string `json:"map"`
	Shape string `json:"shape"`
	Why   string `json:"why"`
	Count int    `json:"count"`
}

// mapRangeRule: Go randomises map iteration. Every range over a map that a
// Resolve call can reach is enumerated and must be on the reviewed table with
// the reason why its order cannot reach the (canonicalised) result; the
// shapes "set-building" and "edges-only" are re-checked on the loop body.
func mapRangeRule(r *Report, p *Prog, roots []*ssa.Function) {
	rule := "C05.g/MAP-RANGE"
	var tab struct {
		Ranges []mapRangeRow `json:"ranges"`
	}
	b, err := os.ReadFile(filepath.Join(verifDir(), "tools", "maprange_table.json"))
	if err != nil || json.Unmarshal(b, &tab) != nil {
		r.bad(rule, "maprange_table.json", "", "reviewed table missing or unreadable")
		return
	}
	budget := map[string]*mapRangeRow{}
	left := map[string]int{}
	for i := range tab.Ranges {
		row := &tab.Ranges[i]
		k := row.Fn + "|" + row.Map
		budget[k] = row
		c := row.Count
		if c == 0 {
			c = 1
		}
		left[k] += c
	}
	reach := p.reachableFrom(roots)
	var fs []*ssa.Function
	for f := range reach {
		fs = append(fs, f)
	}
	sort.Slice(fs, func(i, j int) bool { return fnKey(fs[i]) < fnKey(fs[j]) })
	n := 0
	for _, f := range fs {
		ord := map[string]int{}
		var loops []*loop
		for _, blk := range f.Blocks {
			for _, in := range blk.Instrs {
				rg, ok := in.(*ssa.Range)
				if !ok {
					continue
				}
				if _, ok := rg.X.Type().Underlying().(*types.Map); !ok {
					continue
				}
				n++
				mt := short(rg.X.Type().String())
				k := fnKey(f) + "|" + mt
				ord[k]++
				key := fmt.Sprintf("%s: range over %s #%d", fnKey(f), mt, ord[k])
				row := budget[k]
				if row == nil || left[k] == 0 {
					r.bad(rule, key, p.pos(rg.Pos()), "a map is iterated on a path reachable from Resolve and this loop is not on the reviewed table: Go randomises the order, so unless the body is order-insensitive the graph can differ from run to run; show why it cannot and add the loop to maprange_table.json")
					continue
				}
				left[k]--
				// the loop whose header consumes this iterator
				if loops == nil {
					loops = naturalLoops(f)
				}
				var body map[*ssa.BasicBlock]bool
				if rg.Referrers() != nil {
					for _, rf := range *rg.Referrers() {
						if nx, ok := rf.(*ssa.Next); ok {
							if l := innermostLoop(loops, nx.Block()); l != nil {
								body = l.body
							}
						}
					}
				}
				why := ""
				switch row.Shape {
				case "set-building":
					why = mapLoopOnly(body, func(in ssa.Instruction) string {
						switch x := in.(type) {
						case *ssa.Return:
							return "returns from inside the loop"
						case *ssa.Store:
							if _, ok := x.Addr.(*ssa.Alloc); !ok {
								return "stores outside a local variable"
							}
						case ssa.CallInstruction:
							if bi, ok := x.Common().Value.(*ssa.Builtin); ok {
								if bi.Name() == "append" {
									return "appends to a slice (order-sensitive)"
								}
								return ""
							}
							return "calls " + x.Common().Value.Name()
						}
						return ""
					})
				case "edges-only":
					why = mapLoopOnly(body, func(in ssa.Instruction) string {
						if n := staticCalleeName(in); n == "(*resolve.Graph).AddNode" {
							return "adds a node (node numbering would follow the iteration order)"
						}
						if c, ok := in.(ssa.CallInstruction); ok {
							if bi, ok := c.Common().Value.(*ssa.Builtin); ok && bi.Name() == "append" {
								return "appends to a slice (order-sensitive)"
							}
						}
						return ""
					})
				}
				if body == nil && (row.Shape == "set-building" || row.Shape == "edges-only") {
					why = "the loop consuming this iterator was not found"
				}
				if why != "" {
					r.bad(rule, key, p.pos(rg.Pos()), "reviewed as '"+row.Shape+"' ("+row.Why+"), but the loop body now "+why)
				} else {
					how := "reviewed: " + row.Why
					if row.Shape == "set-building" || row.Shape == "edges-only" {
						how = row.Shape + " (re-checked on the loop body): " + row.Why
					}
					r.ok(rule, key, p.pos(rg.Pos()), how)
				}
			}
		}
	}
	r.floor(rule, "ranges over maps reachable from the Resolve methods", n, 12)
}

// mapLoopOnly returns the first complaint of bad about an instruction of the loop body.
func mapLoopOnly(body map[*ssa.BasicBlock]bool, bad func(ssa.Instruction) string) string {
	var blocks []*ssa.BasicBlock
	for b := range body {
		blocks = append(blocks, b)
	}
	sort.Slice(blocks, func(i, j int) bool { return blocks[i].Index < blocks[j].Index })
	for _, b := range blocks {
		for _, in := range b.Instrs {
			if w := bad(in); w != "" {
				return w
			}
		}
	}
	return ""
}
