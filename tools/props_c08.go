package main

import (
	"fmt"
	"go/constant"
	"go/token"
	"go/types"
	"sort"
	"strings"

	"golang.org/x/tools/go/ssa"
)

// checkC08: structural necessary conditions of "a PyPI resolution graph is a
// consistent pip solution". The search itself is not decided.
func checkC08(r *Report) {
	p := loadResolve("", true)
	e := runEffect(p)
	pathTrusted(r)
	effectTrusted(r)
	r.Explain = "Only the clauses of C08 that are visible in the shape of the code are decided; consistency of the backtracking search over all universes is not. C08.a SNAPSHOT-ISOLATED: a new search state is built from Clone/Copy of the previous one (resolution.pushNewState), versionMap.Clone re-makes both its map and its stack and fills them, and criterion.copy re-makes the two maps that are later updated in place, so backtracking to an earlier state finds it unchanged. C08.b VERSIONMAP: the pin table's map and insertion stack are written only by its own Set/Pop/Clone, and Set/Pop update both on every path, so there is one pinned version per package. C08.c GRAPH-SHAPE (buildGraph): a node is added only for a pin that has a route to the root and only when the package has no node yet, the id is recorded in the package-keyed table in the same step (one node per package, every node reachable), and every recorded requirement of a selected package ends in AddEdge, an error return, or the one documented skip (the parent has no node). C08.d ROOT-FIXED: for a requirement on the root's package provider.matchingVersions returns nothing but the root version. C08.h CRITERION-COMPLETE: a criterion built as a struct literal sets every field of the type (a criterion is otherwise derived with copy()); a literal that leaves a field out silently resets what the package had accumulated there (its requested extras, its incompatibilities) when the criterion is patched or merged. C08.g MEMO-NEGATIVE: a recursive search over the (cyclic) parent relation that uses one map both as its on-the-path marker and as its memo of negative answers (marks the node false before recursing, answers false for any node found false) computes a correct answer only for the node the query started from; the false it leaves on nodes met while an ancestor was still on the path is not final. Such a function (hasRouteToRoot) may keep its negatives only after a query that failed; every caller has to discard them on the success side of the call, or a selected version is later judged disconnected and dropped together with the edges to it. C08.f CRIT-MAP-FROZEN: a criterion stored in a search state is shared with the older states kept for backtracking (criteria.Copy is shallow), so its extras/incompatibilities maps are never updated in place: every map update, and every call whose callee (by its effect summary) writes the map it is given, acts on a fresh map or on the maps of a criterion just produced by copy(). C08.e PARENT-KEY: the test by which mergeIntoCriterion decides that a (requirement, parent) pair is already recorded reads every component of the parent that the readers of the recorded parents (buildGraph, hasRouteToRoot) distinguish; otherwise the record of a replaced parent version stands in for the pinned one and the dependency is dropped as disconnected. Not decided: that the selected versions satisfy their specifiers, pip's prerelease rule, marker evaluation, and everything about which candidates the search pins."
	r.Assume = []string{"hasRouteToRoot is correct (its termination is decided under C04.4)"}

	// ---- a. SNAPSHOT-ISOLATED
	if f := p.lookupFn("(*resolve/pypi.resolution).pushNewState"); f == nil {
		r.bad("C08.a/SNAPSHOT-ISOLATED", "resolution.pushNewState", "", "function not found: anchor lost")
	} else {
		// the state literal: every field stored from a call to Clone/Copy
		n := 0
		for _, b := range f.Blocks {
			for _, in := range b.Instrs {
				st, ok := in.(*ssa.Store)
				if !ok {
					continue
				}
				fv, base := fieldOfAddr(st.Addr)
				if fv == nil || !strings.HasPrefix(fieldOwnerKey(p, fv), "resolve/pypi.state.") {
					continue
				}
				if al, ok := base.(*ssa.Alloc); !ok || al.Parent() != f {
					continue
				}
				n++
				key := fnKey(f) + ": new state." + fv.Name()
				if call, ok := st.Val.(*ssa.Call); ok && (strings.HasSuffix(staticCalleeName(call), ").Clone") || strings.HasSuffix(staticCalleeName(call), ").Copy")) {
					r.ok("C08.a/SNAPSHOT-ISOLATED", key, p.pos(st.Pos()), "set from "+staticCalleeName(call)+" of the previous state")
				} else {
					r.bad("C08.a/SNAPSHOT-ISOLATED", key, p.pos(st.Pos()), "the new search state shares this component with the previous state instead of copying it: what is pinned or merged after this point also changes the state that backtracking returns to")
				}
			}
		}
		r.floor("C08.a/SNAPSHOT-ISOLATED", "fields of the new state set in pushNewState", n, 2)
	}
	for _, name := range []string{"(*resolve/pypi.versionMap).Clone"} {
		if f := p.lookupFn(name); f == nil {
			r.bad("C08.a/SNAPSHOT-ISOLATED", name, "", "function not found: anchor lost")
		} else {
			ptrCloneCompleteRule(r, p, "C08.a/SNAPSHOT-ISOLATED", f)
		}
	}
	if f := p.lookupFn("(resolve/pypi.criterion).copy"); f == nil {
		r.bad("C08.a/SNAPSHOT-ISOLATED", "(resolve/pypi.criterion).copy", "", "function not found: anchor lost")
	} else {
		// maps of criterion that are written in place anywhere must be re-made by copy
		st, _ := structOf(f.Signature.Results().At(0).Type())
		written := map[string]bool{}
		for _, s := range e.allSites {
			if s.field != nil && s.kind == "map update" && strings.HasPrefix(fieldOwnerKey(p, s.field), "resolve/pypi.criterion.") {
				written[s.field.Name()] = true
			}
		}
		remade := map[string]bool{}
		for _, b := range f.Blocks {
			for _, in := range b.Instrs {
				sto, ok := in.(*ssa.Store)
				if !ok {
					continue
				}
				fv, _ := fieldOfAddr(sto.Addr)
				if fv == nil || !strings.HasPrefix(fieldOwnerKey(p, fv), "resolve/pypi.criterion.") {
					continue
				}
				switch v := sto.Val.(type) {
				case *ssa.MakeMap, *ssa.MakeSlice:
					remade[fv.Name()] = true
				case *ssa.UnOp:
					if al, ok := v.X.(*ssa.Alloc); ok {
						if _, isMake := singleStore(al).(*ssa.MakeMap); isMake {
							remade[fv.Name()] = true
						}
					}
				case *ssa.Call:
					if strings.HasSuffix(staticCalleeName(v), ".Clone") {
						remade[fv.Name()] = true
					}
				}
			}
		}
		for i := 0; st != nil && i < st.NumFields(); i++ {
			fl := st.Field(i)
			if _, isMap := fl.Type().Underlying().(*types.Map); !isMap {
				continue
			}
			key := fnKey(f) + ": map field " + fl.Name()
			switch {
			case remade[fl.Name()]:
				r.ok("C08.a/SNAPSHOT-ISOLATED", key, p.pos(f.Pos()), "re-made in the copy")
			case written[fl.Name()]:
				r.bad("C08.a/SNAPSHOT-ISOLATED", key, p.pos(f.Pos()), "this map is updated in place elsewhere but the copy shares it: an update made after a copy also changes the criterion kept in an earlier search state")
			default:
				r.ok("C08.a/SNAPSHOT-ISOLATED", key, p.pos(f.Pos()), "shared, and never updated in place anywhere")
			}
		}
	}

	// ---- b. VERSIONMAP
	{
		allowed := nameSet("(*resolve/pypi.versionMap).Set", "(*resolve/pypi.versionMap).Pop", "(*resolve/pypi.versionMap).Clone", "resolve/pypi.newVersionMap")
		n := 0
		for _, s := range e.allSites {
			if s.field == nil || !strings.HasPrefix(fieldOwnerKey(p, s.field), "resolve/pypi.versionMap.") {
				continue
			}
			n++
			key := fnKey(s.fn) + ": " + s.desc
			if allowed[fnKey(s.fn)] {
				r.ok("C08.b/VERSIONMAP", key, p.pos(s.pos), "the pin table is written by its own method")
			} else {
				r.bad("C08.b/VERSIONMAP", key, p.pos(s.pos), "the pin table's map or stack is written outside Set/Pop/Clone: the two can fall out of step (a package pinned twice, or pinned but not iterated)")
			}
		}
		r.floor("C08.b/VERSIONMAP", "write sites on versionMap.m / versionMap.stack", n, 6)
		for _, nm := range []string{"(*resolve/pypi.versionMap).Set", "(*resolve/pypi.versionMap).Pop"} {
			f := p.lookupFn(nm)
			if f == nil {
				r.bad("C08.b/VERSIONMAP", nm, "", "function not found: anchor lost")
				continue
			}
			for _, fld := range []string{"m", "stack"} {
				key := fnKey(f) + ": updates " + fld + " on every path"
				touches := func(b *ssa.BasicBlock) bool {
					for _, in := range b.Instrs {
						switch x := in.(type) {
						case *ssa.MapUpdate:
							if fv := nearestField(x.Map); fv != nil && fv.Name() == fld {
								return true
							}
						case *ssa.Call:
							if bi, ok := x.Common().Value.(*ssa.Builtin); ok && bi.Name() == "delete" {
								if fv := nearestField(x.Common().Args[0]); fv != nil && fv.Name() == fld {
									return true
								}
							}
						case *ssa.Store:
							if fv, _ := fieldOfAddr(x.Addr); fv != nil && fv.Name() == fld {
								return true
							}
						}
					}
					return false
				}
				// paths to a return that follow an emptiness test (Pop on an empty table) are exempt
				path := mustPassBlocksExcept(f, touches, func(b *ssa.BasicBlock) bool {
					ifi, ok := b.Instrs[len(b.Instrs)-1].(*ssa.If)
					if !ok {
						return false
					}
					bo, ok := ifi.Cond.(*ssa.BinOp)
					if !ok || bo.Op != token.EQL {
						return false
					}
					c, ok := bo.X.(*ssa.Call)
					if !ok {
						return false
					}
					bi, ok := c.Common().Value.(*ssa.Builtin)
					return ok && bi.Name() == "len"
				})
				if path != nil {
					pp := pathPositions(p, path)
					r.bad("C08.b/VERSIONMAP", key, pp[len(pp)-1], "a path through this method returns without updating "+fld+": the map and the insertion stack of the pin table fall out of step", pp...)
				} else {
					r.ok("C08.b/VERSIONMAP", key, p.pos(f.Pos()), "every path to a return (except the empty-table return) updates it")
				}
			}
		}
	}

	// ---- c. GRAPH-SHAPE
	if f := p.lookupFn("resolve/pypi.buildGraph"); f == nil {
		r.bad("C08.c/GRAPH-SHAPE", "resolve/pypi.buildGraph", "", "function not found: anchor lost")
	} else {
		var fns []*ssa.Function
		fns = append(fns, f)
		fns = append(fns, f.AnonFuncs...)
		nAdd := 0
		for _, g := range fns {
			for _, b := range g.Blocks {
				for _, in := range b.Instrs {
					if staticCalleeName(in) != "(*resolve.Graph).AddNode" {
						continue
					}
					nAdd++
					node := in.(ssa.Value)
					key := fmt.Sprintf("%s: AddNode #%d", fnKey(g), nAdd)
					// recorded in a package-keyed map in the same block
					recorded := false
					for _, ref := range *node.Referrers() {
						switch x := ref.(type) {
						case *ssa.MapUpdate:
							if x.Value == node && strings.HasSuffix(x.Map.Type().String(), "map[deps.dev/util/resolve.PackageKey]deps.dev/util/resolve.NodeID") {
								recorded = true
							}
						}
					}
					if !recorded {
						r.bad("C08.c/GRAPH-SHAPE", key, p.pos(in.Pos()), "a node is added without recording its id in the package-keyed table in the same step: the one-node-per-package invariant is lost")
						continue
					}
					if g == f {
						r.ok("C08.c/GRAPH-SHAPE", key, p.pos(in.Pos()), "the root node, recorded under the root package when the table is created")
						continue
					}
					// inside the Iterate callback: guarded by the route test and by absence from the table
					route, absent := false, false
					for _, d := range g.Blocks {
						ifi, ok := d.Instrs[len(d.Instrs)-1].(*ssa.If)
						if !ok || !d.Dominates(b) || d == b {
							continue
						}
						if condDerives(ifi.Cond, 0, func(v ssa.Value) bool {
							c, ok := v.(*ssa.Call)
							return ok && staticCalleeName(c) == "resolve/pypi.hasRouteToRoot"
						}) {
							// the no-route side must not reach the AddNode
							for i, s := range d.Succs {
								_ = i
								if !reaches(s, b, d) {
									route = true
								}
							}
						}
						if condDerives(ifi.Cond, 0, func(v ssa.Value) bool {
							ex, ok := v.(*ssa.Extract)
							if !ok || ex.Index != 1 {
								return false
							}
							l, ok := ex.Tuple.(*ssa.Lookup)
							return ok && strings.HasSuffix(l.X.Type().String(), "map[deps.dev/util/resolve.PackageKey]deps.dev/util/resolve.NodeID")
						}) {
							absent = true
						}
					}
					switch {
					case !route:
						r.bad("C08.c/GRAPH-SHAPE", key, p.pos(in.Pos()), "a pinned version gets a node without a dominating hasRouteToRoot test: versions left over from abandoned branches would appear as unreachable nodes")
					case !absent:
						r.bad("C08.c/GRAPH-SHAPE", key, p.pos(in.Pos()), "a node is added without first testing that the package has none: a package could appear at two versions (or the root be replaced)")
					default:
						r.ok("C08.c/GRAPH-SHAPE", key, p.pos(in.Pos()), "dominated by hasRouteToRoot and by the package's absence from the table; id recorded in the same step")
					}
				}
			}
		}
		r.floor("C08.c/GRAPH-SHAPE", "AddNode calls in buildGraph", nAdd, 2)
		// edges loop
		l, _ := depLoopIndexing(f, "informationReqs")
		if l == nil {
			r.bad("C08.c/GRAPH-SHAPE", fnKey(f)+": requirement loop", p.pos(f.Pos()), "the loop over a criterion's recorded requirements was not found: anchor lost")
		} else {
			exempt := []exemption{{"the requiring version has no node (not connected to the root)", func(c ssa.Value) bool {
				return condDerives(c, 0, func(v ssa.Value) bool {
					ex, ok := v.(*ssa.Extract)
					if !ok || ex.Index != 1 {
						return false
					}
					lk, ok := ex.Tuple.(*ssa.Lookup)
					return ok && strings.HasSuffix(lk.X.Type().String(), "map[deps.dev/util/resolve.PackageKey]deps.dev/util/resolve.NodeID")
				})
			}}, {"the requirement was recorded by a version that is not the one selected for its package", func(c ssa.Value) bool {
				return condDerives(c, 0, func(v ssa.Value) bool {
					// a comparison of two version keys, neither a constant (the
					// recorded parent against the node's or the pinned version)
					bo, ok := v.(*ssa.BinOp)
					if !ok || (bo.Op != token.EQL && bo.Op != token.NEQ) || !strings.HasSuffix(bo.X.Type().String(), "resolve.VersionKey") {
						return false
					}
					_, cx := bo.X.(*ssa.Const)
					_, cy := bo.Y.(*ssa.Const)
					return !cx && !cy
				})
			}}}
			// the exemption is on the FALSE edge of `ok`; loopAccount attaches exemptions to true edges,
			// so accept either polarity here by wrapping
			res := loopAccountBoth(l, graphMarkers, exempt)
			key := fnKey(f) + ": every recorded requirement becomes an edge"
			if len(res.unaccounted) > 0 {
				pp := pathPositions(p, res.unaccounted[0])
				r.bad("C08.c/GRAPH-SHAPE", key, pp[len(pp)-1], "a recorded requirement of a selected package can be skipped without an edge, an error, or a documented reason (its parent has no node, or is not the version selected for its package)", pp...)
			} else {
				r.ok("C08.c/GRAPH-SHAPE", key, blockPos(p, l.header), fmt.Sprintf("each iteration ends in AddEdge (%d blocks), an error return (%d) or the documented skip", res.accounted, res.returns))
			}
		}
	}

	// ---- d. ROOT-FIXED
	if f := p.lookupFn("(*resolve/pypi.provider).matchingVersions"); f == nil {
		r.bad("C08.d/ROOT-FIXED", "provider.matchingVersions", "", "function not found: anchor lost")
	} else {
		// every non-nil result returned on the root-package side is built from rootVersion only
		var rootGuard *ssa.BasicBlock
		rootSide := 0
		for _, b := range f.Blocks {
			ifi, ok := b.Instrs[len(b.Instrs)-1].(*ssa.If)
			if !ok {
				continue
			}
			bo, ok := ifi.Cond.(*ssa.BinOp)
			if !ok || (bo.Op != token.EQL && bo.Op != token.NEQ) {
				continue
			}
			if condDerives(bo, 0, func(v ssa.Value) bool {
				fv := nearestField(v)
				return fv != nil && fv.Name() == "rootPackage"
			}) {
				rootGuard = b
				if bo.Op == token.NEQ {
					rootSide = 1
				}
			}
		}
		key := fnKey(f) + ": root package yields only the root version"
		if rootGuard == nil {
			r.bad("C08.d/ROOT-FIXED", key, p.pos(f.Pos()), "the test for the root's package is gone: a requirement on the root's own package (a dependency loop) could replace the root by another version")
		} else {
			side := rootGuard.Succs[rootSide]
			okAll := true
			nRet := 0
			for _, b := range f.Blocks {
				// every return that the root-package side can reach
				if !reaches(side, b, rootGuard) {
					continue
				}
				ret, ok := b.Instrs[len(b.Instrs)-1].(*ssa.Return)
				if !ok {
					continue
				}
				nRet++
				if c, ok := ret.Results[0].(*ssa.Const); ok && c.IsNil() {
					continue
				}
				// a slice literal whose element is a load of the rootVersion field
				fromRoot := false
				if sl, ok := ret.Results[0].(*ssa.Slice); ok {
					if al, ok := sl.X.(*ssa.Alloc); ok {
						for _, ref := range *al.Referrers() {
							if ia, ok := ref.(*ssa.IndexAddr); ok {
								for _, r2 := range *ia.Referrers() {
									if st, ok := r2.(*ssa.Store); ok {
										if fv := nearestField(st.Val); fv != nil && fv.Name() == "rootVersion" {
											fromRoot = true
										}
									}
								}
							}
						}
					}
				}
				if !fromRoot {
					okAll = false
					r.bad("C08.d/ROOT-FIXED", key, p.pos(ret.Pos()), "on the root-package side a result other than nil or [rootVersion] is returned")
				}
			}
			if okAll && nRet > 0 {
				r.ok("C08.d/ROOT-FIXED", key, blockPos(p, rootGuard), fmt.Sprintf("all %d returns on the root-package side yield nil or the single root version", nRet))
			} else if nRet == 0 {
				r.bad("C08.d/ROOT-FIXED", key, blockPos(p, rootGuard), "no return found on the root-package side")
			}
		}
	}
	parentKeyRule(r, p, "C08.e/PARENT-KEY")
	edgeParentVersionRule(r, p, "C08.i/EDGE-PARENT-VERSION")
	pinInputsCoveredRule(r, p, "C08.j/PIN-INPUTS-COVERED")
	critMapFrozenRule(r, p, e, "C08.f/CRIT-MAP-FROZEN")
	memoNegativeRule(r, p, "C08.g/MEMO-NEGATIVE")
	criterionLiteralRule(r, p, "C08.h/CRITERION-COMPLETE")
	sortObls(r)
}

// parentKeyRule: mergeIntoCriterion drops a (requirement, parent) pair it
// believes is already recorded. Whatever the readers of the recorded parents
// distinguish (hasRouteToRoot uses a parent as a map key and compares it whole
// with the current pin) the "already recorded" test has to distinguish too,
// or the record of a replaced parent version stands in for the current one and
// the dependency is judged disconnected and dropped.
func parentKeyRule(r *Report, p *Prog, rule string) {
	const fnName = "(*resolve/pypi.resolution).mergeIntoCriterion"
	f := p.lookupFn(fnName)
	if f == nil {
		r.bad(rule, fnName, "", "function not found: anchor lost")
		return
	}
	var prm *ssa.Parameter
	for _, x := range f.Params {
		if x.Name() == "parent" || (prm == nil && strings.HasSuffix(x.Type().String(), "resolve.VersionKey")) {
			prm = x
		}
	}
	if prm == nil {
		r.bad(rule, fnName, p.pos(f.Pos()), "no parameter of type resolve.VersionKey: anchor lost")
		return
	}
	st, ok := prm.Type().Underlying().(*types.Struct)
	if !ok {
		r.bad(rule, fnName, p.pos(f.Pos()), "parent parameter is not a struct")
		return
	}
	leaves := structLeaves(st)
	// what the readers of criterion.informationParents distinguish
	need := map[string]bool{}
	readers := map[string]bool{}
	for _, g := range p.Funcs {
		if g == f || !strings.HasPrefix(fnKey(g), "resolve/pypi.") && !strings.Contains(fnKey(g), "resolve/pypi.") {
			continue
		}
		if strings.HasSuffix(fnKey(g), ".printCriterion") {
			continue // debugging output
		}
		for _, b := range g.Blocks {
			for _, in := range b.Instrs {
				ia, ok := in.(*ssa.IndexAddr)
				if !ok {
					continue
				}
				fv := nearestField(ia.X)
				if fv == nil || fv.Name() != "informationParents" {
					continue
				}
				before := len(need)
				leafReads(p, ia, leaves, need)
				if len(need) > before || len(need) == len(leaves) {
					readers[fnKey(g)] = true
				}
			}
		}
	}
	have := map[string]bool{}
	leafReads(p, prm, leaves, have)
	var missing, needed []string
	for _, l := range leaves {
		if need[l] {
			needed = append(needed, l)
			if !have[l] {
				missing = append(missing, l)
			}
		}
	}
	var rs []string
	for k := range readers {
		rs = append(rs, k)
	}
	sort.Strings(rs)
	key := fnKey(f) + ": already-recorded test distinguishes what the readers of the recorded parents distinguish"
	if len(missing) > 0 {
		r.bad(rule, key, p.pos(f.Pos()), fmt.Sprintf("the readers %v distinguish recorded parents by %v, but the already-recorded test never reads %v of the parent it is given: the record of another version of the parent stands in for this one, and a dependency whose only recorded parent is a replaced version is judged disconnected and silently dropped", rs, needed, missing))
	} else {
		r.ok(rule, key, p.pos(f.Pos()), fmt.Sprintf("readers %v use components %v; all are read by the test", rs, needed))
	}
	r.floor(rule, "components of a recorded parent used by readers", len(needed), 2)
	r.floor(rule, "functions reading criterion.informationParents", len(rs), 2)
}

func sortObls(r *Report) {
	sort.SliceStable(r.Obls, func(i, j int) bool { return r.Obls[i].Rule < r.Obls[j].Rule })
}

// ptrCloneCompleteRule: Clone of a pointer-to-struct type re-makes every reference field and fills maps.
func ptrCloneCompleteRule(r *Report, p *Prog, rule string, f *ssa.Function) {
	key := fnKey(f)
	var alloc *ssa.Alloc
	for _, b := range f.Blocks {
		if ret, ok := b.Instrs[len(b.Instrs)-1].(*ssa.Return); ok && len(ret.Results) == 1 {
			if al, ok := ret.Results[0].(*ssa.Alloc); ok {
				alloc = al
			}
		}
	}
	if alloc == nil {
		r.bad(rule, key, p.pos(f.Pos()), "the clone is not a freshly allocated object")
		return
	}
	st := alloc.Type().Underlying().(*types.Pointer).Elem().Underlying().(*types.Struct)
	stored := map[int][]ssa.Value{}
	for _, ref := range *alloc.Referrers() {
		if fa, ok := ref.(*ssa.FieldAddr); ok {
			for _, r2 := range *fa.Referrers() {
				if sto, ok := r2.(*ssa.Store); ok && sto.Addr == ssa.Value(fa) {
					stored[fa.Field] = append(stored[fa.Field], sto.Val)
				}
			}
		}
	}
	var probs []string
	for i := 0; i < st.NumFields(); i++ {
		fl := st.Field(i)
		vals := stored[i]
		if len(vals) == 0 {
			probs = append(probs, "field "+fl.Name()+" is not set")
			continue
		}
		for _, v := range vals {
			fresh := false
			switch x := v.(type) {
			case *ssa.MakeMap, *ssa.MakeSlice:
				fresh = true
			case *ssa.Call:
				if bi, ok := x.Common().Value.(*ssa.Builtin); ok && bi.Name() == "append" {
					if c, ok := x.Common().Args[0].(*ssa.Const); ok && c.IsNil() {
						fresh = true // append([]T(nil), src...) copies
					}
				}
				if n := staticCalleeName(x); n == "slices.Clone" || n == "maps.Clone" || strings.HasSuffix(n, ".Clone") {
					fresh = true
				}
			}
			if !fresh {
				probs = append(probs, "field "+fl.Name()+" is shared with the original")
			}
		}
		if _, isMap := fl.Type().Underlying().(*types.Map); isMap {
			filled := false
			for _, b := range f.Blocks {
				for _, in := range b.Instrs {
					if mu, ok := in.(*ssa.MapUpdate); ok {
						if fv := nearestField(mu.Map); fv == fl {
							filled = true
						}
					}
				}
			}
			for _, v := range vals {
				if c, ok := v.(*ssa.Call); ok && staticCalleeName(c) == "maps.Clone" {
					filled = true
				}
			}
			if !filled {
				probs = append(probs, "map field "+fl.Name()+" is re-made but never filled")
			}
		}
	}
	if len(probs) > 0 {
		r.bad(rule, key, p.pos(f.Pos()), strings.Join(probs, "; "))
	} else {
		r.ok(rule, key, p.pos(f.Pos()), fmt.Sprintf("all %d fields re-made and filled", st.NumFields()))
	}
}

// mustPassBlocksExcept is mustPassBlocks for any return, with true-edges of exempt branches cut.
func mustPassBlocksExcept(fn *ssa.Function, pred func(*ssa.BasicBlock) bool, exemptTrueEdge func(*ssa.BasicBlock) bool) []*ssa.BasicBlock {
	type item struct {
		b    *ssa.BasicBlock
		path []*ssa.BasicBlock
	}
	seen := map[*ssa.BasicBlock]bool{}
	stack := []item{{fn.Blocks[0], []*ssa.BasicBlock{fn.Blocks[0]}}}
	for len(stack) > 0 {
		it := stack[len(stack)-1]
		stack = stack[:len(stack)-1]
		if seen[it.b] {
			continue
		}
		seen[it.b] = true
		if pred(it.b) {
			continue
		}
		if _, ok := it.b.Instrs[len(it.b.Instrs)-1].(*ssa.Return); ok {
			return it.path
		}
		for i, s := range it.b.Succs {
			if i == 0 && exemptTrueEdge(it.b) {
				continue
			}
			stack = append(stack, item{s, append(append([]*ssa.BasicBlock{}, it.path...), s)})
		}
	}
	return nil
}

// depLoopIndexing finds the innermost loop that indexes a field of the given name.
func depLoopIndexing(fn *ssa.Function, field string) (*loop, ssa.Instruction) {
	loops := naturalLoops(fn)
	var best *loop
	var at ssa.Instruction
	for _, b := range fn.Blocks {
		for _, in := range b.Instrs {
			ia, ok := in.(*ssa.IndexAddr)
			if !ok {
				continue
			}
			if fv := nearestField(ia.X); fv == nil || fv.Name() != field {
				continue
			}
			if l := innermostLoop(loops, b); l != nil && (best == nil || len(l.body) < len(best.body)) {
				best, at = l, in
			}
		}
	}
	return best, at
}

// loopAccountBoth is loopAccount where an exemption may sit on either edge of its guard.
func loopAccountBoth(l *loop, markers map[string]bool, exempt []exemption) loopAccountResult {
	res := loopAccountResult{exempted: map[string]int{}}
	type item struct {
		b    *ssa.BasicBlock
		path []*ssa.BasicBlock
	}
	seen := map[*ssa.BasicBlock]bool{}
	var stack []item
	push := func(from, to *ssa.BasicBlock, path []*ssa.BasicBlock) {
		np := append(append([]*ssa.BasicBlock{}, path...), to)
		if !l.body[to] {
			if exitAborts(to, l) {
				res.returns++
				return
			}
		}
		if to == l.header || !l.body[to] {
			// next iteration reached directly from a guard of an exemption: allowed
			if ifi, ok := from.Instrs[len(from.Instrs)-1].(*ssa.If); ok {
				for _, ex := range exempt {
					if ex.match(ifi.Cond) {
						res.exempted[ex.name]++
						return
					}
				}
			}
			res.unaccounted = append(res.unaccounted, np)
			return
		}
		stack = append(stack, item{to, np})
	}
	for _, s := range l.header.Succs {
		if l.body[s] {
			push(l.header, s, []*ssa.BasicBlock{l.header})
		}
	}
	for len(stack) > 0 {
		it := stack[len(stack)-1]
		stack = stack[:len(stack)-1]
		if seen[it.b] {
			continue
		}
		seen[it.b] = true
		if blockCalls(it.b, markers) != nil {
			res.accounted++
			continue
		}
		if _, ok := it.b.Instrs[len(it.b.Instrs)-1].(*ssa.Return); ok {
			res.returns++
			continue
		}
		for _, s := range it.b.Succs {
			push(it.b, s, it.path)
		}
	}
	return res
}

// critMapFrozenRule: see checkC08 (C08.f).
func critMapFrozenRule(r *Report, p *Prog, e *Effect, rule string) {
	isCriterion := func(t types.Type) bool {
		if pt, ok := t.Underlying().(*types.Pointer); ok {
			t = pt.Elem()
		}
		return strings.HasSuffix(t.String(), "resolve/pypi.criterion")
	}
	// storedCritMap: v is the value of a map field of a criterion that was not
	// produced by copy() or built in this function. Returns the field name.
	var storedCritMap func(v ssa.Value, depth int) (string, bool)
	fresh := func(x ssa.Value) bool {
		for d := 0; d < 6 && x != nil; d++ {
			switch y := x.(type) {
			case *ssa.Call:
				return strings.HasSuffix(staticCalleeName(y), "criterion).copy")
			case *ssa.Alloc:
				if s := singleStore(y); s != nil {
					x = s
					continue
				}
				// a composite literal built here: no whole-struct store
				whole := false
				for _, rf := range *y.Referrers() {
					if st, ok := rf.(*ssa.Store); ok && st.Addr == y {
						whole = true
					}
				}
				return !whole
			case *ssa.UnOp:
				x = y.X
				continue
			}
			return false
		}
		return false
	}
	storedCritMap = func(v ssa.Value, depth int) (string, bool) {
		if depth > 6 {
			return "", false
		}
		switch x := v.(type) {
		case *ssa.Field:
			if isCriterion(x.X.Type()) {
				if _, ok := x.Type().Underlying().(*types.Map); ok {
					return x.X.Type().Underlying().(*types.Struct).Field(x.Field).Name(), !fresh(x.X)
				}
			}
		case *ssa.UnOp:
			if fa, ok := x.X.(*ssa.FieldAddr); ok && x.Op == token.MUL && isCriterion(fa.X.Type()) {
				if _, ok := x.Type().Underlying().(*types.Map); ok {
					st := fa.X.Type().Underlying().(*types.Pointer).Elem().Underlying().(*types.Struct)
					return st.Field(fa.Field).Name(), !fresh(fa.X)
				}
			}
		case *ssa.Phi:
			for _, ed := range x.Edges {
				if n, bad := storedCritMap(ed, depth+1); bad {
					return n, true
				}
			}
		}
		return "", false
	}
	nSeen := 0
	perFn := map[*ssa.Function]int{}
	for _, f := range p.Funcs {
		if f.Pkg == nil || f.Pkg.Pkg.Path() != modPrefix+"resolve/pypi" {
			continue
		}
		for _, b := range f.Blocks {
			for _, in := range b.Instrs {
				switch x := in.(type) {
				case *ssa.MapUpdate:
					if name, bad := storedCritMap(x.Map, 0); name != "" {
						nSeen++
						perFn[f]++
						key := fmt.Sprintf("%s: update of criterion.%s #%d", fnKey(f), name, perFn[f])
						if bad {
							r.bad(rule, key, p.pos(x.Pos()), "the map of a criterion taken from a search state is updated in place: the states kept for backtracking share that criterion, so what is added here survives a backtrack or a rejected candidate")
						} else {
							r.ok(rule, key, p.pos(x.Pos()), "the criterion was just produced by copy() or built here")
						}
					}
				case *ssa.Call:
					sc := x.Call.StaticCallee()
					if sc == nil || !p.inScope(sc) {
						continue
					}
					for k, a := range x.Call.Args {
						name, bad := storedCritMap(a, 0)
						if name == "" {
							continue
						}
						nSeen++
						perFn[f]++
						key := fmt.Sprintf("%s: criterion.%s passed to %s #%d", fnKey(f), name, fnKey(sc), perFn[f])
						writes, where := writesMapParam(p, sc, k, 0)
						switch {
						case writes && bad:
							r.bad(rule, key, p.pos(x.Pos()), "the callee writes the map it is given ("+where+") and is given the map of a criterion taken from a search state: the states kept for backtracking share that criterion, so what is added survives a backtrack or a rejected candidate")
						case writes:
							r.ok(rule, key, p.pos(x.Pos()), "the callee writes the map, but the criterion was just produced by copy()")
						default:
							r.ok(rule, key, p.pos(x.Pos()), "the callee's effect summary does not write this argument")
						}
					}
				}
			}
		}
	}
	r.floor(rule, "uses of a criterion's maps as update target or call argument", nSeen, 2)
}

// writesMapParam: f (or an in-scope function it hands the parameter on to)
// updates, deletes from or clears the map it receives as parameter k. The map
// escaping into a field or a closure is not followed.
func writesMapParam(p *Prog, f *ssa.Function, k int, depth int) (bool, string) {
	if depth > 4 || k >= len(f.Params) || f.Blocks == nil {
		return false, ""
	}
	prm := ssa.Value(f.Params[k])
	isParam := func(v ssa.Value) bool {
		seen := map[ssa.Value]bool{}
		var walk func(x ssa.Value, d int) bool
		walk = func(x ssa.Value, d int) bool {
			if x == nil || seen[x] || d > 8 {
				return false
			}
			seen[x] = true
			if x == prm {
				return true
			}
			switch y := x.(type) {
			case *ssa.Phi:
				for _, e := range y.Edges {
					if walk(e, d+1) {
						return true
					}
				}
			case *ssa.UnOp:
				if al, ok := y.X.(*ssa.Alloc); ok && y.Op == token.MUL && al.Referrers() != nil {
					for _, rf := range *al.Referrers() {
						if st, ok := rf.(*ssa.Store); ok && st.Addr == al && walk(st.Val, d+1) {
							return true
						}
					}
				}
			case *ssa.ChangeType:
				return walk(y.X, d+1)
			}
			return false
		}
		return walk(v, 0)
	}
	for _, b := range f.Blocks {
		for _, in := range b.Instrs {
			switch x := in.(type) {
			case *ssa.MapUpdate:
				if isParam(x.Map) {
					return true, "map update in " + fnKey(f) + " at " + p.pos(x.Pos())
				}
			case ssa.CallInstruction:
				c := x.Common()
				if bi, ok := c.Value.(*ssa.Builtin); ok && (bi.Name() == "delete" || bi.Name() == "clear") && len(c.Args) > 0 && isParam(c.Args[0]) {
					return true, bi.Name() + " in " + fnKey(f) + " at " + p.pos(x.Pos())
				}
				sc := c.StaticCallee()
				if sc == nil {
					continue
				}
				name := fullName(sc)
				if (strings.HasPrefix(name, "maps.Copy") || strings.HasPrefix(name, "maps.Insert") || strings.HasPrefix(name, "maps.DeleteFunc")) && len(c.Args) > 0 && isParam(c.Args[0]) {
					return true, name + " in " + fnKey(f) + " at " + p.pos(x.Pos())
				}
				if p.inScope(sc) {
					for j, a := range c.Args {
						if isParam(a) {
							if w, where := writesMapParam(p, sc, j, depth+1); w {
								return true, where
							}
						}
					}
				}
			}
		}
	}
	return false, ""
}

// memoNegativeRule: see checkC08 (C08.g).
func memoNegativeRule(r *Report, p *Prog, rule string) {
	n := 0
	for _, f := range p.Funcs {
		if f.Pkg == nil || f.Pkg.Pkg.Path() != modPrefix+"resolve/pypi" || f.Blocks == nil {
			continue
		}
		// a map[K]bool parameter
		for mi, prm := range f.Params {
			mt, ok := prm.Type().Underlying().(*types.Map)
			if !ok {
				continue
			}
			if b, ok := mt.Elem().Underlying().(*types.Basic); !ok || b.Kind() != types.Bool {
				continue
			}
			recursive, marksFalse, answersFalse, deletes := false, false, false, false
			for _, b := range f.Blocks {
				for _, in := range b.Instrs {
					switch x := in.(type) {
					case *ssa.MapUpdate:
						if x.Map == ssa.Value(prm) {
							if c, ok := x.Value.(*ssa.Const); ok && c.Value != nil && c.Value.Kind() == constant.Bool && !constant.BoolVal(c.Value) {
								marksFalse = true
							}
						}
					case ssa.CallInstruction:
						if x.Common().StaticCallee() == f {
							recursive = true
						}
						if bi, ok := x.Common().Value.(*ssa.Builtin); ok && bi.Name() == "delete" && len(x.Common().Args) > 0 && x.Common().Args[0] == ssa.Value(prm) {
							deletes = true
						}
					case *ssa.Return:
						if len(x.Results) == 1 {
							if c, ok := x.Results[0].(*ssa.Const); ok && c.Value != nil && c.Value.Kind() == constant.Bool && !constant.BoolVal(c.Value) {
								// guarded by a lookup in the memo?
								for _, g := range f.Blocks {
									ifi, ok := g.Instrs[len(g.Instrs)-1].(*ssa.If)
									if !ok || !g.Dominates(b) || g == b {
										continue
									}
									if condDerives(ifi.Cond, 0, func(v ssa.Value) bool {
										ex, ok := v.(*ssa.Extract)
										if !ok {
											return false
										}
										lk, ok := ex.Tuple.(*ssa.Lookup)
										return ok && lk.X == ssa.Value(prm)
									}) && len(b.Preds) == 1 && b.Preds[0] == g {
										answersFalse = true
									}
								}
							}
						}
					}
				}
			}
			if !(recursive && marksFalse && answersFalse) || deletes {
				continue
			}
			// f is a search of that kind; look at its outside callers
			for _, g := range p.Funcs {
				if g == f || g.Blocks == nil {
					continue
				}
				for _, b := range g.Blocks {
					for _, in := range b.Instrs {
						call, ok := in.(*ssa.Call)
						if !ok || call.Call.StaticCallee() != f || mi >= len(call.Call.Args) {
							continue
						}
						n++
						key := fmt.Sprintf("%s: query of %s", fnKey(g), fnKey(f))
						memo := call.Call.Args[mi]
						// the successor on which the call answered true
						var succTrue *ssa.BasicBlock
						if refs := call.Referrers(); refs != nil {
							for _, rf := range *refs {
								if ifi, ok := rf.(*ssa.If); ok && ifi.Cond == ssa.Value(call) {
									succTrue = ifi.Block().Succs[0]
								}
								if u, ok := rf.(*ssa.UnOp); ok && u.Op == token.NOT && u.Referrers() != nil {
									for _, r2 := range *u.Referrers() {
										if ifi, ok := r2.(*ssa.If); ok {
											succTrue = ifi.Block().Succs[1]
										}
									}
								}
							}
						}
						cleared := false
						if succTrue != nil {
							for _, b2 := range g.Blocks {
								if !succTrue.Dominates(b2) {
									continue
								}
								for _, in2 := range b2.Instrs {
									if c2, ok := in2.(ssa.CallInstruction); ok {
										if bi, ok := c2.Common().Value.(*ssa.Builtin); ok && bi.Name() == "delete" && len(c2.Common().Args) > 0 && sameMapValue(c2.Common().Args[0], memo) {
											cleared = true
										}
									}
								}
							}
						}
						if cleared {
							r.ok(rule, key, p.pos(call.Pos()), "the negatives left in the memo are discarded on the success side of the query (they are final only after a query that failed)")
						} else {
							r.bad(rule, key, p.pos(call.Pos()), fnKey(f)+" marks a node false before it recurses and answers false for any node it finds false, so a node met while one of its ancestors was still on the path is left false although it may be connected through that ancestor; the caller keeps those answers for its next queries: a selected version reached first through such a cycle is judged disconnected and dropped from the graph together with the edges to it")
						}
					}
				}
			}
		}
	}
	r.floor(rule, "outside queries of a search that memoises negatives in its on-path map", n, 1)
}

// sameMapValue: both values are the same SSA value, or loads of / free variables bound to the same cell.
func sameMapValue(a, b ssa.Value) bool {
	if a == b {
		return true
	}
	root := func(v ssa.Value) ssa.Value {
		for d := 0; d < 4; d++ {
			if u, ok := v.(*ssa.UnOp); ok && u.Op == token.MUL {
				v = u.X
				continue
			}
			break
		}
		return v
	}
	return root(a) == root(b)
}

// criterionLiteralRule: see checkC08 (C08.h).
func criterionLiteralRule(r *Report, p *Prog, rule string) {
	n := 0
	for _, f := range p.Funcs {
		if f.Pkg == nil || f.Pkg.Pkg.Path() != modPrefix+"resolve/pypi" || f.Blocks == nil {
			continue
		}
		perFn := 0
		for _, b := range f.Blocks {
			for _, in := range b.Instrs {
				al, ok := in.(*ssa.Alloc)
				if !ok {
					continue
				}
				st, ok := al.Type().Underlying().(*types.Pointer).Elem().Underlying().(*types.Struct)
				if !ok || !strings.HasSuffix(al.Type().String(), "resolve/pypi.criterion") {
					continue
				}
				set := map[int]bool{}
				whole := false
				if al.Referrers() != nil {
					for _, rf := range *al.Referrers() {
						if s, ok := rf.(*ssa.Store); ok && s.Addr == al {
							whole = true // the variable receives a complete value (copy(), a call result)
						}
						if fa, ok := rf.(*ssa.FieldAddr); ok && fa.Referrers() != nil {
							for _, u := range *fa.Referrers() {
								if s, ok := u.(*ssa.Store); ok && s.Addr == fa {
									set[fa.Field] = true
								}
							}
						}
					}
				}
				if len(set) == 0 || whole {
					continue // the zero criterion of an error return, or a variable holding a complete value that is then adjusted
				}
				n++
				perFn++
				key := fmt.Sprintf("%s: criterion literal #%d", fnKey(f), perFn)
				var missing []string
				for i := 0; i < st.NumFields(); i++ {
					if !set[i] {
						missing = append(missing, st.Field(i).Name())
					}
				}
				if len(missing) > 0 {
					r.bad(rule, key, p.pos(al.Pos()), fmt.Sprintf("a criterion is built field by field without %v: what the package had accumulated there is silently reset (a package requested with an extra loses it, and the requirements guarded by that extra drop out of the graph)", missing))
				} else {
					r.ok(rule, key, p.pos(al.Pos()), "sets every field of the type")
				}
			}
		}
	}
	r.floor(rule, "non-empty criterion literals in package pypi", n, 1)
}

// edgeParentVersionRule (C08.i EDGE-PARENT-VERSION): the criteria record, for
// every requirement, the VERSION that made it. hasRouteToRoot follows such a
// record only if that version is the one pinned for its package; buildGraph
// turned it into an edge from whatever version of the parent's package has a
// node, so a requirement made by a version that was later replaced showed up
// as an edge from the replacement, which does not make it. On every path from
// the lookup of the parent's node to AddEdge (the root case apart) the recorded
// parent version is compared with another version key.
func edgeParentVersionRule(r *Report, p *Prog, rule string) {
	f := p.lookupFn("resolve/pypi.buildGraph")
	key := "resolve/pypi.buildGraph: an edge starts at the version that made the requirement"
	if f == nil {
		r.bad(rule, key, "", "buildGraph not found: anchor lost")
		return
	}
	isVK := func(t types.Type) bool { return strings.HasSuffix(t.String(), "resolve.VersionKey") }
	// the recorded parent: the VersionKey compared with the zero value
	var parent ssa.Value
	var rootIf *ssa.If
	for _, b := range f.Blocks {
		ifi, ok := b.Instrs[len(b.Instrs)-1].(*ssa.If)
		if !ok {
			continue
		}
		bo, ok := ifi.Cond.(*ssa.BinOp)
		if !ok || (bo.Op != token.EQL && bo.Op != token.NEQ) || !isVK(bo.X.Type()) {
			continue
		}
		if c, ok := bo.Y.(*ssa.Const); ok && c.Value == nil {
			parent, rootIf = bo.X, ifi
		}
	}
	if parent == nil {
		r.bad(rule, key, p.pos(f.Pos()), "the test of the recorded parent against the zero version key (the root case) was not found: anchor lost")
		return
	}
	// start: the branch for a real parent
	bo := rootIf.Cond.(*ssa.BinOp)
	start := rootIf.Block().Succs[1]
	if bo.Op == token.NEQ {
		start = rootIf.Block().Succs[0]
	}
	comparesParent := func(b *ssa.BasicBlock) bool {
		for _, in := range b.Instrs {
			x, ok := in.(*ssa.BinOp)
			if !ok || (x.Op != token.EQL && x.Op != token.NEQ) || !isVK(x.X.Type()) {
				continue
			}
			if _, isConst := x.Y.(*ssa.Const); isConst {
				continue
			}
			if _, isConst := x.X.(*ssa.Const); isConst {
				continue
			}
			if sameVar(x.X, parent) || sameVar(x.Y, parent) {
				return true
			}
		}
		return false
	}
	isAddEdge := func(b *ssa.BasicBlock) ssa.Instruction {
		for _, in := range b.Instrs {
			if c, ok := in.(*ssa.Call); ok && c.Common().StaticCallee() != nil && c.Common().StaticCallee().Name() == "AddEdge" {
				return in
			}
		}
		return nil
	}
	seen := map[*ssa.BasicBlock]bool{}
	var offending ssa.Instruction
	nEdges := 0
	var walk func(b *ssa.BasicBlock)
	walk = func(b *ssa.BasicBlock) {
		if offending != nil || seen[b] {
			return
		}
		seen[b] = true
		if comparesParent(b) {
			return
		}
		if in := isAddEdge(b); in != nil {
			nEdges++
			offending = in
			return
		}
		if b == rootIf.Block() {
			return // next recorded requirement
		}
		for _, s := range b.Succs {
			walk(s)
		}
	}
	walk(start)
	if offending != nil {
		r.bad(rule, key, p.pos(offending.Pos()), "for a recorded requirement whose parent is not the root, the source of the edge is looked up by the parent's PACKAGE and the edge is added without comparing the recorded parent VERSION with the version selected for that package: a requirement made by a version that was later replaced becomes an edge from the replacement, which does not declare it (hasRouteToRoot does compare the versions)")
	} else {
		r.ok(rule, key, p.pos(f.Pos()), "every path from the parent's node lookup to AddEdge compares the recorded parent version with another version key")
	}
}

// sameVar reports whether a and b are the same SSA value or two loads of the
// same local variable.
func sameVar(a, b ssa.Value) bool {
	if a == b {
		return true
	}
	la, ok1 := a.(*ssa.UnOp)
	lb, ok2 := b.(*ssa.UnOp)
	if !ok1 || !ok2 {
		return false
	}
	_, isAlloc := la.X.(*ssa.Alloc)
	return isAlloc && la.X == lb.X
}

// pinInputsCoveredRule (C08.j PIN-INPUTS-COVERED): pinning a candidate expands
// its dependencies from two things the criterion holds: the candidate list and
// the requested extras (the argument handed to getCriteriaToUpdate). A
// requirement merged later can enlarge either. isCurrentPinSatisfying, the
// shortcut that decides whether a package has to be pinned again, must read
// every criterion field the expansion consumed; if it looks at the candidates
// only, an extra requested after the pin is never expanded and the
// requirements it enables are missing from the graph.
func pinInputsCoveredRule(r *Report, p *Prog, rule string) {
	pin := p.lookupFn("(*resolve/pypi.resolution).attemptToPinCriterion")
	sat := p.lookupFn("(*resolve/pypi.resolution).isCurrentPinSatisfying")
	key := "resolve/pypi: isCurrentPinSatisfying reads what the pin was expanded from"
	if pin == nil || sat == nil {
		r.bad(rule, key, "", "attemptToPinCriterion or isCurrentPinSatisfying not found: anchor lost")
		return
	}
	critField := func(v ssa.Value) string {
		for d := 0; d < 4 && v != nil; d++ {
			switch x := v.(type) {
			case *ssa.Field:
				if strings.HasSuffix(x.X.Type().String(), "pypi.criterion") {
					return x.X.Type().Underlying().(*types.Struct).Field(x.Field).Name()
				}
				return ""
			case *ssa.FieldAddr:
				if pt, ok := x.X.Type().Underlying().(*types.Pointer); ok && strings.HasSuffix(pt.Elem().String(), "pypi.criterion") {
					return pt.Elem().Underlying().(*types.Struct).Field(x.Field).Name()
				}
				return ""
			case *ssa.UnOp:
				v = x.X
			default:
				return ""
			}
		}
		return ""
	}
	consumed := map[string]bool{}
	for _, b := range pin.Blocks {
		for _, in := range b.Instrs {
			switch x := in.(type) {
			case *ssa.Call:
				if sc := x.Common().StaticCallee(); sc != nil && sc.Name() == "getCriteriaToUpdate" {
					for _, a := range x.Common().Args {
						if f := critField(a); f != "" {
							consumed[f] = true
						}
					}
				}
			case *ssa.IndexAddr:
				// the candidate tried: crit.candidates[i]
				if f := critField(x.X); f != "" {
					consumed[f] = true
				}
			case *ssa.Index:
				if f := critField(x.X); f != "" {
					consumed[f] = true
				}
			}
		}
	}
	read := map[string]bool{}
	for _, b := range sat.Blocks {
		for _, in := range b.Instrs {
			if v, ok := in.(ssa.Value); ok {
				if f := critField(v); f != "" {
					read[f] = true
				}
			}
		}
	}
	// clause 2: what is recorded as "the extras this pin was expanded with" is the
	// very value that was handed to the expansion: the same field of the same
	// criterion variable, not the criterion re-read after the candidate's own
	// requirements have been merged into the state
	baseOf := func(v ssa.Value) ssa.Value {
		for d := 0; d < 4 && v != nil; d++ {
			switch x := v.(type) {
			case *ssa.Field:
				return x.X
			case *ssa.FieldAddr:
				return x.X
			case *ssa.UnOp:
				v = x.X
			default:
				return nil
			}
		}
		return nil
	}
	var expandedFrom, recordedFrom ssa.Value
	var recordPos token.Pos
	for _, b := range pin.Blocks {
		for _, in := range b.Instrs {
			switch x := in.(type) {
			case *ssa.Call:
				if sc := x.Common().StaticCallee(); sc != nil && sc.Name() == "getCriteriaToUpdate" {
					for _, a := range x.Common().Args {
						if critField(a) == "extras" {
							expandedFrom = baseOf(a)
						}
					}
				}
			case *ssa.Store:
				if critField(x.Addr) != "" && critField(x.Addr) != "extras" && critField(x.Addr) != "candidates" && critField(x.Val) == "extras" {
					recordedFrom = baseOf(x.Val)
					recordPos = x.Pos()
				}
			}
		}
	}
	if recordedFrom != nil && expandedFrom != nil && recordedFrom != expandedFrom && !sameVar(recordedFrom, expandedFrom) {
		r.bad(rule, "resolve/pypi: the extras recorded for a pin are the ones it was expanded with", p.pos(recordPos), "attemptToPinCriterion expands the candidate with the extras of one criterion value and records the extras of another (the criterion re-read from the state after the candidate's own requirements were merged): an extra the candidate requests of its own package is marked as expanded although its requirements were never collected")
	} else if recordedFrom != nil {
		r.ok(rule, "resolve/pypi: the extras recorded for a pin are the ones it was expanded with", p.pos(recordPos), "same criterion value")
	}
	var missing []string
	for f := range consumed {
		if !read[f] {
			missing = append(missing, f)
		}
	}
	sort.Strings(missing)
	switch {
	case len(consumed) < 2:
		r.bad(rule, key, p.pos(pin.Pos()), fmt.Sprintf("only %d criterion field(s) found feeding the expansion of a pin (expected the candidates and the extras): anchor lost", len(consumed)))
	case len(missing) > 0:
		r.bad(rule, key, p.pos(sat.Pos()), fmt.Sprintf("the pin of a package is expanded from criterion.%v, which isCurrentPinSatisfying never reads: when a later requirement changes it (an extra requested after the package was pinned), the package is still judged satisfied, its dependencies are not collected again, and the requirements the new value enables are missing from the returned graph", missing))
	default:
		r.ok(rule, key, p.pos(sat.Pos()), fmt.Sprintf("reads every consumed field %v", keysOf(consumed)))
	}
}

func keysOf(m map[string]bool) []string {
	var ks []string
	for k := range m {
		ks = append(ks, k)
	}
	sort.Strings(ks)
	return ks
}
