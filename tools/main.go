package main

import (
	"flag"
	"fmt"
	"go/constant"
	"go/types"
	"os"
	"sort"
)

// checkers maps a property id to its rule set.
var checkers = map[string]func(r *Report){
	"C17": checkC17,
}

func constToInt(tv types.TypeAndValue) (int64, bool) {
	if tv.Value == nil || tv.Value.Kind() != constant.Int {
		return 0, false
	}
	return constant.Int64Val(tv.Value)
}

func usage() {
	fmt.Fprintln(os.Stderr, "usage: depscheck check -property Cnn [-tier quick|thorough] [-repo DIR] [-no-evidence]")
	fmt.Fprintln(os.Stderr, "       depscheck list")
	os.Exit(2)
}

func main() {
	if len(os.Args) < 2 {
		usage()
	}
	switch os.Args[1] {
	case "list":
		var ids []string
		for id := range checkers {
			ids = append(ids, id)
		}
		sort.Strings(ids)
		for _, id := range ids {
			fmt.Println(id)
		}
	case "check":
		fs := flag.NewFlagSet("check", flag.ExitOnError)
		prop := fs.String("property", "", "property id")
		tier := fs.String("tier", "", "quick or thorough")
		repo := fs.String("repo", "/repo", "tree to analyse")
		noEv := fs.Bool("no-evidence", false, "do not write the evidence file (used by the sensitivity suite)")
		fs.Parse(os.Args[2:])
		if *tier == "" {
			*tier = os.Getenv("VERIF_TIER")
		}
		if *tier == "" {
			*tier = "quick"
		}
		if *tier != "quick" && *tier != "thorough" {
			usage()
		}
		repoRoot = *repo
		f := checkers[*prop]
		if f == nil {
			fatalf("no checker for property %q", *prop)
		}
		r := newReport(*prop, *tier)
		func() {
			defer func() {
				if e := recover(); e != nil {
					fmt.Fprintf(os.Stderr, "depscheck: internal error while checking %s: %v\n", *prop, e)
					panic(e)
				}
			}()
			f(r)
		}()
		if *tier == "thorough" && !*noEv {
			runSensitivity(r)
		}
		os.Exit(r.finish(!*noEv))
	default:
		usage()
	}
}
