package main

import (
	"encoding/json"
	"flag"
	"fmt"
	"go/ast"
	"go/constant"
	"go/types"
	"os"
	"sort"
	"strings"
)

// checkers maps a property id to its rule set.
var checkers = map[string]func(r *Report){
	"C01": checkC01,
	"C02": checkC02,
	"C03": checkC03,
	"C04": checkC04,
	"C05": checkC05,
	"C06": checkC06,
	"C07": checkC07,
	"C08": checkC08,
	"C09": checkC09,
	"C10": checkC10,
	"C11": checkC11,
	"C12": checkC12,
	"C13": checkC13,
	"C14": checkC14,
	"C18": checkC18,
	"C19": checkC19,
	"C15": checkC15,
	"C16": checkC16,
	"C17": checkC17,
}

func constToInt(tv types.TypeAndValue) (int64, bool) {
	if tv.Value == nil || tv.Value.Kind() != constant.Int {
		return 0, false
	}
	return constant.Int64Val(tv.Value)
}

func usage() {
	fmt.Fprintln(os.Stderr, "usage: depscheck check -property Cnn [-tier quick|thorough] [-repo DIR] [-no-evidence]")
	fmt.Fprintln(os.Stderr, "       depscheck list")
	os.Exit(2)
}

func main() {
	if a := os.Getenv("DEPSCHECK_ARCH"); a != "" {
		// run the rules for another GOARCH (used by the sensitivity suite for
		// mutants that only matter where int has 32 bits)
		archOverride = a
	}
	if len(os.Args) < 2 {
		usage()
	}
	switch os.Args[1] {
	case "list":
		var ids []string
		for id := range checkers {
			ids = append(ids, id)
		}
		sort.Strings(ids)
		for _, id := range ids {
			fmt.Println(id)
		}
	case "debug-effect":
		if len(os.Args) > 2 {
			repoRoot = os.Args[2]
		}
		p := loadResolve("", true)
		debugHeap = os.Getenv("DBG_HEAP") != ""
		e := runEffect(p)
		fmt.Printf("functions %d passes %d globals %d sites %d srcCalls %d\n", len(p.Funcs), e.passes, len(e.globals), len(e.allSites), len(e.srcCalls))
		if os.Getenv("DBG_GLOBALS") != "" {
			debugHook(e)
		}
		for _, r := range e.sortedReports() {
			fmt.Printf("%s: %s memory written in %s: %s (at %s in %s) via %q\n", p.pos(r.pos), r.origin, fnKey(r.fn), r.site.desc, p.pos(r.site.pos), fnKey(r.site.fn), r.via)
		}
		if len(os.Args) > 3 {
			for _, f := range p.Funcs {
				if strings.Contains(f.String(), os.Args[3]) {
					s := e.sums[f]
					fmt.Printf("SUM %s ret=%v flow=%v wglobal=%d rglobal=%d\n", f, s.ret, s.flow, len(s.wglobal), len(s.rglobal))
					for st, o := range s.writes {
						fmt.Printf("   writes %x/%x at %s: %s\n", o.p, o.g, p.pos(st.pos), st.desc)
					}
				}
			}
		}
	case "debug-maprange":
		if len(os.Args) > 2 {
			repoRoot = os.Args[2]
		}
		debugMapRange(loadResolve("", true))
	case "debug-sub":
		debugSub(loadResolve("", true))
	case "debug-narrow":
		debugNarrow(loadResolve("", true))
	case "debug-step":
		p := loadResolve("", true)
		for _, ps := range doubleStepSites(p, "semver", "pypi", "maven", "resolve", "resolve/npm", "resolve/maven", "resolve/pypi", "resolve/schema", "resolve/internal/deptest", "resolve/internal/versiontest", "resolve/dep", "resolve/version") {
			fmt.Println(p.pos(ps))
		}
	case "debug-loopret":
		p := loadResolve("", true)
		for _, pk := range [][]string{{"semver"}, {"resolve"}, {"resolve/internal/attr", "resolve/dep", "resolve/version"}, {"maven", "pypi", "resolve/npm", "resolve/maven", "resolve/pypi"}} {
			for _, lr := range loopReturns(p, threeWayFns(p, pk...)) {
				fmt.Println(p.pos(lr.pos), fnKey(lr.fn), lr.expr, lr.ok, lr.how)
			}
		}
	case "debug-lru":
		p := loadResolve("", true)
		for _, f := range p.Funcs {
			if strings.Contains(f.String(), "lru") && strings.Contains(f.Name(), "Add") {
				o := "-"
				if f.Origin() != nil {
					o = f.Origin().String()
				}
				fmt.Println(f.String(), "| name:", f.Name(), "| pkg nil:", f.Pkg == nil, "| origin:", o, "| blocks:", len(f.Blocks))
			}
		}
	case "debug-sign":
		if len(os.Args) > 2 {
			repoRoot = os.Args[2]
		}
		debugSign(loadResolve("", true))
	case "debug-c10":
		if len(os.Args) > 2 {
			repoRoot = os.Args[2]
		}
		debugC10(loadResolve("", true))
	case "debug-nil":
		if len(os.Args) > 2 {
			repoRoot = os.Args[2]
		}
		p := loadResolve("", true)
		ok, bad := nilSpanRule(p)
		fmt.Println("protected", len(ok), "unprotected", len(bad))
		for _, b := range bad {
			fmt.Printf("UNPROTECTED %s: %s in %s (%s)\n", p.pos(b.use.Pos()), b.field, fnKey(b.fn), b.use)
		}
		for _, b := range ok {
			fmt.Printf("ok %s: %s in %s\n", p.pos(b.use.Pos()), b.field, fnKey(b.fn))
		}
	case "debug-scc":
		p := loadResolve("", true)
		for _, c := range recursiveSCCs(p) {
			fmt.Println(len(c), c)
		}
	case "debug-bounds":
		if len(os.Args) > 2 {
			repoRoot = os.Args[2]
		}
		p := loadResolve("", false)
		sites, err := unprovenBounds(p)
		if err != nil {
			fatalf("%v", err)
		}
		sites = locateBounds(p, sites)
		sortSites(sites)
		pms := map[*ast.File]parentMap{}
		for _, s := range sites {
			var fs []string
			if s.node != nil {
				for f := range p.fileOf {
					if f.Pos() <= s.node.Pos() && s.node.Pos() <= f.End() {
						if pms[f] == nil {
							pms[f] = buildParents(f)
						}
						for _, g := range guardFactsAt(s.node, pms[f]) {
							fs = append(fs, g.text)
						}
					}
				}
			}
			fmt.Printf("%s:%d:%d\t%s\t%s\t%s\t%s\n", strings.TrimPrefix(s.file, repoRoot+"/"), s.line, s.col, s.kind, s.fn, s.expr, strings.Join(fs, " ; "))
		}
	case "explain":
		if len(os.Args) < 3 {
			usage()
		}
		b, err := os.ReadFile(os.Args[2])
		if err != nil {
			fatalf("%v", err)
		}
		var rep struct {
			Property   string     `json:"property"`
			Obligation Obligation `json:"obligation"`
		}
		if err := json.Unmarshal(b, &rep); err != nil {
			fatalf("%s: %v", os.Args[2], err)
		}
		if len(os.Args) > 3 {
			repoRoot = os.Args[3]
		}
		f := checkers[rep.Property]
		if f == nil {
			fatalf("no checker for property %q", rep.Property)
		}
		fmt.Printf("replaying %s rule %s on construct %q\n  recorded at %s: %s\n", rep.Property, rep.Obligation.Rule, rep.Obligation.Key, rep.Obligation.Pos, rep.Obligation.How)
		r := newReport(rep.Property, "quick")
		f(r)
		for _, fl := range r.Floors {
			if fl.Found < fl.Min {
				r.bad(fl.Rule+"/FLOOR", "floor:"+fl.What, "", "below the reviewed minimum")
			}
		}
		found := false
		for _, o := range r.Obls {
			if o.Rule == rep.Obligation.Rule && o.Key == rep.Obligation.Key {
				found = true
				if o.OK {
					fmt.Printf("  now: holds (%s)\n", o.How)
				} else {
					fmt.Printf("  now: STILL VIOLATED at %s: %s\n", o.Pos, o.How)
					for _, t := range o.Trace {
						fmt.Printf("    via %s\n", t)
					}
					fmt.Printf("VIOLATION property=%s replay=%s\n", rep.Property, os.Args[2])
					os.Exit(1)
				}
			}
		}
		if !found {
			fmt.Println("  now: the construct no longer exists on this tree")
		}
	case "check":
		fs := flag.NewFlagSet("check", flag.ExitOnError)
		prop := fs.String("property", "", "property id")
		tier := fs.String("tier", "", "quick or thorough")
		repo := fs.String("repo", "/repo", "tree to analyse")
		noEv := fs.Bool("no-evidence", false, "do not write the evidence file (used by the sensitivity suite)")
		fs.Parse(os.Args[2:])
		if *tier == "" {
			*tier = os.Getenv("VERIF_TIER")
		}
		if *tier == "" {
			*tier = "quick"
		}
		if *tier != "quick" && *tier != "thorough" {
			usage()
		}
		repoRoot = *repo
		f := checkers[*prop]
		if f == nil {
			fatalf("no checker for property %q", *prop)
		}
		r := newReport(*prop, *tier)
		func() {
			defer func() {
				if e := recover(); e != nil {
					fmt.Fprintf(os.Stderr, "depscheck: internal error while checking %s: %v\n", *prop, e)
					panic(e)
				}
			}()
			f(r)
		}()
		if *tier == "thorough" && !*noEv {
			runSensitivity(r)
		}
		os.Exit(r.finish(!*noEv))
	default:
		usage()
	}
}

func init() {
	debugHook = func(e *Effect) {
		for i, g := range e.globals {
			fmt.Printf("global %d %s : %s\n", i, g, g.Type())
		}
	}
}
