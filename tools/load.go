package main

import (
	"fmt"
	"go/ast"
	"go/token"
	"go/types"
	"os"
	"path/filepath"
	"sort"
	"strings"

	"golang.org/x/tools/go/callgraph"
	"golang.org/x/tools/go/callgraph/cha"
	"golang.org/x/tools/go/callgraph/vta"
	"golang.org/x/tools/go/packages"
	"golang.org/x/tools/go/ssa"
	"golang.org/x/tools/go/ssa/ssautil"
)

// repoRoot is the tree being analysed (always /repo for registered checks;
// a scratch copy for the sensitivity suite).
var repoRoot = "/repo"

const modPrefix = "deps.dev/util/"

// Prog is the loaded, type-checked (and optionally SSA-built) util/resolve
// module together with util/semver, util/maven and util/pypi, which it pulls in
// as source through its replace directives.
type Prog struct {
	Fset    *token.FileSet
	Pkgs    map[string]*packages.Package // by import path, in-scope only
	All     []*packages.Package
	SSA     *ssa.Program
	SSAPkg  map[string]*ssa.Package
	Funcs   []*ssa.Function // in-scope functions with bodies, sorted by name
	AllFns  map[*ssa.Function]bool
	cg      *callgraph.Graph
	GOARCH  string
	fileOf  map[*ast.File]*packages.Package
	declOf  map[*types.Func]*ast.FuncDecl
	litsOf  map[token.Pos]*ast.FuncLit
	nFiles  int
	astOnce bool
}

func goEnv(goarch string) []string {
	env := []string{}
	for _, e := range os.Environ() {
		if strings.HasPrefix(e, "GOFLAGS=") || strings.HasPrefix(e, "GOWORK=") || strings.HasPrefix(e, "GOARCH=") ||
			strings.HasPrefix(e, "GOPROXY=") || strings.HasPrefix(e, "GOSUMDB=") || strings.HasPrefix(e, "GOTOOLCHAIN=") {
			continue
		}
		env = append(env, e)
	}
	env = append(env, "GOFLAGS=-mod=mod", "GOPROXY=off", "GOSUMDB=off", "GOWORK=off", "GOTOOLCHAIN=local")
	if goarch != "" {
		env = append(env, "GOARCH="+goarch)
	}
	return env
}

// inScopePath reports whether a package path belongs to the analysed code.
func inScopePath(p string) bool {
	return strings.HasPrefix(p, modPrefix) && !strings.Contains(p, "internal/resolvetest")
}

var progCache = map[string]*Prog{}

// loadResolve loads util/resolve/... from the working tree of repoRoot.
func loadResolve(goarch string, withSSA bool) *Prog {
	if goarch == "" {
		goarch = archOverride
	}
	key := goarch
	if p := progCache[key]; p != nil && (!withSSA || p.SSA != nil) {
		return p
	}
	cfg := &packages.Config{
		Mode: packages.LoadAllSyntax,
		Dir:  filepath.Join(repoRoot, "util/resolve"),
		Env:  goEnv(goarch),
	}
	pkgs, err := packages.Load(cfg, "./...")
	if err != nil {
		fatalf("loading util/resolve: %v", err)
	}
	if len(pkgs) == 0 {
		fatalf("loading util/resolve: no packages")
	}
	nerr := 0
	packages.Visit(pkgs, nil, func(p *packages.Package) {
		for _, e := range p.Errors {
			fmt.Fprintln(os.Stderr, e)
			nerr++
		}
	})
	if nerr > 0 {
		fatalf("the tree does not load/type-check (%d errors); no verdict", nerr)
	}
	p := &Prog{Pkgs: map[string]*packages.Package{}, GOARCH: goarch, fileOf: map[*ast.File]*packages.Package{}}
	packages.Visit(pkgs, nil, func(pk *packages.Package) {
		p.All = append(p.All, pk)
		if inScopePath(pk.PkgPath) {
			p.Pkgs[pk.PkgPath] = pk
			p.Fset = pk.Fset
			for _, f := range pk.Syntax {
				p.fileOf[f] = pk
				p.nFiles++
			}
		}
	})
	for _, need := range []string{"semver", "pypi", "maven", "resolve", "resolve/dep", "resolve/version", "resolve/internal/attr",
		"resolve/internal/deptest", "resolve/internal/versiontest", "resolve/schema", "resolve/npm", "resolve/maven", "resolve/pypi", "resolve/pypi/internal/lru"} {
		pk := p.Pkgs[modPrefix+need]
		if pk == nil {
			fatalf("package %s%s not loaded", modPrefix, need)
		}
		// The sources must come from the working tree, not the module cache.
		for _, f := range pk.GoFiles {
			if !strings.HasPrefix(f, repoRoot+"/") {
				fatalf("package %s loaded from %s, not from %s", pk.PkgPath, f, repoRoot)
			}
		}
	}
	// unsafe, reflect-based mutation and cgo would break the type-based
	// arguments; assert they do not occur in scope.
	for _, pk := range p.Pkgs {
		for imp := range pk.Imports {
			if imp == "unsafe" || imp == "C" {
				fatalf("package %s imports %s; the ownership analysis is unsound there", pk.PkgPath, imp)
			}
		}
	}
	if withSSA {
		p.SSA, _ = ssautil.AllPackages(pkgs, ssa.InstantiateGenerics)
		p.SSA.Build()
		p.SSAPkg = map[string]*ssa.Package{}
		for _, sp := range p.SSA.AllPackages() {
			p.SSAPkg[sp.Pkg.Path()] = sp
		}
		p.AllFns = ssautil.AllFunctions(p.SSA)
		for f := range p.AllFns {
			if p.inScope(f) && len(f.Blocks) > 0 && !(len(f.TypeArgs()) == 0 && f.TypeParams().Len() > 0) {
				p.Funcs = append(p.Funcs, f)
			}
		}
		sort.Slice(p.Funcs, func(i, j int) bool {
			if a, b := p.Funcs[i].String(), p.Funcs[j].String(); a != b {
				return a < b
			}
			return p.Funcs[i].Pos() < p.Funcs[j].Pos()
		})
		if len(p.Funcs) < 400 {
			fatalf("only %d in-scope functions found; expected more than 400", len(p.Funcs))
		}
	}
	progCache[key] = p
	return p
}

func (p *Prog) pkgOfFn(f *ssa.Function) *ssa.Package {
	for f != nil {
		if f.Pkg != nil {
			return f.Pkg
		}
		if o := f.Origin(); o != nil && o.Pkg != nil {
			return o.Pkg
		}
		if obj := f.Object(); obj != nil && obj.Pkg() != nil && f.Prog != nil {
			if sp := f.Prog.Package(obj.Pkg()); sp != nil {
				return sp
			}
		}
		f = f.Parent()
	}
	return nil
}

func (p *Prog) inScope(f *ssa.Function) bool {
	pk := p.pkgOfFn(f)
	return pk != nil && inScopePath(pk.Pkg.Path())
}

// callGraph builds (once) the VTA call graph seeded with CHA.
func (p *Prog) callGraph() *callgraph.Graph {
	if p.cg == nil {
		p.cg = vta.CallGraph(p.AllFns, cha.CallGraph(p.SSA))
	}
	return p.cg
}

// pos renders a position relative to the repository root.
func (p *Prog) pos(pos token.Pos) string {
	if !pos.IsValid() {
		return ""
	}
	return relPos(p.Fset.Position(pos))
}

func relPos(ps token.Position) string {
	f := strings.TrimPrefix(ps.Filename, repoRoot+"/")
	return fmt.Sprintf("%s:%d:%d", f, ps.Line, ps.Column)
}

// short strips the module prefix from qualified names for readable keys.
func short(s string) string {
	return strings.ReplaceAll(s, modPrefix, "")
}

// fnKey is the stable name of a function used in construct keys.
func fnKey(f *ssa.Function) string {
	return short(f.String())
}

// lookupFn finds an in-scope function by its short name, e.g.
// "(*resolve/npm.resolver).Resolve" or "semver.compare".
func (p *Prog) lookupFn(name string) *ssa.Function {
	for _, f := range p.Funcs {
		if fnKey(f) == name {
			return f
		}
	}
	return nil
}

// pkg returns an in-scope package by its path below deps.dev/util/.
func (p *Prog) pkg(rel string) *packages.Package {
	return p.Pkgs[modPrefix+rel]
}

// ---- AST helpers ---------------------------------------------------------

func (p *Prog) indexAST() {
	if p.astOnce {
		return
	}
	p.astOnce = true
	p.declOf = map[*types.Func]*ast.FuncDecl{}
	p.litsOf = map[token.Pos]*ast.FuncLit{}
	for f, pk := range p.fileOf {
		ast.Inspect(f, func(n ast.Node) bool {
			switch x := n.(type) {
			case *ast.FuncDecl:
				if fn, ok := pk.TypesInfo.Defs[x.Name].(*types.Func); ok {
					p.declOf[fn] = x
				}
			case *ast.FuncLit:
				p.litsOf[x.Pos()] = x
			}
			return true
		})
	}
}

// funcBody returns the syntax of a source function (declaration or literal).
func (p *Prog) funcSyntax(f *ssa.Function) ast.Node {
	p.indexAST()
	if f.Origin() != nil {
		f = f.Origin()
	}
	if n := f.Syntax(); n != nil {
		return n
	}
	return nil
}

// pkgOfPos returns the package containing a position.
func (p *Prog) pkgOfPos(pos token.Pos) *packages.Package {
	for f, pk := range p.fileOf {
		if f.Pos() <= pos && pos <= f.End() {
			return pk
		}
	}
	return nil
}

// enclosingFuncName returns a stable name for the innermost function
// declaration containing pos: "pkg.Func" or "pkg.(Recv).Method".
func (p *Prog) enclosingFuncName(pos token.Pos) string {
	for f, pk := range p.fileOf {
		if !(f.Pos() <= pos && pos <= f.End()) {
			continue
		}
		for _, d := range f.Decls {
			fd, ok := d.(*ast.FuncDecl)
			if !ok || !(fd.Pos() <= pos && pos <= fd.End()) {
				continue
			}
			return short(pk.PkgPath) + "." + declName(fd)
		}
		return short(pk.PkgPath) + ".<package scope>"
	}
	return "?"
}

func declName(fd *ast.FuncDecl) string {
	if fd.Recv == nil || len(fd.Recv.List) == 0 {
		return fd.Name.Name
	}
	return "(" + types.ExprString(fd.Recv.List[0].Type) + ")." + fd.Name.Name
}

// constInt evaluates a constant expression to int64 using type info.
func constInt(info *types.Info, e ast.Expr) (int64, bool) {
	tv, ok := info.Types[e]
	if !ok || tv.Value == nil {
		return 0, false
	}
	return constToInt(tv)
}

// loadExtra loads a standalone module (the checker's own positive examples).
func loadExtra(dir string) *Prog {
	cfg := &packages.Config{Mode: packages.LoadAllSyntax, Dir: dir, Env: goEnv("")}
	pkgs, err := packages.Load(cfg, "./...")
	if err != nil || len(pkgs) == 0 {
		fatalf("loading %s: %v", dir, err)
	}
	if packages.PrintErrors(pkgs) > 0 {
		fatalf("positive examples in %s do not type-check", dir)
	}
	p := &Prog{Pkgs: map[string]*packages.Package{}, fileOf: map[*ast.File]*packages.Package{}}
	for _, pk := range pkgs {
		p.Pkgs[pk.PkgPath] = pk
		p.Fset = pk.Fset
		for _, f := range pk.Syntax {
			p.fileOf[f] = pk
		}
	}
	p.SSA, _ = ssautil.AllPackages(pkgs, ssa.InstantiateGenerics)
	p.SSA.Build()
	p.AllFns = ssautil.AllFunctions(p.SSA)
	for _, sp := range p.SSA.AllPackages() {
		if p.Pkgs[sp.Pkg.Path()] == nil {
			continue
		}
		for _, m := range sp.Members {
			if t, ok := m.(*ssa.Type); ok {
				for _, ty := range []types.Type{t.Type(), types.NewPointer(t.Type())} {
					ms := p.SSA.MethodSets.MethodSet(ty)
					for i := 0; i < ms.Len(); i++ {
						if f := p.SSA.MethodValue(ms.At(i)); f != nil {
							p.AllFns[f] = true
						}
					}
				}
			}
		}
	}
	for f := range p.AllFns {
		if pk := p.pkgOfFn(f); pk != nil && p.Pkgs[pk.Pkg.Path()] != nil && len(f.Blocks) > 0 && f.Synthetic == "" {
			p.Funcs = append(p.Funcs, f)
		}
	}
	sort.Slice(p.Funcs, func(i, j int) bool { return p.Funcs[i].String() < p.Funcs[j].String() })
	return p
}
