package main

import (
	"fmt"
	"go/ast"
	"go/constant"
	"go/token"
	"go/types"
	"os"
	"sort"
	"strings"

	"golang.org/x/tools/go/ssa"
)

var graphMarkers = nameSet("(*resolve.Graph).AddEdge", "(*resolve.Graph).AddError")

func pathTrusted(r *Report) {
	r.Trusted = append(r.Trusted, "go/types, go/ssa control-flow graphs and dominator trees (x/tools v0.29.0)")
}

// depLoop finds the innermost loop of fn containing a call matched by anchor.
func depLoop(fn *ssa.Function, anchor map[string]bool) (*loop, ssa.Instruction) {
	loops := naturalLoops(fn)
	var best *loop
	var at ssa.Instruction
	for _, b := range fn.Blocks {
		in := blockCalls(b, anchor)
		if in == nil {
			continue
		}
		if l := innermostLoop(loops, b); l != nil && (best == nil || len(l.body) < len(best.body)) {
			best, at = l, in
		}
	}
	return best, at
}

// loopAccountRule applies LOOP-ACCOUNT and reports.
func loopAccountRule(r *Report, p *Prog, rule string, fn *ssa.Function, l *loop, exempt []exemption, minAccounted int) {
	res := loopAccount(l, graphMarkers, exempt)
	key := fnKey(fn) + ": dependency loop"
	hpos := blockPos(p, l.header)
	for _, path := range res.unaccounted {
		pp := pathPositions(p, path)
		end := "starts the next iteration"
		if last := path[len(path)-1]; last != l.header {
			end = "leaves the loop"
		}
		k := key + " path ending after " + lastCallOnPath(path)
		r.bad(rule, k, pp[len(pp)-1], "a path through one iteration of the dependency loop "+end+" without AddEdge, AddError or return: the requirement is silently dropped", pp...)
	}
	if len(res.unaccounted) == 0 {
		ex := ""
		for k, v := range res.exempted {
			ex += fmt.Sprintf(", %d exempt edges (%s)", v, k)
		}
		r.ok(rule, key, hpos, fmt.Sprintf("every path of an iteration reaches one of %d AddEdge/AddError blocks or one of %d returns%s", res.accounted, res.returns, ex))
	}
	r.floor(rule, fnKey(fn)+" accounted exits", res.accounted, minAccounted)
}

// lastCallOnPath names the last static call on a path, as a line-free key.
func lastCallOnPath(path []*ssa.BasicBlock) string {
	name := "loop header"
	for _, b := range path {
		for _, in := range b.Instrs {
			if n := staticCalleeName(in); n != "" {
				name = n
			} else if n := invokeName(in); n != "" {
				name = n
			}
		}
	}
	return name
}

// pairRule: every AddNode in the loop is followed, on all paths to the next
// iteration / loop exit / success return, by an AddEdge whose target is the
// node just created.
func pairRule(r *Report, p *Prog, rule string, fn *ssa.Function, l *loop, min int) {
	n := 0
	for _, b := range fn.Blocks {
		if !l.body[b] {
			continue
		}
		for i, in := range b.Instrs {
			if staticCalleeName(in) != "(*resolve.Graph).AddNode" {
				continue
			}
			n++
			node := in.(ssa.Value)
			// where the id is stored (field-held ids such as resolved.id)
			type slot struct {
				f    *types.Var
				base ssa.Value
			}
			var slots []slot
			for _, ref := range *node.Referrers() {
				if st, ok := ref.(*ssa.Store); ok && st.Val == node {
					if f, base := fieldOfAddr(st.Addr); f != nil {
						slots = append(slots, slot{f, base})
					}
				}
			}
			isTarget := func(v ssa.Value) bool {
				if v == node {
					return true
				}
				if u, ok := v.(*ssa.UnOp); ok {
					if f, base := fieldOfAddr(u.X); f != nil {
						for _, s := range slots {
							if s.f == f && s.base == base {
								return true
							}
						}
					}
				}
				return false
			}
			okEdge := func(x ssa.Instruction) bool {
				if staticCalleeName(x) != "(*resolve.Graph).AddEdge" {
					return false
				}
				args := x.(ssa.CallInstruction).Common().Args
				return len(args) >= 3 && isTarget(args[2])
			}
			stop := map[*ssa.BasicBlock]bool{l.header: true}
			for _, ob := range fn.Blocks {
				if !l.body[ob] && !exitAborts(ob, l) {
					stop[ob] = true
				}
			}
			key := fmt.Sprintf("%s: AddNode #%d in dependency loop", fnKey(fn), n)
			if path := mustPassFrom(b, i, stop, okEdge, true); path != nil {
				pp := pathPositions(p, path)
				r.bad(rule, key, p.pos(in.Pos()), "a node is added to the graph but a path reaches the next iteration without an AddEdge to it: the node may be unreachable from the root", pp...)
			} else {
				r.ok(rule, key, p.pos(in.Pos()), "every continuing path passes (*Graph).AddEdge whose target is the id returned here")
			}
		}
	}
	r.floor(rule, fnKey(fn)+" AddNode calls in the dependency loop", n, min)
}

// graphWritersRule: in the functions reachable from roots nothing but the
// Graph's own Add* methods writes Graph.Nodes / Graph.Edges.
func graphWritersRule(r *Report, p *Prog, e *Effect, rule string, roots []*ssa.Function) {
	reach := p.reachableFrom(roots)
	// Canon/renumber reorder a finished graph (the Maven resolver compares two
	// finished graphs through eq, which canonicalises copies); they delete nothing: C13.
	for f := range reach {
		if n := fnKey(f); n == "(*resolve.Graph).Canon" || n == "(*resolve.Graph).renumber" || strings.HasPrefix(n, "(*resolve.Graph).renumber$") || strings.HasPrefix(n, "(*resolve.Graph).Canon$") {
			delete(reach, f)
		}
	}
	allowed := nameSet("(*resolve.Graph).AddNode", "(*resolve.Graph).AddEdge", "(*resolve.Graph).AddError")
	n := 0
	for _, s := range e.allSites {
		if !reach[s.fn] || s.field == nil {
			continue
		}
		fk := fieldOwnerKey(p, s.field)
		if fk != "resolve.Graph.Nodes" && fk != "resolve.Graph.Edges" {
			continue
		}
		n++
		key := fnKey(s.fn) + ": " + s.desc
		if allowed[fnKey(s.fn)] {
			r.ok(rule, key, p.pos(s.pos), "append-only writer owned by Graph")
		} else {
			r.bad(rule, key, p.pos(s.pos), "Graph.Nodes/Edges written outside AddNode/AddEdge/AddError during resolution: the reachability induction (every node gets an incoming edge, nothing is deleted) no longer holds")
		}
	}
	r.floor(rule, "writers of Graph.Nodes/Edges reachable from "+fnKey(roots[0]), n, 3)
}

func checkC06(r *Report) {
	p := loadResolve("", true)
	pathTrusted(r)
	r.Explain = "Path rules on the SSA control-flow graph of the npm resolver. C06.a LOOP-ACCOUNT: in the loop that asks the client for matching versions of each requirement, every path through one iteration ends in (*Graph).AddEdge, (*Graph).AddError or a return, so each non-dev, non-peer requirement becomes an edge, a node error, or aborts the resolution. C06.b PAIR: each (*Graph).AddNode in that loop is followed on every continuing path by an AddEdge whose target is the id just created; C06.c GRAPH-WRITERS: nothing reachable from Resolve writes Graph.Nodes/Edges except Graph's own append-only Add* methods; with the root as base case every node is reachable from the root by induction on insertion order. C06.d KNOWN-EMPTY-KEY (deny-list): no slot/alias table of the npm resolver is looked up with a variable on a branch where that variable is known to be the empty string (such a lookup can never hit, so a reservation that protects Node's walk-up lookup would be silently ignored). C06.g SLOT-FREE: a freshly installed node is written into a level's children/alias table only where that level was tested to hold no package of that name: the level is the variable of the climbing loop, and each value that flows into it (the dependent's own level at loop entry, the parent at each step) is the argument of a candidate(level, name, alias) call whose non-nil outcome leaves the path, so no directory ends up with two packages of one name; and likewise each such level was the argument of a protected(level, name, alias) call whose positive outcome leaves the path, so an install never lands in a slot reserved for a version resolved higher up. C06.f CLIMB-RESERVES: in the two loops of Resolve that walk up the install tree (p = p.parent), the slot reserved against shadowing (protected / aliasProtected) is that of the level being left, i.e. the map updated belongs to the loop variable itself and not to its parent; otherwise the dependent's own level stays unreserved and a later install can shadow the version its edge points to. C06.e DEV-INERT: in regularImports (the filter that decides which requirements of a version enter that loop) dev requirements and peer-scoped requirements are never emitted, so they must not influence what is emitted either: every write to the filter's suppression tables and every append to its result happens on the not-dev side of a HasAttr(dep.Dev) test and on the not-peer side of a scope test of the same iteration; otherwise a dev entry could suppress a regular requirement that then gets neither an edge nor an error. Not decided: that the edge target satisfies the requirement, version choice, and the hoisting/shadowing logic as a whole."
	fn := p.lookupFn("(*resolve/npm.resolver).Resolve")
	if fn == nil {
		r.bad("C06.a/LOOP-ACCOUNT", "npm Resolve", "", "function (*resolve/npm.resolver).Resolve not found")
		return
	}
	l, at := depLoop(fn, nameSet("resolve.Client.MatchingVersions"))
	if l == nil {
		r.bad("C06.a/LOOP-ACCOUNT", fnKey(fn)+": dependency loop", p.pos(fn.Pos()), "no loop containing a Client.MatchingVersions call: anchor lost")
		return
	}
	r.note("dependency loop anchored at %s (header %s, %d blocks)", p.pos(at.Pos()), blockPos(p, l.header), len(l.body))
	loopAccountRule(r, p, "C06.a/LOOP-ACCOUNT", fn, l, nil, 2)
	pairRule(r, p, "C06.b/PAIR", fn, l, 2)
	e := runEffect(p)
	graphWritersRule(r, p, e, "C06.c/GRAPH-WRITERS", []*ssa.Function{fn})
	knownEmptyKeyRule(r, p, "C06.d/KNOWN-EMPTY-KEY", "resolve/npm")
	devInertRule(r, p, "C06.e/DEV-INERT")
	climbReservesRule(r, p, "C06.f/CLIMB-RESERVES", fn)
	slotFreeRule(r, p, "C06.g/SLOT-FREE", fn)
	nKL := keyLiteralCompleteRule(r, p, "C06.h/KEY-LITERAL-COMPLETE", "resolve", "resolve/npm", "resolve/maven", "resolve/pypi", "resolve/schema")
	r.floor("C06.h/KEY-LITERAL-COMPLETE", "keyed resolve.PackageKey literals in the resolvers and clients", nKL, 5)
	r.Stats["loop_blocks"] = len(l.body)
}

func checkC07(r *Report) {
	p := loadResolve("", true)
	pathTrusted(r)
	r.Explain = "Path rules on the SSA control-flow graph of the Maven resolver's traversal. C07.a LOOP-ACCOUNT on the loop over a version's imports that calls findMatch: every path of an iteration ends in AddEdge, AddError or return, except two documented skips attached to the true edge of their guard: the artifact is excluded on this path (isExcluded) and scope == \"provided\" in multi-registry mode. C07.b PAIR: the AddNode in the loop is followed by an AddEdge to that node. C07.c GRAPH-WRITERS as for npm. C07.d RETRY-BOUND: the retry loop on incompatible requirements compares a counter that is incremented once per iteration with the constant maxRetries. C07.e NODE-REGISTERED: every table that records the id of a node added in the loop on some path records it on every continuing path, so the de-duplication tables that enforce one version per artifact stay in step with the graph. C07.f INHERITED-SET: the exclusion set stored in a traversal node is shared by reference with the nodes that inherit it and is therefore never written in place (a new node's set is built in the dependency's own freshly parsed map). C07.g INCOMPATIBLE-FIRST: inside the loop every AddEdge/AddNode for the match is behind the test 'this artifact is already resolved' (which raises the incompatible-requirements retry), except the edge to an exactly known artifact+version. C07.j ROOT-REQUIREMENT: resolve() seeds the requirements table with the root's own version where it enters the root in the resolved set, so a cycle back to the root's artifact is mediated like any other declaration (nearest wins) instead of failing as incompatible. C07.i RESOLVED-WITH-EDGE: every iteration that attaches the match to the graph leaves the declared artifact (the resolver's key: group:artifact with classifier and type) marked as resolved - the edge goes to an exactly known artifact+version, or the iteration sets the resolved mark before it ends - so a later declaration of that artifact in another version raises the incompatible-requirements retry instead of adding a second version. C07.h EXCLUDED-INERT: every table update and graph write of the loop lies on the not-excluded side of the isExcluded test, so an excluded declaration leaves no requirement, node or edge behind. Not decided: nearest-wins, range satisfaction, management override."
	fn := p.lookupFn("(*resolve/maven.resolver).resolve")
	if fn == nil {
		r.bad("C07.a/LOOP-ACCOUNT", "maven resolve", "", "function (*resolve/maven.resolver).resolve not found")
		return
	}
	l, at := depLoop(fn, nameSet("(*resolve/maven.resolver).findMatch"))
	if l == nil {
		r.bad("C07.a/LOOP-ACCOUNT", fnKey(fn)+": dependency loop", p.pos(fn.Pos()), "no loop containing a findMatch call: anchor lost")
		return
	}
	r.note("dependency loop anchored at %s (header %s, %d blocks)", p.pos(at.Pos()), blockPos(p, l.header), len(l.body))
	exempt := []exemption{
		{"artifact excluded on this path (isExcluded)", func(c ssa.Value) bool {
			return condDerives(c, 0, func(v ssa.Value) bool {
				call, ok := v.(*ssa.Call)
				return ok && staticCalleeName(call) == "(*resolve/maven.resolver).isExcluded"
			})
		}},
		{"scope == provided in multi-registry mode", func(c ssa.Value) bool {
			b, ok := c.(*ssa.BinOp)
			if !ok {
				return false
			}
			for _, pair := range [][2]ssa.Value{{b.X, b.Y}, {b.Y, b.X}} {
				if isConstString(pair[0], "provided") && condDerives(pair[1], 0, func(v ssa.Value) bool {
					call, ok := v.(*ssa.Call)
					return ok && strings.HasSuffix(staticCalleeName(call), "dep.Type).GetAttr")
				}) {
					return true
				}
			}
			return false
		}},
	}
	loopAccountRule(r, p, "C07.a/LOOP-ACCOUNT", fn, l, exempt, 2)
	pairRule(r, p, "C07.b/PAIR", fn, l, 1)
	e := runEffect(p)
	root := p.lookupFn("(*resolve/maven.resolver).Resolve")
	if root == nil {
		r.bad("C07.c/GRAPH-WRITERS", "maven Resolve", "", "function (*resolve/maven.resolver).Resolve not found")
		return
	}
	graphWritersRule(r, p, e, "C07.c/GRAPH-WRITERS", []*ssa.Function{root})
	loopBoundRule(r, p, "C07.d/RETRY-BOUND", root, "maxRetries")
	nodeRegisteredRule(r, p, "C07.e/NODE-REGISTERED", fn, l)
	inheritedSetRule(r, p, e, "C07.f/INHERITED-SET")
	incompatibleFirstRule(r, p, "C07.g/INCOMPATIBLE-FIRST", fn, l)
	skippedInertRule(r, p, "C07.h/EXCLUDED-INERT", fn, l, exempt[0].match, "excluded")
	resolvedWithEdgeRule(r, p, "C07.i/RESOLVED-WITH-EDGE", fn, l)
	rootRequirementRule(r, p, "C07.j/ROOT-REQUIREMENT", fn, l)
}

// rootRequirementRule: resolve() enters the root in the resolved set before
// the traversal starts. The version an artifact was resolved to is judged,
// when the artifact is declared again, against the requirements recorded for
// it; so the root's own version has to be recorded as the first requirement on
// the root's artifact as well (a store into the requirements table outside the
// traversal loops). Without it a dependency cycle that comes back to the
// root's artifact at another soft version is compared with an empty history,
// can never be compatible, and the resolution fails after its retries.
func rootRequirementRule(r *Report, p *Prog, rule string, fn *ssa.Function, l *loop) {
	loops := naturalLoops(fn)
	isKeyStruct := func(t types.Type) bool {
		_, ok := t.Underlying().(*types.Struct)
		return ok
	}
	var seedResolved, seedReq []ssa.Instruction
	for _, b := range fn.Blocks {
		// only what runs once, before the traversal: outside every loop and on the way to the dependency loop
		if innermostLoop(loops, b) != nil || !reaches(b, l.header, nil) || reaches(l.header, b, nil) {
			continue
		}
		for _, in := range b.Instrs {
			mu, ok := in.(*ssa.MapUpdate)
			if !ok {
				continue
			}
			mt, ok := mu.Map.Type().Underlying().(*types.Map)
			if !ok || !isKeyStruct(mt.Key()) {
				continue
			}
			if bt, ok := mt.Elem().Underlying().(*types.Basic); ok && bt.Kind() == types.Bool {
				seedResolved = append(seedResolved, in)
			}
			if st, ok := mt.Elem().Underlying().(*types.Slice); ok && strings.HasSuffix(st.Elem().String(), "deps.dev/util/resolve.VersionKey") {
				seedReq = append(seedReq, in)
			}
		}
	}
	key := fnKey(fn) + ": the root's own version is its artifact's first requirement"
	switch {
	case len(seedResolved) == 0:
		r.bad(rule, key, p.pos(fn.Pos()), "the store that enters the root in the resolved set before the traversal was not found: anchor lost")
	case len(seedReq) == 0:
		r.bad(rule, key, p.pos(seedResolved[0].Pos()), "the root is entered in the resolved set before the traversal, but nothing is recorded for it in the requirements table: a later declaration of the root's own artifact (a cycle back to it at another soft version) is judged against an empty history and can never be compatible, so the resolution fails instead of keeping the root")
	default:
		r.ok(rule, key, p.pos(seedReq[0].Pos()), "the requirements table is seeded for the root next to the resolved set")
	}
}

// resolvedWithEdgeRule: whenever an iteration of the dependency loop attaches
// the match to the graph (AddEdge), the artifact it was declared as (the
// resolver's own key: group:artifact with classifier and type) is from then on
// known as resolved: either the edge goes to an exactly known artifact+version
// (a hit in the table keyed by the resolver's key), or the iteration marks the
// artifact in the resolved set before it ends. Otherwise a later declaration
// of that artifact in another version is not recognised as incompatible and a
// second version of the artifact enters the graph.
func resolvedWithEdgeRule(r *Report, p *Prog, rule string, fn *ssa.Function, l *loop) {
	isResolvedSetUpdate := func(in ssa.Instruction) bool {
		mu, ok := in.(*ssa.MapUpdate)
		if !ok {
			return false
		}
		mt, ok := mu.Map.Type().Underlying().(*types.Map)
		if !ok {
			return false
		}
		if _, ok := mt.Key().Underlying().(*types.Struct); !ok {
			return false
		}
		b, ok := mt.Elem().Underlying().(*types.Basic)
		if !ok || b.Kind() != types.Bool {
			return false
		}
		c, ok := mu.Value.(*ssa.Const)
		return ok && c.Value != nil && c.Value.Kind() == constant.Bool && constant.BoolVal(c.Value)
	}
	knownHit := func(b *ssa.BasicBlock) bool {
		for d := range l.body {
			ifi, ok := d.Instrs[len(d.Instrs)-1].(*ssa.If)
			if !ok {
				continue
			}
			hit := condDerives(ifi.Cond, 0, func(v ssa.Value) bool {
				ex, ok := v.(*ssa.Extract)
				if !ok {
					return false
				}
				lk, ok := ex.Tuple.(*ssa.Lookup)
				if !ok {
					return false
				}
				mt, ok := lk.X.Type().Underlying().(*types.Map)
				if !ok {
					return false
				}
				nk, ok := mt.Key().(*types.Named)
				return ok && nk.Obj().Pkg() == fn.Pkg.Pkg && strings.HasSuffix(mt.Elem().String(), "deps.dev/util/resolve.NodeID")
			})
			if hit && d.Succs[0].Dominates(b) && len(d.Succs[0].Preds) == 1 {
				return true
			}
		}
		return false
	}
	n := 0
	for _, b := range fn.Blocks {
		if !l.body[b] {
			continue
		}
		for i, in := range b.Instrs {
			if staticCalleeName(in) != "(*resolve.Graph).AddEdge" {
				continue
			}
			n++
			key := fmt.Sprintf("%s: AddEdge #%d leaves the artifact marked resolved", fnKey(fn), n)
			if knownHit(b) {
				r.ok(rule, key, p.pos(in.Pos()), "the edge goes to an exactly known artifact+version (registered together with the resolved mark when its node was added)")
				continue
			}
			path := mustPassFrom(b, i, map[*ssa.BasicBlock]bool{l.header: true}, isResolvedSetUpdate, true)
			if path != nil {
				r.bad(rule, key, p.pos(in.Pos()), "an iteration attaches the match to the graph and ends without marking the declared artifact (group:artifact with classifier and type) as resolved: a later declaration of the same artifact in another version is not seen as incompatible, and the graph ends up with two versions of it", pathPositions(p, path)...)
			} else {
				r.ok(rule, key, p.pos(in.Pos()), "every path to the end of the iteration marks the artifact in the resolved set")
			}
		}
	}
	r.floor(rule, "AddEdge calls in the dependency loop", n, 3)
}

// skippedInertRule: a declaration that the loop skips (here: excluded on this
// path) must leave no trace: every update of a traversal table and every graph
// write of the loop lies on the not-skipped side of the test, so a skipped
// declaration cannot take part in mediation through what it recorded.
func skippedInertRule(r *Report, p *Prog, rule string, fn *ssa.Function, l *loop, isSkipTest func(ssa.Value) bool, what string) {
	type guard struct{ b, skip *ssa.BasicBlock }
	var guards []guard
	for b := range l.body {
		ifi, ok := b.Instrs[len(b.Instrs)-1].(*ssa.If)
		if !ok {
			continue
		}
		cond, neg := ifi.Cond, false
		if u, ok := cond.(*ssa.UnOp); ok && u.Op == token.NOT {
			cond, neg = u.X, true
		}
		// the err != nil test of the same call is not the skip test
		if bo, ok := cond.(*ssa.BinOp); ok && (bo.Op == token.NEQ || bo.Op == token.EQL) {
			if c, ok := bo.Y.(*ssa.Const); ok && c.Value == nil {
				continue
			}
		}
		if !isSkipTest(cond) {
			continue
		}
		skip := b.Succs[0]
		if neg {
			skip = b.Succs[1]
		}
		guards = append(guards, guard{b, skip})
	}
	if len(guards) == 0 {
		r.bad(rule, fnKey(fn)+": "+what+" test", p.pos(fn.Pos()), "the test that skips a declaration was not found in the dependency loop: anchor lost")
		return
	}
	n := 0
	seen := map[string]int{}
	for _, b := range fn.Blocks { // block order, so that the #n in keys is stable
		if !l.body[b] {
			continue
		}
		for _, in := range b.Instrs {
			what2 := ""
			switch x := in.(type) {
			case *ssa.MapUpdate:
				what2 = "update of a " + short(x.Map.Type().String()) + " table"
			case ssa.CallInstruction:
				switch staticCalleeName(x) {
				case "(*resolve.Graph).AddEdge", "(*resolve.Graph).AddNode", "(*resolve.Graph).AddError":
					what2 = "call of " + staticCalleeName(x)
				}
			}
			if what2 == "" {
				continue
			}
			n++
			seen[what2]++
			key := fmt.Sprintf("%s: %s #%d", fnKey(fn), what2, seen[what2])
			okG := false
			for _, g := range guards {
				if guardedBy(g.b, g.skip, b) {
					okG = true
				}
			}
			if okG {
				r.ok(rule, key, p.pos(in.Pos()), "on the not-"+what+" side of the test")
			} else {
				r.bad(rule, key, p.pos(in.Pos()), "reached by a declaration that is "+what+" on this path: what it records here (its requirement, a node, an edge) takes part in mediation although Maven prunes such declarations before conflict resolution")
			}
		}
	}
	r.floor(rule, "table updates and graph writes in the dependency loop", n, 6)
}

// incompatibleFirstRule: inside the dependency loop, the test "this artifact is
// already resolved (to something else)" — a lookup in a map[packageKey]bool
// whose hit returns the incompatible-requirements error — precedes every place
// that adds an edge or a node for the match, except the edge added when the
// exact artifact+version is already known (a lookup hit in the
// map[versionKey]NodeID table).
func incompatibleFirstRule(r *Report, p *Prog, rule string, fn *ssa.Function, l *loop) {
	var guard *ssa.BasicBlock
	var guardBad *ssa.BasicBlock
	// the two tables are recognised by their shape, not by the names of the
	// resolver's private key types: "resolved" is a set keyed by a struct
	// (map[K]bool), "known" maps the resolver's own struct key to a resolve.NodeID.
	const resolvedSet, knownNodes = "set", "nodes"
	var derivesAll func(v ssa.Value, depth int, pred func(ssa.Value) bool) bool
	derivesAll = func(v ssa.Value, depth int, pred func(ssa.Value) bool) bool {
		// like condDerives, but a value merged from several sources (a phi)
		// derives from the table only if EVERY source does
		if depth > 8 || v == nil {
			return false
		}
		if pred(v) {
			return true
		}
		switch x := v.(type) {
		case *ssa.Extract:
			return derivesAll(x.Tuple, depth+1, pred)
		case *ssa.UnOp:
			return derivesAll(x.X, depth+1, pred)
		case *ssa.Phi:
			for _, e := range x.Edges {
				if !derivesAll(e, depth+1, pred) {
					return false
				}
			}
			return len(x.Edges) > 0
		}
		return false
	}
	var strict bool
	lookupOn := func(c ssa.Value, kind string) bool {
		derive := condDerives
		if strict {
			derive = derivesAll
		}
		return derive(c, 0, func(v ssa.Value) bool {
			var lk *ssa.Lookup
			switch x := v.(type) {
			case *ssa.Lookup:
				lk = x
			case *ssa.Extract:
				lk, _ = x.Tuple.(*ssa.Lookup)
			}
			if lk == nil {
				return false
			}
			mt, ok := lk.X.Type().Underlying().(*types.Map)
			if !ok {
				return false
			}
			if _, ok := mt.Key().Underlying().(*types.Struct); !ok {
				return false
			}
			switch kind {
			case resolvedSet:
				b, ok := mt.Elem().Underlying().(*types.Basic)
				return ok && b.Kind() == types.Bool
			case knownNodes:
				// keyed by the resolver's own artifact+version key (declared in the
				// resolver's package), not by the graph-level resolve.VersionKey
				nk, ok := mt.Key().(*types.Named)
				return ok && nk.Obj().Pkg() == fn.Pkg.Pkg && strings.HasSuffix(mt.Elem().String(), "deps.dev/util/resolve.NodeID")
			}
			return false
		})
	}
	for b := range l.body {
		ifi, ok := b.Instrs[len(b.Instrs)-1].(*ssa.If)
		if !ok || !lookupOn(ifi.Cond, resolvedSet) {
			continue
		}
		// the hit side must leave with the incompatible error
		hit := b.Succs[0]
		if !l.body[hit] || exitAborts(hit, l) || abortsWithin(hit, l) {
			guard, guardBad = b, hit
		}
	}
	key := fnKey(fn) + ": already-resolved test precedes edges and nodes"
	if guard == nil {
		r.bad(rule, key, p.pos(fn.Pos()), "the test that an artifact is already resolved (and the incompatible-requirements error it raises) was not found in the dependency loop")
		return
	}
	n := 0
	okAll := true
	for b := range l.body {
		for _, in := range b.Instrs {
			name := staticCalleeName(in)
			if name != "(*resolve.Graph).AddEdge" && name != "(*resolve.Graph).AddNode" {
				continue
			}
			n++
			if guardedBy(guard, guardBad, b) {
				continue
			}
			// exempt: the edge to an exactly known artifact+version (hit in the versionKey table)
			exempt := false
			for d := range l.body {
				ifi, ok := d.Instrs[len(d.Instrs)-1].(*ssa.If)
				strict = true
				if ok && lookupOn(ifi.Cond, knownNodes) && d.Succs[0].Dominates(b) && len(d.Succs[0].Preds) == 1 {
					exempt = true
				}
				strict = false
			}
			if exempt {
				continue
			}
			okAll = false
			r.bad(rule, key+" / "+name, p.pos(in.Pos()), "an edge or node for the match is added on a path that has not yet tested whether the artifact is already resolved to another version: a second version of the artifact enters the graph instead of the incompatible-requirements retry")
		}
	}
	if okAll {
		r.ok(rule, key, blockPos(p, guard), fmt.Sprintf("all %d AddEdge/AddNode calls of the loop are behind the test (or behind an exact artifact+version hit)", n))
	}
	r.floor(rule, "AddEdge/AddNode calls in the dependency loop", n, 3)
}

// abortsWithin: every path from b stays in straight-line/branching code and ends in an error return.
func abortsWithin(b *ssa.BasicBlock, l *loop) bool {
	seen := map[*ssa.BasicBlock]bool{}
	stack := []*ssa.BasicBlock{b}
	for len(stack) > 0 {
		x := stack[len(stack)-1]
		stack = stack[:len(stack)-1]
		if seen[x] {
			continue
		}
		seen[x] = true
		if len(seen) > 32 || x == l.header {
			return false
		}
		if ret, ok := x.Instrs[len(x.Instrs)-1].(*ssa.Return); ok {
			if isSuccessReturn(ret) {
				return false
			}
			continue
		}
		for _, s := range x.Succs {
			stack = append(stack, s)
		}
	}
	return true
}

// nodeRegisteredRule: every map that records the id returned by an AddNode of
// the loop on some path records it on every continuing path (the resolver's
// de-duplication tables stay in step with the graph).
func nodeRegisteredRule(r *Report, p *Prog, rule string, fn *ssa.Function, l *loop) {
	n := 0
	for _, b := range fn.Blocks {
		if !l.body[b] {
			continue
		}
		for i, in := range b.Instrs {
			if staticCalleeName(in) != "(*resolve.Graph).AddNode" {
				continue
			}
			node := in.(ssa.Value)
			maps := map[ssa.Value]string{}
			for _, ref := range *node.Referrers() {
				if mu, ok := ref.(*ssa.MapUpdate); ok && mu.Value == node {
					maps[mu.Map] = mu.Map.Name()
					if al, ok := mu.Map.(*ssa.UnOp); ok {
						if a, ok := al.X.(*ssa.Alloc); ok {
							maps[mu.Map] = a.Comment
						}
					}
				}
			}
			stop := map[*ssa.BasicBlock]bool{l.header: true}
			for _, ob := range fn.Blocks {
				if !l.body[ob] && !exitAborts(ob, l) {
					stop[ob] = true
				}
			}
			for m, name := range maps {
				n++
				key := fmt.Sprintf("%s: node id recorded in map %s", fnKey(fn), short(m.Type().String()))
				_ = name
				okUpd := func(x ssa.Instruction) bool {
					mu, ok := x.(*ssa.MapUpdate)
					return ok && mu.Value == node && sameMap(mu.Map, m)
				}
				if path := mustPassFrom(b, i, stop, okUpd, true); path != nil {
					pp := pathPositions(p, path)
					r.bad(rule, key, p.pos(in.Pos()), "a path adds the node and reaches the next iteration without recording its id in this table, which other paths do record: later requirements on the same artifact no longer find the node and a second version can be added", pp...)
				} else {
					r.ok(rule, key, p.pos(in.Pos()), "recorded on every continuing path after AddNode")
				}
			}
		}
	}
	r.floor(rule, "tables recording the id of a node added in the loop", n, 2)
}

// sameMap: two loads of the same local map variable, or the same SSA value.
func sameMap(a, b ssa.Value) bool {
	if a == b {
		return true
	}
	ua, ok1 := a.(*ssa.UnOp)
	ub, ok2 := b.(*ssa.UnOp)
	return ok1 && ok2 && ua.X == ub.X
}

// knownEmptyKeyRule (deny-list): a map is indexed (or a function called) with a
// string variable that the enclosing branch established to be empty.
func knownEmptyKeyRule(r *Report, p *Prog, rule string, pkgRel string) {
	pk := p.pkg(pkgRel)
	n, bad := 0, 0
	for _, f := range pk.Syntax {
		pm := buildParents(f)
		ast.Inspect(f, func(nd ast.Node) bool {
			ix, ok := nd.(*ast.IndexExpr)
			if !ok {
				return true
			}
			if tv, ok := pk.TypesInfo.Types[ix.X]; !ok || tv.Type == nil {
				return true
			} else if _, isMap := tv.Type.Underlying().(*types.Map); !isMap {
				return true
			}
			id, ok := ast.Unparen(ix.Index).(*ast.Ident)
			if !ok {
				return true
			}
			n++
			want := id.Name + ` == ""`
			for _, g := range guardFactsAt(ix, pm) {
				if g.text == want {
					bad++
					r.bad(rule, p.enclosingFuncName(ix.Pos())+": "+types.ExprString(ix), p.pos(ix.Pos()), "the map is indexed with "+id.Name+" on a branch where "+id.Name+` == "" holds: the lookup can never find a named entry (a different key was meant)`)
				}
			}
			return true
		})
	}
	if bad == 0 {
		r.ok(rule, "package "+pkgRel, "", fmt.Sprintf("none of the %d map lookups keyed by a variable sits on a branch where that variable is known to be empty", n))
	}
	r.floor(rule, "map lookups keyed by a variable in "+pkgRel, n, 5)
}

// devInertRule: see checkC06. The rule is about regularImports only: its
// output is the exact list of requirements the resolution loop accounts for.
func devInertRule(r *Report, p *Prog, rule string) {
	fn := p.lookupFn("(*resolve/npm.resolver).regularImports")
	if fn == nil {
		r.bad(rule, "npm regularImports", "", "function (*resolve/npm.resolver).regularImports not found: anchor lost")
		return
	}
	var devVal constant.Value
	if dp := p.Pkgs[modPrefix+"resolve/dep"]; dp != nil {
		if c, ok := dp.Types.Scope().Lookup("Dev").(*types.Const); ok {
			devVal = c.Val()
		}
	}
	if devVal == nil {
		r.bad(rule, "dep.Dev", "", "constant resolve/dep.Dev not found: anchor lost")
		return
	}
	type guard struct{ b, bad *ssa.BasicBlock }
	var guards []guard
	for _, b := range fn.Blocks {
		ifi, ok := b.Instrs[len(b.Instrs)-1].(*ssa.If)
		if !ok {
			continue
		}
		cond, neg := ifi.Cond, false
		if u, ok := cond.(*ssa.UnOp); ok && u.Op == token.NOT {
			cond, neg = u.X, true
		}
		c, ok := cond.(*ssa.Call)
		if !ok || staticCalleeName(c) != "(*resolve/dep.Type).HasAttr" {
			continue
		}
		k, ok := c.Call.Args[len(c.Call.Args)-1].(*ssa.Const)
		if !ok || k.Value == nil || !constant.Compare(k.Value, token.EQL, devVal) {
			continue
		}
		bad := b.Succs[0]
		if neg {
			bad = b.Succs[1]
		}
		guards = append(guards, guard{b, bad})
	}
	// the other class the filter never emits: peer-scoped entries (scope == "peer")
	var peerGuards []guard
	var scopeValues []ssa.Value
	for _, b := range fn.Blocks {
		ifi, ok := b.Instrs[len(b.Instrs)-1].(*ssa.If)
		if !ok {
			continue
		}
		bo, ok := ifi.Cond.(*ssa.BinOp)
		if !ok || (bo.Op != token.EQL && bo.Op != token.NEQ) {
			continue
		}
		var other ssa.Value
		if isConstString(bo.Y, "peer") {
			other = bo.X
		} else if isConstString(bo.X, "peer") {
			other = bo.Y
		} else {
			continue
		}
		fromScope := condDerives(other, 0, func(v ssa.Value) bool {
			call, ok := v.(*ssa.Call)
			return ok && strings.HasSuffix(staticCalleeName(call), "dep.Type).GetAttr")
		})
		if !fromScope {
			continue
		}
		bad := b.Succs[0]
		if bo.Op == token.NEQ {
			bad = b.Succs[1]
		}
		peerGuards = append(peerGuards, guard{b, bad})
		scopeValues = append(scopeValues, other)
	}
	n := 0
	check := func(in ssa.Instruction, what string) {
		n++
		key := fnKey(fn) + ": " + what
		okDev, okPeer := "", ""
		for _, g := range guards {
			if guardedBy(g.b, g.bad, in.Block()) {
				okDev = blockPos(p, g.b)
			}
		}
		for _, g := range peerGuards {
			if guardedBy(g.b, g.bad, in.Block()) {
				okPeer = blockPos(p, g.b)
			}
		}
		if okPeer == "" {
			// the scope may have been established by another case of the same switch
			for _, sv := range scopeValues {
				if knownNot(fn, sv, "peer")[in.Block()] {
					okPeer = "the scope tests on " + sv.Name()
				}
			}
		}
		switch {
		case okDev != "" && okPeer != "":
			r.ok(rule, key, p.pos(in.Pos()), "on the not-dev side of the HasAttr(dep.Dev) test at "+okDev+" and on the not-peer side of the scope test at "+okPeer)
		case okDev == "":
			r.bad(rule, key, p.pos(in.Pos()), "reached by a dev requirement: a dev entry is never emitted by this filter, so letting it write the filter's tables or result lets it suppress a regular requirement that then has neither an edge nor an error")
		default:
			r.bad(rule, key, p.pos(in.Pos()), "reached by a peer-scoped requirement: a peer entry is never emitted by this filter, so letting it write the filter's tables or result lets it (for instance an optional peer) suppress a regular requirement that then has neither an edge nor an error")
		}
	}
	seen := map[string]int{}
	for _, b := range fn.Blocks {
		for _, in := range b.Instrs {
			switch x := in.(type) {
			case *ssa.MapUpdate:
				name := "table"
				if mm, ok := x.Map.(*ssa.MakeMap); ok {
					if refs := mm.Referrers(); refs != nil {
						for _, rf := range *refs {
							if dr, ok := rf.(*ssa.DebugRef); ok {
								name = types.ExprString(dr.Expr)
							}
						}
					}
					_ = mm
				}
				seen["w:"+name]++
				check(in, fmt.Sprintf("write to %s #%d", name, seen["w:"+name]))
			case *ssa.Call:
				if bi, ok := x.Call.Value.(*ssa.Builtin); ok && bi.Name() == "append" {
					seen["append"]++
					check(in, fmt.Sprintf("append to result #%d", seen["append"]))
				}
			}
		}
	}
	r.floor(rule, "HasAttr(dep.Dev) tests in regularImports", len(guards), 2)
	r.floor(rule, "scope == \"peer\" tests in regularImports", len(peerGuards), 1)
	r.floor(rule, "table writes and result appends in regularImports", n, 3)
}

// climbReservesRule: see checkC06 (C06.f).
func climbReservesRule(r *Report, p *Prog, rule string, fn *ssa.Function) {
	loops := naturalLoops(fn)
	fieldName := func(fa *ssa.FieldAddr) string {
		return fa.X.Type().Underlying().(*types.Pointer).Elem().Underlying().(*types.Struct).Field(fa.Field).Name()
	}
	n := 0
	seen := map[string]int{}
	for _, b := range fn.Blocks {
		for _, in := range b.Instrs {
			mu, ok := in.(*ssa.MapUpdate)
			if !ok {
				continue
			}
			ld, ok := mu.Map.(*ssa.UnOp)
			if !ok {
				continue
			}
			fa, ok := ld.X.(*ssa.FieldAddr)
			if !ok || (fieldName(fa) != "protected" && fieldName(fa) != "aliasProtected") {
				continue
			}
			n++
			seen[fieldName(fa)]++
			key := fmt.Sprintf("%s: reservation in %s #%d", fnKey(fn), fieldName(fa), seen[fieldName(fa)])
			l := innermostLoop(loops, b)
			if l == nil {
				r.bad(rule, key, p.pos(mu.Pos()), "a slot is reserved outside the loops that walk up the install tree: not reviewed")
				continue
			}
			// the level whose map is updated
			isClimbVar := func(v ssa.Value) bool {
				phi, ok := v.(*ssa.Phi)
				if !ok || phi.Block() != l.header {
					return false
				}
				for i, e := range phi.Edges {
					if !l.body[phi.Block().Preds[i]] {
						continue
					}
					if u, ok := e.(*ssa.UnOp); ok {
						if f2, ok := u.X.(*ssa.FieldAddr); ok && f2.X == ssa.Value(phi) && fieldName(f2) == "parent" {
							return true
						}
					}
				}
				return false
			}
			switch {
			case isClimbVar(fa.X):
				r.ok(rule, key, p.pos(mu.Pos()), "the map updated belongs to the loop variable, the level being left when the loop advances to its parent")
			default:
				why := "the map updated does not belong to the variable that walks up the tree"
				if u, ok := fa.X.(*ssa.UnOp); ok {
					if f2, ok := u.X.(*ssa.FieldAddr); ok && fieldName(f2) == "parent" && isClimbVar(f2.X) {
						why = "the slot is reserved on the level climbed to (the parent) instead of the level being left"
					}
				}
				r.bad(rule, key, p.pos(mu.Pos()), why+": the dependent's own level is left unreserved, so a later install can be hoisted into it and shadow the version this edge points to")
			}
		}
	}
	r.floor(rule, "reservations of protected/aliasProtected slots in Resolve", n, 3)
	// sibling agreement: every loop that walks up and reserves slots distinguishes the same kinds of name.
	// A node installed under an alias occupies the alias, so a loop that reserves only the package name
	// leaves the alias unreserved on the levels it passes.
	tables := map[*loop]map[string]bool{}
	var order []*loop
	for _, b := range fn.Blocks {
		for _, in := range b.Instrs {
			mu, ok := in.(*ssa.MapUpdate)
			if !ok {
				continue
			}
			ld, ok := mu.Map.(*ssa.UnOp)
			if !ok {
				continue
			}
			fa, ok := ld.X.(*ssa.FieldAddr)
			if !ok || (fieldName(fa) != "protected" && fieldName(fa) != "aliasProtected") {
				continue
			}
			if l := innermostLoop(loops, b); l != nil {
				if tables[l] == nil {
					tables[l] = map[string]bool{}
					order = append(order, l)
				}
				tables[l][fieldName(fa)] = true
			}
		}
	}
	union := map[string]bool{}
	for _, t := range tables {
		for k := range t {
			union[k] = true
		}
	}
	for i, l := range order {
		key := fmt.Sprintf("%s: climbing loop #%d reserves every kind of name", fnKey(fn), i+1)
		var missing []string
		for k := range union {
			if !tables[l][k] {
				missing = append(missing, k)
			}
		}
		sort.Strings(missing)
		if len(missing) > 0 {
			r.bad(rule, key, blockPos(p, l.header), fmt.Sprintf("another loop of Resolve that walks up the install tree reserves %v as well, this one never does: a node installed under an alias occupies the alias, which stays unreserved on the levels this loop passes, so a later install there shadows it", missing))
		} else {
			r.ok(rule, key, blockPos(p, l.header), fmt.Sprintf("reserves %v like the other climbing loop", setNames(union)))
		}
	}
	r.floor(rule, "climbing loops that reserve slots", len(order), 2)
}

// slotFreeRule: see checkC06 (C06.g).
func slotFreeRule(r *Report, p *Prog, rule string, fn *ssa.Function) {
	fieldName := func(fa *ssa.FieldAddr) string {
		return fa.X.Type().Underlying().(*types.Pointer).Elem().Underlying().(*types.Struct).Field(fa.Field).Name()
	}
	// same level: identical value, or two loads of the same field of the same base
	var same func(a, b ssa.Value) bool
	same = func(a, b ssa.Value) bool {
		if a == b {
			return true
		}
		ua, ok1 := a.(*ssa.UnOp)
		ub, ok2 := b.(*ssa.UnOp)
		if ok1 && ok2 && ua.Op == token.MUL && ub.Op == token.MUL {
			fa, ok1 := ua.X.(*ssa.FieldAddr)
			fb, ok2 := ub.X.(*ssa.FieldAddr)
			return ok1 && ok2 && fa.Field == fb.Field && same(fa.X, fb.X)
		}
		return false
	}
	// testedFree: at the end of block at, level v is known to hold no candidate
	testedFree := func(v ssa.Value, at, to *ssa.BasicBlock) bool {
		for _, g := range fn.Blocks {
			ifi, ok := g.Instrs[len(g.Instrs)-1].(*ssa.If)
			if !ok {
				continue
			}
			bo, ok := ifi.Cond.(*ssa.BinOp)
			if !ok || (bo.Op != token.NEQ && bo.Op != token.EQL) {
				continue
			}
			c, ok := bo.Y.(*ssa.Const)
			if !ok || c.Value != nil {
				continue
			}
			ex, ok := bo.X.(*ssa.Extract)
			if !ok || ex.Index != 0 {
				continue
			}
			call, ok := ex.Tuple.(*ssa.Call)
			if !ok || staticCalleeName(call) != "(*resolve/npm.resolver).candidate" || len(call.Call.Args) < 2 || !same(call.Call.Args[1], v) {
				continue
			}
			occupied := g.Succs[0]
			if bo.Op == token.EQL {
				occupied = g.Succs[1]
			}
			if g == at {
				// the test block itself is the predecessor: the edge taken must be the free one
				if to != nil && to != occupied && (g.Succs[0] == to || g.Succs[1] == to) {
					return true
				}
				continue
			}
			if g.Dominates(at) && !reaches(occupied, at, g) {
				return true
			}
		}
		return false
	}
	// installHere: the flag that keeps the new node at the dependent's level; it is the value
	// negated in the header condition of the climbing loop (for !installHere && ...)
	hereVals := map[ssa.Value]bool{}
	for _, l := range naturalLoops(fn) {
		hasProt := false
		for b := range l.body {
			for _, in := range b.Instrs {
				if staticCalleeName(in) == "(*resolve/npm.resolver).protected" {
					hasProt = true
				}
			}
		}
		if !hasProt {
			continue
		}
		if ifi, ok := l.header.Instrs[len(l.header.Instrs)-1].(*ssa.If); ok {
			if u, ok := ifi.Cond.(*ssa.UnOp); ok && u.Op == token.NOT {
				hereVals[u.X] = true
			} else if _, ok := ifi.Cond.Type().Underlying().(*types.Basic); ok {
				hereVals[ifi.Cond] = true
			}
		}
	}
	// testedUnreserved: like testedFree, for the boolean protected(level, name, alias):
	// the path continues on the side where the level does not reserve the name
	testedUnreserved := func(v ssa.Value, at, to *ssa.BasicBlock) bool {
		for _, g := range fn.Blocks {
			ifi, ok := g.Instrs[len(g.Instrs)-1].(*ssa.If)
			if !ok {
				continue
			}
			reservedSucc := -1
			condDerives(ifi.Cond, 0, func(x ssa.Value) bool {
				if call, ok := x.(*ssa.Call); ok && staticCalleeName(call) == "(*resolve/npm.resolver).protected" && len(call.Call.Args) >= 2 && same(call.Call.Args[1], v) {
					reservedSucc = 0
					return true
				}
				return false
			})
			if reservedSucc < 0 {
				continue
			}
			// a condition of the form !installHere && protected(...): the true side is the reserved one
			reserved := g.Succs[0]
			if u, ok := ifi.Cond.(*ssa.UnOp); ok && u.Op == token.NOT {
				reserved = g.Succs[1]
			}
			if g == at {
				if to != nil && to != reserved && (g.Succs[0] == to || g.Succs[1] == to) {
					return true
				}
				continue
			}
			if g.Dominates(at) && !reaches(reserved, at, g) {
				return true
			}
			// the test may be skipped when the node has to be installed at this very level
			// (installHere): accept if, without the edges taken when installHere is true, every
			// path to the install passes the test
			if os.Getenv("DEPSCHECK_DEBUG") != "" {
				fmt.Fprintf(os.Stderr, "unreserved? v=%s guard=%s at=%d to=%v dom=%v reachReserved=%v pruned=%v here=%d\n", v.Name(), blockPos(p, g), at.Index, to != nil, g.Dominates(at), reaches(reserved, at, g), reachesPruned(fn.Blocks[0], at, g, hereVals), len(hereVals))
			}
			if len(hereVals) > 0 && !reachesPruned(reserved, at, g, hereVals) && !reachesPruned(fn.Blocks[0], at, g, hereVals) {
				return true
			}
		}
		return false
	}
	n := 0
	seen := map[string]int{}
	for _, b := range fn.Blocks {
		for _, in := range b.Instrs {
			mu, ok := in.(*ssa.MapUpdate)
			if !ok {
				continue
			}
			ld, ok := mu.Map.(*ssa.UnOp)
			if !ok {
				continue
			}
			fa, ok := ld.X.(*ssa.FieldAddr)
			if !ok || (fieldName(fa) != "children" && fieldName(fa) != "alias") || !strings.HasSuffix(fa.X.Type().String(), "npm.treeNode") {
				continue
			}
			n++
			seen[fieldName(fa)]++
			key := fmt.Sprintf("%s: install into %s #%d", fnKey(fn), fieldName(fa), seen[fieldName(fa)])
			level := fa.X
			// the same for reservations: no level that can reach the install reserves the name
			{
				var unres []string
				if phi, ok := level.(*ssa.Phi); ok {
					for i, e := range phi.Edges {
						if !testedUnreserved(e, phi.Block().Preds[i], phi.Block()) {
							unres = append(unres, fmt.Sprintf("the value arriving from %s", blockPos(p, phi.Block().Preds[i])))
						}
					}
				} else if !testedUnreserved(level, b, nil) {
					unres = append(unres, "the level itself")
				}
				rkey := fmt.Sprintf("%s: install into %s #%d respects reservations", fnKey(fn), fieldName(fa), seen[fieldName(fa)])
				if len(unres) == 0 {
					r.ok(rule, rkey, p.pos(mu.Pos()), "every level that can reach this install was tested with protected() and does not reserve the name")
				} else {
					r.bad(rule, rkey, p.pos(mu.Pos()), "a package is installed into a level that was not tested for a reservation of that name ("+strings.Join(unres, "; ")+"): the name is reserved there when an earlier requirement of the same version was resolved higher up, and the copy installed now shadows it")
				}
			}
			var untested []string
			if phi, ok := level.(*ssa.Phi); ok {
				for i, e := range phi.Edges {
					if !testedFree(e, phi.Block().Preds[i], phi.Block()) {
						untested = append(untested, fmt.Sprintf("the value arriving from %s", blockPos(p, phi.Block().Preds[i])))
					}
				}
			} else if !testedFree(level, b, nil) {
				untested = append(untested, "the level itself")
			}
			if len(untested) == 0 {
				r.ok(rule, key, p.pos(mu.Pos()), "every level that can reach this install was tested with candidate() and found free")
			} else {
				r.bad(rule, key, p.pos(mu.Pos()), "a package is installed into a level that was not tested to be free of a package of that name ("+strings.Join(untested, "; ")+"): the directory can end up holding two packages of one name (one overwriting or shadowing the other), and the requirement is no longer reported as an error")
			}
		}
	}
	r.floor(rule, "installs into children/alias tables in Resolve", n, 2)
}

// knownNot: the blocks of f on whose entry the string value v is known to
// differ from k. Forward must-analysis: an edge taken when v == k2 (k2 != k)
// or when v != k establishes the fact; a join keeps it only if every
// predecessor edge has it; it starts unknown where v is defined.
func knownNot(f *ssa.Function, v ssa.Value, k string) map[*ssa.BasicBlock]bool {
	def := f.Blocks[0]
	if in, ok := v.(ssa.Instruction); ok && in.Block() != nil {
		def = in.Block()
	}
	// edgeFact[b][i]: fact on the i-th out-edge of b given the fact at b's entry
	edge := func(b *ssa.BasicBlock, i int, entry bool) bool {
		ifi, ok := b.Instrs[len(b.Instrs)-1].(*ssa.If)
		if !ok {
			return entry
		}
		bo, ok := ifi.Cond.(*ssa.BinOp)
		if !ok || (bo.Op != token.EQL && bo.Op != token.NEQ) {
			return entry
		}
		var c *ssa.Const
		switch {
		case bo.X == v:
			c, _ = bo.Y.(*ssa.Const)
		case bo.Y == v:
			c, _ = bo.X.(*ssa.Const)
		}
		if c == nil || c.Value == nil || c.Value.Kind() != constant.String {
			return entry
		}
		s := constant.StringVal(c.Value)
		eqEdge := 0
		if bo.Op == token.NEQ {
			eqEdge = 1
		}
		if i == eqEdge { // v == s here
			return s != k
		}
		// v != s here
		if s == k {
			return true
		}
		return entry
	}
	in := map[*ssa.BasicBlock]bool{}
	// optimistic start (true everywhere dominated by def), iterate down
	for _, b := range f.Blocks {
		in[b] = def.Dominates(b) && b != def
	}
	for changed := true; changed; {
		changed = false
		for _, b := range f.Blocks {
			if !in[b] {
				continue
			}
			all := len(b.Preds) > 0
			for _, pr := range b.Preds {
				idx := 0
				for i, s := range pr.Succs {
					if s == b {
						idx = i
					}
				}
				entry := in[pr] && pr != def
				if pr == def {
					entry = false
				}
				if !edge(pr, idx, entry) {
					all = false
				}
			}
			if !all {
				in[b] = false
				changed = true
			}
		}
	}
	return in
}

// reachesPruned: to is reachable from from without passing through avoid and
// without taking an edge on which one of the given boolean values is true.
func reachesPruned(from, to, avoid *ssa.BasicBlock, trueVals map[ssa.Value]bool) bool {
	seen := map[*ssa.BasicBlock]bool{avoid: true}
	stack := []*ssa.BasicBlock{from}
	for len(stack) > 0 {
		b := stack[len(stack)-1]
		stack = stack[:len(stack)-1]
		if seen[b] {
			continue
		}
		seen[b] = true
		if b == to {
			return true
		}
		skip := -1
		if ifi, ok := b.Instrs[len(b.Instrs)-1].(*ssa.If); ok {
			if trueVals[ifi.Cond] {
				skip = 0
			} else if u, ok := ifi.Cond.(*ssa.UnOp); ok && u.Op == token.NOT && trueVals[u.X] {
				skip = 1
			}
		}
		for i, s := range b.Succs {
			if i != skip {
				stack = append(stack, s)
			}
		}
	}
	return false
}
