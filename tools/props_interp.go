package main

import (
	"fmt"
	"go/ast"
	"go/token"
	"go/types"
	"sort"
	"strings"

	"golang.org/x/tools/go/ssa"
)

// interpolateCoverRule (C15/INTERPOLATE-COVER): Maven interpolates every string
// of the model. A struct's interpolate method has to reach every field that
// can hold a placeholder: each field whose type has an interpolate method, and,
// through slices and plain structs, the fields of their elements. A field left
// out keeps "${...}" verbatim in the effective dependency (exclusions written
// with ${project.groupId} never excluded anything).
func interpolateCoverRule(r *Report, p *Prog, rule string, recvTypes ...string) int {
	pk := p.pkg("maven")
	if pk == nil {
		r.bad(rule, "maven", "", "package not loaded")
		return 0
	}
	hasInterp := func(t types.Type) bool {
		for _, tt := range []types.Type{t, types.NewPointer(t)} {
			ms := types.NewMethodSet(tt)
			for i := 0; i < ms.Len(); i++ {
				if ms.At(i).Obj().Name() == "interpolate" {
					return true
				}
			}
		}
		return false
	}
	n := 0
	for _, tn := range recvTypes {
		obj := pk.Types.Scope().Lookup(tn)
		if obj == nil {
			r.bad(rule, "maven."+tn, "", "type not found: anchor lost")
			continue
		}
		f := p.lookupFn("(*maven." + tn + ").interpolate")
		if f == nil {
			r.bad(rule, "maven."+tn, p.pos(obj.Pos()), "method interpolate not found: anchor lost")
			continue
		}
		// what the method reaches
		fieldCalls := map[string]bool{} // "Type.field"
		typeCalls := map[string]bool{}  // "Type"
		for _, b := range f.Blocks {
			for _, in := range b.Instrs {
				c, ok := in.(*ssa.Call)
				if !ok {
					continue
				}
				sc := c.Common().StaticCallee()
				if sc == nil || sc.Name() != "interpolate" || len(c.Common().Args) == 0 {
					continue
				}
				recv := c.Common().Args[0]
				if pt, ok := recv.Type().Underlying().(*types.Pointer); ok {
					if nt, ok := pt.Elem().(*types.Named); ok {
						typeCalls[nt.Obj().Name()] = true
					}
				}
				if fa, ok := recv.(*ssa.FieldAddr); ok {
					if pt, ok := fa.X.Type().Underlying().(*types.Pointer); ok {
						if nt, ok := pt.Elem().(*types.Named); ok {
							if st, ok := nt.Underlying().(*types.Struct); ok {
								fieldCalls[nt.Obj().Name()+"."+st.Field(fa.Field).Name()] = true
							}
						}
					}
				}
			}
		}
		var missing []string
		var need func(nt *types.Named, depth int)
		need = func(nt *types.Named, depth int) {
			st, ok := nt.Underlying().(*types.Struct)
			if !ok || depth > 3 {
				return
			}
			for i := 0; i < st.NumFields(); i++ {
				fld := st.Field(i)
				ft := fld.Type()
				name := nt.Obj().Name() + "." + fld.Name()
				if hasInterp(ft) {
					n++
					if !fieldCalls[name] {
						missing = append(missing, name)
					}
					continue
				}
				var elem types.Type
				switch u := ft.Underlying().(type) {
				case *types.Slice:
					elem = u.Elem()
				case *types.Array:
					elem = u.Elem()
				case *types.Struct:
					elem = ft
				}
				if elem == nil {
					continue
				}
				en, ok := elem.(*types.Named)
				if !ok {
					continue
				}
				if hasInterp(en) {
					n++
					if !typeCalls[en.Obj().Name()] {
						missing = append(missing, name+" (elements of type "+en.Obj().Name()+")")
					}
					continue
				}
				need(en, depth+1)
			}
		}
		need(obj.Type().(*types.Named), 0)
		sort.Strings(missing)
		key := fnKey(f) + ": reaches every field that can hold a placeholder"
		if len(missing) > 0 {
			r.bad(rule, key, p.pos(f.Pos()), fmt.Sprintf("never interpolated: %v; a placeholder written there (${project.groupId}, a property) stays verbatim in the effective model, where Maven substitutes it", missing))
		} else {
			r.ok(rule, key, p.pos(f.Pos()), "every interpolatable field, also of slice elements, is passed to an interpolate method")
		}
	}
	return n
}

// allCriteriaRule (C15.f ALL-CRITERIA): a profile is active only when ALL the
// criteria it names are met (Maven >= 3.2.2). Profile.activated keeps a result
// variable that each met criterion sets to true and leaves with `return false`
// as soon as one is not met. A criterion that instead STORES its (possibly
// false) outcome in the variable is overruled by the `= true` of the next
// criterion that is met. Decided: no assignment of the constant true to the
// returned result variable follows (in source order; the function has no
// loops) an assignment of a non-constant value that does not itself include
// the variable.
func allCriteriaRule(r *Report, p *Prog, rule string) {
	f := p.lookupFn("(*maven.Profile).activated")
	key := "(*maven.Profile).activated: a criterion that is not met cannot be overruled"
	if f == nil {
		r.bad(rule, key, "", "function not found: anchor lost")
		return
	}
	fd, ok := f.Syntax().(*ast.FuncDecl)
	pk := p.pkg("maven")
	if !ok || fd.Body == nil || pk == nil {
		r.bad(rule, key, p.pos(f.Pos()), "no syntax for activated: anchor lost")
		return
	}
	// the result variable: the identifier returned in the last return statement
	var resObj types.Object
	if last, ok := fd.Body.List[len(fd.Body.List)-1].(*ast.ReturnStmt); ok && len(last.Results) > 0 {
		if id, ok := last.Results[0].(*ast.Ident); ok {
			resObj = pk.TypesInfo.Uses[id]
		}
	}
	if resObj == nil {
		r.bad(rule, key, p.pos(f.Pos()), "the function does not end in `return <variable>, ...`: anchor lost")
		return
	}
	type asg struct {
		pos      token.Pos
		constant bool
		monotone bool
	}
	var asgs []asg
	hasLoop := false
	ast.Inspect(fd.Body, func(n ast.Node) bool {
		switch x := n.(type) {
		case *ast.FuncLit:
			return false
		case *ast.ForStmt, *ast.RangeStmt:
			hasLoop = true
		case *ast.AssignStmt:
			for i, l := range x.Lhs {
				id, ok := l.(*ast.Ident)
				if !ok || (pk.TypesInfo.Uses[id] != resObj && pk.TypesInfo.Defs[id] != resObj) || i >= len(x.Rhs) {
					continue
				}
				a := asg{pos: x.Pos()}
				if tv, ok := pk.TypesInfo.Types[x.Rhs[i]]; ok && tv.Value != nil {
					a.constant = true
				} else {
					ast.Inspect(x.Rhs[i], func(m ast.Node) bool {
						if rid, ok := m.(*ast.Ident); ok && pk.TypesInfo.Uses[rid] == resObj {
							a.monotone = true
						}
						return true
					})
				}
				asgs = append(asgs, a)
			}
		}
		return true
	})
	if hasLoop {
		r.bad(rule, key, p.pos(f.Pos()), "activated now contains a loop: source order no longer orders the assignments (anchor lost)")
		return
	}
	var bad token.Pos
	for i, a := range asgs {
		if a.constant || a.monotone {
			continue
		}
		for _, b := range asgs[i+1:] {
			if b.constant {
				bad = a.pos
			}
		}
	}
	if bad.IsValid() {
		r.bad(rule, key, p.pos(bad), "the outcome of a criterion is stored in the result variable instead of leaving with `return false`, and a later criterion sets the variable to true when it is met: a profile whose first criterion fails and whose second is met is activated, although all criteria have to hold")
	} else {
		r.ok(rule, key, p.pos(f.Pos()), fmt.Sprintf("%d assignments to the result variable; no computed outcome is followed by a constant true", len(asgs)))
	}
}

// importKeyRule (C15.g IMPORT-KEY-VERSION): dependency-management imports are
// projects (BOMs), and a project is identified by group, artifact AND version:
// root may import outer:1, which imports bom:1, and then bom:2 itself. The loop
// of ProcessDependencies that works through the imports keeps a visited set so
// that no BOM is read twice; if that set is keyed without the version, bom:2 is
// taken for bom:1 and what only it manages is lost. The key type of the set
// consulted in the import loop has a Version component.
func importKeyRule(r *Report, p *Prog, rule string) {
	f := p.lookupFn("(*maven.Project).ProcessDependencies")
	key := "(*maven.Project).ProcessDependencies: the visited set of imports is keyed with the version"
	if f == nil {
		r.bad(rule, key, "", "ProcessDependencies not found: anchor lost")
		return
	}
	hasVersion := func(t types.Type) bool {
		st, ok := t.Underlying().(*types.Struct)
		if !ok {
			return false
		}
		for i := 0; i < st.NumFields(); i++ {
			if st.Field(i).Name() == "Version" {
				return true
			}
		}
		return false
	}
	loops := naturalLoops(f)
	n := 0
	var bad token.Pos
	var badKey string
	for _, b := range f.Blocks {
		if innermostLoop(loops, b) == nil {
			continue
		}
		ifi, ok := b.Instrs[len(b.Instrs)-1].(*ssa.If)
		if !ok {
			continue
		}
		lk, ok := ifi.Cond.(*ssa.Lookup)
		if !ok {
			if ex, ok2 := ifi.Cond.(*ssa.Extract); ok2 {
				lk, ok = ex.Tuple.(*ssa.Lookup)
			}
		}
		if !ok || lk == nil {
			continue
		}
		mt, ok := lk.X.Type().Underlying().(*types.Map)
		if !ok {
			continue
		}
		if bt, ok := mt.Elem().Underlying().(*types.Basic); !ok || bt.Kind() != types.Bool {
			continue
		}
		// only sets whose key is (or embeds) a dependency key: the visited set of imports
		if !strings.Contains(mt.Key().String(), "DependencyKey") && !hasVersion(mt.Key()) {
			continue
		}
		n++
		if !hasVersion(mt.Key()) {
			bad = lk.Pos()
			badKey = mt.Key().String()
		}
	}
	switch {
	case n == 0:
		r.bad(rule, key, p.pos(f.Pos()), "no visited-set test found in a loop of ProcessDependencies: anchor lost")
	case bad.IsValid():
		r.bad(rule, key, p.pos(bad), "the set of imports already read is keyed by "+badKey+", which has no version: a BOM imported at one version (perhaps through another BOM) hides the import of the same BOM at another version, and the dependencies only that one manages end up without a version")
	default:
		r.ok(rule, key, p.pos(f.Pos()), "the key of the visited set has a Version component")
	}
}
