package main

import (
	"fmt"
	"go/types"
	"sort"

	"golang.org/x/tools/go/ssa"
)

// interpolateCoverRule (C15/INTERPOLATE-COVER): Maven interpolates every string
// of the model. A struct's interpolate method has to reach every field that
// can hold a placeholder: each field whose type has an interpolate method, and,
// through slices and plain structs, the fields of their elements. A field left
// out keeps "${...}" verbatim in the effective dependency (exclusions written
// with ${project.groupId} never excluded anything).
func interpolateCoverRule(r *Report, p *Prog, rule string, recvTypes ...string) int {
	pk := p.pkg("maven")
	if pk == nil {
		r.bad(rule, "maven", "", "package not loaded")
		return 0
	}
	hasInterp := func(t types.Type) bool {
		for _, tt := range []types.Type{t, types.NewPointer(t)} {
			ms := types.NewMethodSet(tt)
			for i := 0; i < ms.Len(); i++ {
				if ms.At(i).Obj().Name() == "interpolate" {
					return true
				}
			}
		}
		return false
	}
	n := 0
	for _, tn := range recvTypes {
		obj := pk.Types.Scope().Lookup(tn)
		if obj == nil {
			r.bad(rule, "maven."+tn, "", "type not found: anchor lost")
			continue
		}
		f := p.lookupFn("(*maven." + tn + ").interpolate")
		if f == nil {
			r.bad(rule, "maven."+tn, p.pos(obj.Pos()), "method interpolate not found: anchor lost")
			continue
		}
		// what the method reaches
		fieldCalls := map[string]bool{} // "Type.field"
		typeCalls := map[string]bool{}  // "Type"
		for _, b := range f.Blocks {
			for _, in := range b.Instrs {
				c, ok := in.(*ssa.Call)
				if !ok {
					continue
				}
				sc := c.Common().StaticCallee()
				if sc == nil || sc.Name() != "interpolate" || len(c.Common().Args) == 0 {
					continue
				}
				recv := c.Common().Args[0]
				if pt, ok := recv.Type().Underlying().(*types.Pointer); ok {
					if nt, ok := pt.Elem().(*types.Named); ok {
						typeCalls[nt.Obj().Name()] = true
					}
				}
				if fa, ok := recv.(*ssa.FieldAddr); ok {
					if pt, ok := fa.X.Type().Underlying().(*types.Pointer); ok {
						if nt, ok := pt.Elem().(*types.Named); ok {
							if st, ok := nt.Underlying().(*types.Struct); ok {
								fieldCalls[nt.Obj().Name()+"."+st.Field(fa.Field).Name()] = true
							}
						}
					}
				}
			}
		}
		var missing []string
		var need func(nt *types.Named, depth int)
		need = func(nt *types.Named, depth int) {
			st, ok := nt.Underlying().(*types.Struct)
			if !ok || depth > 3 {
				return
			}
			for i := 0; i < st.NumFields(); i++ {
				fld := st.Field(i)
				ft := fld.Type()
				name := nt.Obj().Name() + "." + fld.Name()
				if hasInterp(ft) {
					n++
					if !fieldCalls[name] {
						missing = append(missing, name)
					}
					continue
				}
				var elem types.Type
				switch u := ft.Underlying().(type) {
				case *types.Slice:
					elem = u.Elem()
				case *types.Array:
					elem = u.Elem()
				case *types.Struct:
					elem = ft
				}
				if elem == nil {
					continue
				}
				en, ok := elem.(*types.Named)
				if !ok {
					continue
				}
				if hasInterp(en) {
					n++
					if !typeCalls[en.Obj().Name()] {
						missing = append(missing, name+" (elements of type "+en.Obj().Name()+")")
					}
					continue
				}
				need(en, depth+1)
			}
		}
		need(obj.Type().(*types.Named), 0)
		sort.Strings(missing)
		key := fnKey(f) + ": reaches every field that can hold a placeholder"
		if len(missing) > 0 {
			r.bad(rule, key, p.pos(f.Pos()), fmt.Sprintf("never interpolated: %v; a placeholder written there (${project.groupId}, a property) stays verbatim in the effective model, where Maven substitutes it", missing))
		} else {
			r.ok(rule, key, p.pos(f.Pos()), "every interpolatable field, also of slice elements, is passed to an interpolate method")
		}
	}
	return n
}
