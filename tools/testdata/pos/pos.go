// Package pos holds tiny positive examples: each must be reported by the
// deny-list rule named in its comment on every run, so that a rule whose
// expected count on /repo is zero cannot pass vacuously.
package pos

import "sync"

type item struct {
	key  string
	attr map[string]string
}

// NoopStore: rule NOOP-STORE must fire (the replace branch stores the old element).
func NoopStore(items []item, v item) []item {
	for i, w := range items {
		if w.key == v.key {
			items[i] = w
		}
	}
	return items
}

type guarded struct {
	dataMu sync.Mutex
	data   map[string]int
}

// UnlockedAccess: rule LOCKSET must fire.
func (g *guarded) UnlockedAccess(k string) int {
	return g.data[k]
}

// LockedAccess: rule LOCKSET must stay silent.
func (g *guarded) LockedAccess(k string) int {
	g.dataMu.Lock()
	defer g.dataMu.Unlock()
	return g.data[k]
}
