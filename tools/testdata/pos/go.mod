module pos

go 1.23
