package main

import (
	"fmt"
	"go/constant"
	"go/token"
	"go/types"
	"strings"

	"golang.org/x/tools/go/ssa"
)

// entryOwnTypeRule (C18.h ENTRY-OWN-TYPE): a dep.Type is a value that carries a
// map. Requirements built in a loop from one template must each get their own
// copy (the four dependency sections do: typ := t.Clone()); storing the
// template itself into every entry makes all of them share one attribute map,
// so an attribute added to one requirement (the resolver adds Selector and
// KnownAs to the types it was given) shows up on its siblings, and concurrent
// users race on it.
//
// For every store of a dep.Type into the Type field of a RequirementVersion
// that happens inside a loop: the stored value is produced inside that loop
// (a call, or a local assigned in the loop), not a loop-invariant variable.
func entryOwnTypeRule(r *Report, p *Prog, rule string, file string) int {
	n := 0
	for _, f := range p.Funcs {
		if f.Pkg == nil || f.Blocks == nil || f.Synthetic != "" || f.Pkg.Pkg.Path() != modPrefix+"resolve" {
			continue
		}
		if !strings.HasSuffix(p.Fset.Position(f.Pos()).Filename, file) {
			continue
		}
		loops := naturalLoops(f)
		per := 0
		for _, b := range f.Blocks {
			l := innermostLoop(loops, b)
			if l == nil {
				continue
			}
			for _, in := range b.Instrs {
				st, ok := in.(*ssa.Store)
				if !ok {
					continue
				}
				fa, ok := st.Addr.(*ssa.FieldAddr)
				if !ok {
					continue
				}
				pt, ok := fa.X.Type().Underlying().(*types.Pointer)
				if !ok {
					continue
				}
				nt, ok := pt.Elem().(*types.Named)
				if !ok || nt.Obj().Name() != "RequirementVersion" {
					continue
				}
				sst := nt.Underlying().(*types.Struct)
				if sst.Field(fa.Field).Name() != "Type" {
					continue
				}
				n++
				per++
				key := fmt.Sprintf("%s: requirement #%d built in a loop gets its own dependency type", fnKey(f), per)
				// where does the value come from?
				v := st.Val
				inLoop := func(bb *ssa.BasicBlock) bool { return l.body[bb] || bb == l.header }
				var isFresh func(v ssa.Value, d int) (bool, string)
				isFresh = func(v ssa.Value, d int) (bool, string) {
					if d > 5 {
						return false, ""
					}
					switch x := v.(type) {
					case *ssa.Call:
						return inLoop(x.Block()), "result of a call made in the loop"
					case *ssa.Const:
						return true, "the zero type"
					case *ssa.Phi:
						for _, e := range x.Edges {
							if ok, _ := isFresh(e, d+1); !ok {
								return false, ""
							}
						}
						return true, "every incoming value is made in the loop"
					case *ssa.UnOp:
						al, ok := x.X.(*ssa.Alloc)
						if !ok || al.Referrers() == nil {
							return false, ""
						}
						// a local: every whole-value store into it that can reach this
						// use must itself be fresh (a copy of a template made before
						// the loop still shares the template's map)
						stores := 0
						for _, ref := range *al.Referrers() {
							s2, ok := ref.(*ssa.Store)
							if !ok || s2.Addr != ssa.Value(al) {
								continue
							}
							if !inLoop(s2.Block()) && !inLoop(al.Block()) {
								continue // initialisation of a variable declared before the loop
							}
							stores++
							if ok, _ := isFresh(s2.Val, d+1); !ok {
								return false, ""
							}
						}
						if stores == 0 {
							return false, ""
						}
						return true, "a local assigned in the loop from values made in the loop"
					}
					return false, ""
				}
				fresh, why := isFresh(v, 0)
				if fresh {
					r.ok(rule, key, p.pos(st.Pos()), why)
				} else {
					r.bad(rule, key, p.pos(st.Pos()), "the same dependency type, made before the loop, is stored into every requirement the loop builds: a dep.Type carries a map, so all these requirements share one attribute map and an attribute added to one of them appears on the others (the sibling loop for the dependency sections clones its template per entry)")
				}
			}
		}
	}
	return n
}

// handedOutCopiedRule (C18.j HANDED-OUT-COPIED): getBundledVersion is the one
// place where entries of the mutex-protected bundledVersions table leave the
// client (the four Client methods go through it, C18.c). The entry is a struct
// of values that carry maps (Version.AttrSet, the Type of each requirement): a
// copy of the struct or of the slice shares them with the stored entry and
// with every other caller, outside the lock. Every return of a found entry is
// dominated by (A) a store of AttrSet.Clone() into the copy's version and (B)
// a store of a freshly built requirement slice into the copy; the elements'
// types are cloned per element (C18.h covers that loop).
func handedOutCopiedRule(r *Report, p *Prog, rule string) {
	f := p.lookupFn("(*resolve.APIClient).getBundledVersion")
	key := "(*resolve.APIClient).getBundledVersion: a found entry is handed out as a deep copy"
	if f == nil {
		r.bad(rule, key, "", "getBundledVersion not found: anchor lost")
		return
	}
	fieldPath := func(v ssa.Value) []string {
		var path []string
		for {
			fa, ok := v.(*ssa.FieldAddr)
			if !ok {
				break
			}
			st := fa.X.Type().Underlying().(*types.Pointer).Elem().Underlying().(*types.Struct)
			path = append([]string{st.Field(fa.Field).Name()}, path...)
			v = fa.X
		}
		return path
	}
	var attrStores, reqStores []*ssa.BasicBlock
	for _, b := range f.Blocks {
		for _, in := range b.Instrs {
			st, ok := in.(*ssa.Store)
			if !ok {
				continue
			}
			path := strings.Join(fieldPath(st.Addr), ".")
			switch {
			case strings.HasSuffix(path, "AttrSet"):
				if c, ok := st.Val.(*ssa.Call); ok && c.Common().StaticCallee() != nil && c.Common().StaticCallee().Name() == "Clone" {
					attrStores = append(attrStores, b)
				}
			case path == "requirements":
				fresh := false
				var isFresh func(v ssa.Value, d int) bool
				isFresh = func(v ssa.Value, d int) bool {
					if d > 6 {
						return false
					}
					switch x := v.(type) {
					case *ssa.MakeSlice:
						return true
					case *ssa.Slice:
						_, isAlloc := x.X.(*ssa.Alloc)
						return isAlloc
					case *ssa.Phi:
						for _, e := range x.Edges {
							if e != v && !isFresh(e, d+1) {
								return false
							}
						}
						return true
					case *ssa.Call:
						if bi, ok := x.Common().Value.(*ssa.Builtin); ok && bi.Name() == "append" {
							if ph, ok := x.Common().Args[0].(*ssa.Phi); ok {
								// append(phi(make, append(...)), ...): loop-carried fresh slice
								for _, e := range ph.Edges {
									if e != ssa.Value(x) && !isFresh(e, d+1) {
										return false
									}
								}
								return true
							}
							return isFresh(x.Common().Args[0], d+1)
						}
						if sc := x.Common().StaticCallee(); sc != nil && sc.Pkg != nil && sc.Pkg.Pkg.Path() == "slices" && sc.Name() == "Clone" {
							return true
						}
					}
					return false
				}
				fresh = isFresh(st.Val, 0)
				if fresh {
					reqStores = append(reqStores, b)
				}
			}
		}
	}
	found := 0
	var bad []string
	for _, b := range f.Blocks {
		// a success exit: `return x, true`, or (with a deferred unlock the
		// results are spilled) a block that stores true into the bool result
		success := false
		if ret, ok := b.Instrs[len(b.Instrs)-1].(*ssa.Return); ok && len(ret.Results) == 2 {
			if c, ok := ret.Results[1].(*ssa.Const); ok && c.Value != nil && constant.BoolVal(c.Value) {
				success = true
			}
		}
		for _, in := range b.Instrs {
			if st, ok := in.(*ssa.Store); ok {
				if c, ok := st.Val.(*ssa.Const); ok && c.Value != nil && c.Value.Kind() == constant.Bool && constant.BoolVal(c.Value) {
					if _, isAlloc := st.Addr.(*ssa.Alloc); isAlloc {
						success = true
					}
				}
			}
		}
		// `return bv, ok` where ok is the lookup's own result
		if ret, ok := b.Instrs[len(b.Instrs)-1].(*ssa.Return); ok && len(ret.Results) == 2 {
			if ex, ok := ret.Results[1].(*ssa.Extract); ok {
				if _, isLookup := ex.Tuple.(*ssa.Lookup); isLookup {
					success = true
				}
			}
		}
		for _, in := range b.Instrs {
			if st, ok := in.(*ssa.Store); ok {
				if ex, ok := st.Val.(*ssa.Extract); ok && ex.Index == 1 {
					if _, isLookup := ex.Tuple.(*ssa.Lookup); isLookup {
						if al, isAlloc := st.Addr.(*ssa.Alloc); isAlloc && al.Comment == "" {
							success = true // spilled `return bv, ok`
						}
					}
				}
			}
		}
		if !success {
			continue
		}
		found++
		dom := func(blocks []*ssa.BasicBlock) bool {
			for _, s := range blocks {
				if s == b || s.Dominates(b) {
					return true
				}
			}
			return false
		}
		if !dom(attrStores) {
			bad = append(bad, "the version's attribute set is not replaced by a Clone()")
		}
		if !dom(reqStores) {
			bad = append(bad, "the requirement slice is not rebuilt")
		}
	}
	switch {
	case found == 0:
		r.bad(rule, key, p.pos(f.Pos()), "no return of a found entry: anchor lost")
	case len(bad) > 0:
		r.bad(rule, key, p.pos(f.Pos()), "an entry of the shared table is returned after the lock is released with its maps still shared ("+strings.Join(bad, "; ")+"): what one caller adds to the attributes of the version or of a requirement it was given shows up in the answers to every other caller, and concurrent callers race on the maps")
	default:
		r.ok(rule, key, p.pos(f.Pos()), "every return of a found entry follows AttrSet.Clone() and a rebuilt requirement slice")
	}
}

// bundleKeyResolvedRule (C18.k BUNDLE-KEY-RESOLVED): bundleDependencies lists
// KEYS of the dependency tables. For an aliased dependency ("al": "npm:@s/a@^1")
// the key is the alias, not a package: the four dependency sections decode the
// alias into a requirement on the real name that carries KnownAs, and the
// requirement built from a bundleDependencies key has to go through the same
// decoding, or it names a package that does not exist (or an unrelated one).
// In the loop over GetBundleDependencies the stored package name is not the
// key on every path: it can come from a map lookup (the alias table).
func bundleKeyResolvedRule(r *Report, p *Prog, rule string) {
	f := p.lookupFn("resolve.flattenNPMDeps")
	key := "resolve.flattenNPMDeps: a bundleDependencies key is resolved through the alias table"
	if f == nil {
		r.bad(rule, key, "", "flattenNPMDeps not found: anchor lost")
		return
	}
	// the loop that ranges over GetBundleDependencies()
	var keys *ssa.Call
	for _, b := range f.Blocks {
		for _, in := range b.Instrs {
			if c, ok := in.(*ssa.Call); ok && c.Common().StaticCallee() != nil && c.Common().StaticCallee().Name() == "GetBundleDependencies" {
				keys = c
			}
		}
	}
	if keys == nil {
		r.bad(rule, key, p.pos(f.Pos()), "no call of GetBundleDependencies: anchor lost")
		return
	}
	derivesFromKeys := func(v ssa.Value) bool {
		for d := 0; d < 4 && v != nil; d++ {
			switch x := v.(type) {
			case *ssa.UnOp:
				v = x.X
			case *ssa.IndexAddr:
				v = x.X
			case *ssa.Index:
				v = x.X
			default:
				return v == ssa.Value(keys)
			}
		}
		return v == ssa.Value(keys)
	}
	var viaMap func(v ssa.Value, d int) bool
	viaMap = func(v ssa.Value, d int) bool {
		if d > 5 {
			return false
		}
		switch x := v.(type) {
		case *ssa.Phi:
			for _, e := range x.Edges {
				if viaMap(e, d+1) {
					return true
				}
			}
		case *ssa.Extract:
			_, ok := x.Tuple.(*ssa.Lookup)
			return ok
		case *ssa.Lookup:
			return true
		}
		return false
	}
	found := 0
	var bad token.Pos
	for _, b := range f.Blocks {
		for _, in := range b.Instrs {
			st, ok := in.(*ssa.Store)
			if !ok {
				continue
			}
			fa, ok := st.Addr.(*ssa.FieldAddr)
			if !ok {
				continue
			}
			pt, ok := fa.X.Type().Underlying().(*types.Pointer)
			if !ok {
				continue
			}
			stt, ok := pt.Elem().Underlying().(*types.Struct)
			if !ok || stt.Field(fa.Field).Name() != "Name" || !strings.HasSuffix(pt.Elem().String(), "resolve.PackageKey") {
				continue
			}
			// a name that (on some path) is a bundleDependencies key
			isKey := derivesFromKeys(st.Val)
			if ph, ok := st.Val.(*ssa.Phi); ok {
				for _, e := range ph.Edges {
					if derivesFromKeys(e) {
						isKey = true
					}
				}
			}
			if !isKey {
				continue
			}
			found++
			if !viaMap(st.Val, 0) {
				bad = st.Pos()
			}
		}
	}
	switch {
	case found == 0:
		r.bad(rule, key, p.pos(keys.Pos()), "no requirement is built from the bundleDependencies keys: anchor lost")
	case bad.IsValid():
		r.bad(rule, key, p.pos(bad), "the key is stored as the package name as it is: when bundleDependencies names an aliased dependency by its key (\"al\": \"npm:@s/a@^1\"), the bundle-scope requirement is placed on a package called like the alias, which does not exist or is unrelated, instead of on the real package known as the alias")
	default:
		r.ok(rule, key, p.pos(keys.Pos()), "the stored name can come from a lookup in the alias table")
	}
}
