package main

import (
	"fmt"
	"go/constant"
	"go/types"
	"strings"

	"golang.org/x/tools/go/ssa"
)

// entryOwnTypeRule (C18.h ENTRY-OWN-TYPE): a dep.Type is a value that carries a
// map. Requirements built in a loop from one template must each get their own
// copy (the four dependency sections do: typ := t.Clone()); storing the
// template itself into every entry makes all of them share one attribute map,
// so an attribute added to one requirement (the resolver adds Selector and
// KnownAs to the types it was given) shows up on its siblings, and concurrent
// users race on it.
//
// For every store of a dep.Type into the Type field of a RequirementVersion
// that happens inside a loop: the stored value is produced inside that loop
// (a call, or a local assigned in the loop), not a loop-invariant variable.
func entryOwnTypeRule(r *Report, p *Prog, rule string, file string) int {
	n := 0
	for _, f := range p.Funcs {
		if f.Pkg == nil || f.Blocks == nil || f.Synthetic != "" || f.Pkg.Pkg.Path() != modPrefix+"resolve" {
			continue
		}
		if !strings.HasSuffix(p.Fset.Position(f.Pos()).Filename, file) {
			continue
		}
		loops := naturalLoops(f)
		per := 0
		for _, b := range f.Blocks {
			l := innermostLoop(loops, b)
			if l == nil {
				continue
			}
			for _, in := range b.Instrs {
				st, ok := in.(*ssa.Store)
				if !ok {
					continue
				}
				fa, ok := st.Addr.(*ssa.FieldAddr)
				if !ok {
					continue
				}
				pt, ok := fa.X.Type().Underlying().(*types.Pointer)
				if !ok {
					continue
				}
				nt, ok := pt.Elem().(*types.Named)
				if !ok || nt.Obj().Name() != "RequirementVersion" {
					continue
				}
				sst := nt.Underlying().(*types.Struct)
				if sst.Field(fa.Field).Name() != "Type" {
					continue
				}
				n++
				per++
				key := fmt.Sprintf("%s: requirement #%d built in a loop gets its own dependency type", fnKey(f), per)
				// where does the value come from?
				v := st.Val
				inLoop := func(bb *ssa.BasicBlock) bool { return l.body[bb] || bb == l.header }
				fresh, why := false, ""
				switch x := v.(type) {
				case *ssa.Call:
					fresh = inLoop(x.Block())
					why = "result of a call made in the loop"
				case *ssa.UnOp:
					if al, ok := x.X.(*ssa.Alloc); ok {
						if inLoop(al.Block()) {
							fresh, why = true, "a local of the loop body"
						} else if al.Referrers() != nil {
							for _, ref := range *al.Referrers() {
								if s2, ok := ref.(*ssa.Store); ok && s2.Addr == ssa.Value(al) && inLoop(s2.Block()) {
									if c, ok := s2.Val.(*ssa.Call); ok && inLoop(c.Block()) {
										fresh, why = true, "assigned from a call in the loop"
									}
								}
							}
						}
					}
				case *ssa.Const:
					fresh, why = true, "the zero type"
				}
				if fresh {
					r.ok(rule, key, p.pos(st.Pos()), why)
				} else {
					r.bad(rule, key, p.pos(st.Pos()), "the same dependency type, made before the loop, is stored into every requirement the loop builds: a dep.Type carries a map, so all these requirements share one attribute map and an attribute added to one of them appears on the others (the sibling loop for the dependency sections clones its template per entry)")
				}
			}
		}
	}
	return n
}

// handedOutCopiedRule (C18.j HANDED-OUT-COPIED): getBundledVersion is the one
// place where entries of the mutex-protected bundledVersions table leave the
// client (the four Client methods go through it, C18.c). The entry is a struct
// of values that carry maps (Version.AttrSet, the Type of each requirement): a
// copy of the struct or of the slice shares them with the stored entry and
// with every other caller, outside the lock. Every return of a found entry is
// dominated by (A) a store of AttrSet.Clone() into the copy's version and (B)
// a store of a freshly built requirement slice into the copy; the elements'
// types are cloned per element (C18.h covers that loop).
func handedOutCopiedRule(r *Report, p *Prog, rule string) {
	f := p.lookupFn("(*resolve.APIClient).getBundledVersion")
	key := "(*resolve.APIClient).getBundledVersion: a found entry is handed out as a deep copy"
	if f == nil {
		r.bad(rule, key, "", "getBundledVersion not found: anchor lost")
		return
	}
	fieldPath := func(v ssa.Value) []string {
		var path []string
		for {
			fa, ok := v.(*ssa.FieldAddr)
			if !ok {
				break
			}
			st := fa.X.Type().Underlying().(*types.Pointer).Elem().Underlying().(*types.Struct)
			path = append([]string{st.Field(fa.Field).Name()}, path...)
			v = fa.X
		}
		return path
	}
	var attrStores, reqStores []*ssa.BasicBlock
	for _, b := range f.Blocks {
		for _, in := range b.Instrs {
			st, ok := in.(*ssa.Store)
			if !ok {
				continue
			}
			path := strings.Join(fieldPath(st.Addr), ".")
			switch {
			case strings.HasSuffix(path, "AttrSet"):
				if c, ok := st.Val.(*ssa.Call); ok && c.Common().StaticCallee() != nil && c.Common().StaticCallee().Name() == "Clone" {
					attrStores = append(attrStores, b)
				}
			case path == "requirements":
				fresh := false
				var isFresh func(v ssa.Value, d int) bool
				isFresh = func(v ssa.Value, d int) bool {
					if d > 6 {
						return false
					}
					switch x := v.(type) {
					case *ssa.MakeSlice:
						return true
					case *ssa.Slice:
						_, isAlloc := x.X.(*ssa.Alloc)
						return isAlloc
					case *ssa.Phi:
						for _, e := range x.Edges {
							if e != v && !isFresh(e, d+1) {
								return false
							}
						}
						return true
					case *ssa.Call:
						if bi, ok := x.Common().Value.(*ssa.Builtin); ok && bi.Name() == "append" {
							if ph, ok := x.Common().Args[0].(*ssa.Phi); ok {
								// append(phi(make, append(...)), ...): loop-carried fresh slice
								for _, e := range ph.Edges {
									if e != ssa.Value(x) && !isFresh(e, d+1) {
										return false
									}
								}
								return true
							}
							return isFresh(x.Common().Args[0], d+1)
						}
						if sc := x.Common().StaticCallee(); sc != nil && sc.Pkg != nil && sc.Pkg.Pkg.Path() == "slices" && sc.Name() == "Clone" {
							return true
						}
					}
					return false
				}
				fresh = isFresh(st.Val, 0)
				if fresh {
					reqStores = append(reqStores, b)
				}
			}
		}
	}
	found := 0
	var bad []string
	for _, b := range f.Blocks {
		// a success exit: `return x, true`, or (with a deferred unlock the
		// results are spilled) a block that stores true into the bool result
		success := false
		if ret, ok := b.Instrs[len(b.Instrs)-1].(*ssa.Return); ok && len(ret.Results) == 2 {
			if c, ok := ret.Results[1].(*ssa.Const); ok && c.Value != nil && constant.BoolVal(c.Value) {
				success = true
			}
		}
		for _, in := range b.Instrs {
			if st, ok := in.(*ssa.Store); ok {
				if c, ok := st.Val.(*ssa.Const); ok && c.Value != nil && c.Value.Kind() == constant.Bool && constant.BoolVal(c.Value) {
					if _, isAlloc := st.Addr.(*ssa.Alloc); isAlloc {
						success = true
					}
				}
			}
		}
		// `return bv, ok` where ok is the lookup's own result
		if ret, ok := b.Instrs[len(b.Instrs)-1].(*ssa.Return); ok && len(ret.Results) == 2 {
			if ex, ok := ret.Results[1].(*ssa.Extract); ok {
				if _, isLookup := ex.Tuple.(*ssa.Lookup); isLookup {
					success = true
				}
			}
		}
		for _, in := range b.Instrs {
			if st, ok := in.(*ssa.Store); ok {
				if ex, ok := st.Val.(*ssa.Extract); ok && ex.Index == 1 {
					if _, isLookup := ex.Tuple.(*ssa.Lookup); isLookup {
						if al, isAlloc := st.Addr.(*ssa.Alloc); isAlloc && al.Comment == "" {
							success = true // spilled `return bv, ok`
						}
					}
				}
			}
		}
		if !success {
			continue
		}
		found++
		dom := func(blocks []*ssa.BasicBlock) bool {
			for _, s := range blocks {
				if s == b || s.Dominates(b) {
					return true
				}
			}
			return false
		}
		if !dom(attrStores) {
			bad = append(bad, "the version's attribute set is not replaced by a Clone()")
		}
		if !dom(reqStores) {
			bad = append(bad, "the requirement slice is not rebuilt")
		}
	}
	switch {
	case found == 0:
		r.bad(rule, key, p.pos(f.Pos()), "no return of a found entry: anchor lost")
	case len(bad) > 0:
		r.bad(rule, key, p.pos(f.Pos()), "an entry of the shared table is returned after the lock is released with its maps still shared ("+strings.Join(bad, "; ")+"): what one caller adds to the attributes of the version or of a requirement it was given shows up in the answers to every other caller, and concurrent callers race on the maps")
	default:
		r.ok(rule, key, p.pos(f.Pos()), "every return of a found entry follows AttrSet.Clone() and a rebuilt requirement slice")
	}
}
