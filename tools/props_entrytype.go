package main

import (
	"fmt"
	"go/types"
	"strings"

	"golang.org/x/tools/go/ssa"
)

// entryOwnTypeRule (C18.h ENTRY-OWN-TYPE): a dep.Type is a value that carries a
// map. Requirements built in a loop from one template must each get their own
// copy (the four dependency sections do: typ := t.Clone()); storing the
// template itself into every entry makes all of them share one attribute map,
// so an attribute added to one requirement (the resolver adds Selector and
// KnownAs to the types it was given) shows up on its siblings, and concurrent
// users race on it.
//
// For every store of a dep.Type into the Type field of a RequirementVersion
// that happens inside a loop: the stored value is produced inside that loop
// (a call, or a local assigned in the loop), not a loop-invariant variable.
func entryOwnTypeRule(r *Report, p *Prog, rule string, file string) int {
	n := 0
	for _, f := range p.Funcs {
		if f.Pkg == nil || f.Blocks == nil || f.Synthetic != "" || f.Pkg.Pkg.Path() != modPrefix+"resolve" {
			continue
		}
		if !strings.HasSuffix(p.Fset.Position(f.Pos()).Filename, file) {
			continue
		}
		loops := naturalLoops(f)
		per := 0
		for _, b := range f.Blocks {
			l := innermostLoop(loops, b)
			if l == nil {
				continue
			}
			for _, in := range b.Instrs {
				st, ok := in.(*ssa.Store)
				if !ok {
					continue
				}
				fa, ok := st.Addr.(*ssa.FieldAddr)
				if !ok {
					continue
				}
				pt, ok := fa.X.Type().Underlying().(*types.Pointer)
				if !ok {
					continue
				}
				nt, ok := pt.Elem().(*types.Named)
				if !ok || nt.Obj().Name() != "RequirementVersion" {
					continue
				}
				sst := nt.Underlying().(*types.Struct)
				if sst.Field(fa.Field).Name() != "Type" {
					continue
				}
				n++
				per++
				key := fmt.Sprintf("%s: requirement #%d built in a loop gets its own dependency type", fnKey(f), per)
				// where does the value come from?
				v := st.Val
				inLoop := func(bb *ssa.BasicBlock) bool { return l.body[bb] || bb == l.header }
				fresh, why := false, ""
				switch x := v.(type) {
				case *ssa.Call:
					fresh = inLoop(x.Block())
					why = "result of a call made in the loop"
				case *ssa.UnOp:
					if al, ok := x.X.(*ssa.Alloc); ok {
						if inLoop(al.Block()) {
							fresh, why = true, "a local of the loop body"
						} else if al.Referrers() != nil {
							for _, ref := range *al.Referrers() {
								if s2, ok := ref.(*ssa.Store); ok && s2.Addr == ssa.Value(al) && inLoop(s2.Block()) {
									if c, ok := s2.Val.(*ssa.Call); ok && inLoop(c.Block()) {
										fresh, why = true, "assigned from a call in the loop"
									}
								}
							}
						}
					}
				case *ssa.Const:
					fresh, why = true, "the zero type"
				}
				if fresh {
					r.ok(rule, key, p.pos(st.Pos()), why)
				} else {
					r.bad(rule, key, p.pos(st.Pos()), "the same dependency type, made before the loop, is stored into every requirement the loop builds: a dep.Type carries a map, so all these requirements share one attribute map and an attribute added to one of them appears on the others (the sibling loop for the dependency sections clones its template per entry)")
				}
			}
		}
	}
	return n
}
