package main

// CMP engine: comparator shape rules (DESIGN.md §3.2).

import (
	"fmt"
	"go/ast"
	"go/token"
	"go/types"
	"slices"
	"sort"
	"strings"

	"golang.org/x/tools/go/ssa"
)

// comparator describes a function used to order or equate values.
type comparator struct {
	fn   *ssa.Function
	kind string // "sort-less", "sort.Interface Less", "method Compare", ...
	// for sort callbacks: the sorted slice/collection and its element type
	elem types.Type
	site token.Pos // where it is handed to the sort (for callbacks)
	in   *ssa.Function
}

var sortFuncsWithLess = map[string]int{ // name -> index of the less/cmp argument
	"sort.Slice": 1, "sort.SliceStable": 1, "slices.SortFunc": 1, "slices.SortStableFunc": 1,
	"sort.Search": 1, "slices.BinarySearchFunc": 2, "slices.IsSortedFunc": 1, "slices.MaxFunc": 1, "slices.MinFunc": 1,
}

// findComparators discovers comparators in the given functions.
func findComparators(p *Prog, fns []*ssa.Function) []comparator {
	var out []comparator
	seen := map[*ssa.Function]bool{}
	add := func(c comparator) {
		if c.fn != nil && !seen[c.fn] && p.inScope(c.fn) {
			seen[c.fn] = true
			out = append(out, c)
		}
	}
	for _, f := range fns {
		for _, b := range f.Blocks {
			for _, in := range b.Instrs {
				call, ok := in.(ssa.CallInstruction)
				if !ok {
					continue
				}
				sc := call.Common().StaticCallee()
				if sc == nil {
					continue
				}
				name := fullName(sc)
				if idx, ok := sortFuncsWithLess[name]; ok && idx < len(call.Common().Args) {
					var fn *ssa.Function
					switch v := call.Common().Args[idx].(type) {
					case *ssa.MakeClosure:
						fn = v.Fn.(*ssa.Function)
					case *ssa.Function:
						fn = v
					}
					var elem types.Type
					if sl, ok := unwrapIface(call.Common().Args[0]).Type().Underlying().(*types.Slice); ok {
						elem = sl.Elem()
					}
					add(comparator{fn: fn, kind: name + " callback", elem: elem, site: in.Pos(), in: f})
				}
				if name == "sort.Sort" || name == "sort.Stable" {
					if mi, ok := call.Common().Args[0].(*ssa.MakeInterface); ok {
						ms := p.SSA.MethodSets.MethodSet(mi.X.Type())
						for i := 0; i < ms.Len(); i++ {
							if ms.At(i).Obj().Name() == "Less" {
								add(comparator{fn: p.SSA.MethodValue(ms.At(i)), kind: "sort.Interface Less", site: in.Pos(), in: f})
							}
						}
					}
				}
			}
		}
		// methods Compare(T) int / Less(T) bool / Equal(T) bool on T
		if f.Signature.Recv() != nil && f.Synthetic == "" {
			sig := f.Signature
			if sig.Params().Len() == 1 && sig.Results().Len() == 1 {
				n := f.Name()
				if (n == "Compare" || n == "Less" || n == "Equal" || n == "compare" || n == "equal" || n == "lessThan" || n == "lessThanOrEqual") &&
					sameOperandType(sig.Recv().Type(), sig.Params().At(0).Type()) {
					add(comparator{fn: f, kind: "method " + n})
				}
			}
		}
	}
	sort.Slice(out, func(i, j int) bool { return fnKey(out[i].fn) < fnKey(out[j].fn) })
	return out
}

func sameOperandType(a, b types.Type) bool {
	if types.Identical(a, b) {
		return true
	}
	if it, ok := b.Underlying().(*types.Interface); ok && types.Implements(a, it) {
		return true
	}
	return false
}

// pureRule: the comparator's call closure writes no memory that outlives the
// call and stores to no package-level variable.
func pureRule(r *Report, p *Prog, e *Effect, rule string, c comparator) {
	s := e.sums[c.fn]
	key := fnKey(c.fn) + " (" + c.kind + ")"
	if s == nil {
		r.bad(rule, key, p.pos(c.fn.Pos()), "no effect summary for this comparator")
		return
	}
	type w struct{ k, pos, why string }
	var ws []w
	for st, o := range s.writes {
		if o.empty() {
			continue
		}
		ws = append(ws, w{key + ": " + st.desc + " in " + fnKey(st.fn), p.pos(st.pos),
			"a comparator has a side effect (" + st.desc + " at " + p.pos(st.pos) + "): the result of a sort or of later comparisons then depends on which pairs were compared, i.e. on the input order or call history"})
	}
	for g := range s.wglobal {
		ws = append(ws, w{key + ": stores global " + short(g.String()), p.pos(c.fn.Pos()), "a comparator stores to a package-level variable"})
	}
	sort.Slice(ws, func(i, j int) bool { return ws[i].k+ws[i].pos < ws[j].k+ws[j].pos })
	for _, x := range ws {
		r.bad(rule, x.k, x.pos, x.why)
	}
	if len(ws) == 0 {
		r.ok(rule, key, p.pos(c.fn.Pos()), "the effect summary of the comparator and of everything it calls is write-free (parameters, receiver, free variables, globals)")
	}
}

// ---- access paths ---------------------------------------------------------

type pathCtx struct {
	fn    *ssa.Function
	roots map[ssa.Value]string // operand roots: parameter -> "$1"/"$2"
	memo  map[ssa.Value]string
	depth int
}

// singleStore returns the only value stored to a local alloc, if there is exactly one store.
func singleStore(al *ssa.Alloc) ssa.Value {
	var val ssa.Value
	n := 0
	for _, ref := range *al.Referrers() {
		if st, ok := ref.(*ssa.Store); ok && st.Addr == al {
			n++
			val = st.Val
		}
	}
	if n == 1 {
		return val
	}
	return nil
}

// path renders v as an access path over the operand roots, or "" if it cannot
// be resolved.
func (c *pathCtx) path(v ssa.Value) string {
	if s, ok := c.roots[v]; ok {
		return s
	}
	if s, ok := c.memo[v]; ok {
		return s
	}
	if c.depth > 24 {
		return ""
	}
	c.depth++
	defer func() { c.depth-- }()
	c.memo[v] = "" // cycle guard
	s := c.path1(v)
	c.memo[v] = s
	return s
}

func (c *pathCtx) path1(v ssa.Value) string {
	switch x := v.(type) {
	case *ssa.Const:
		if x.Value == nil {
			return "nil"
		}
		return x.Value.ExactString()
	case *ssa.Global:
		return "&@" + short(x.String())
	case *ssa.Phi:
		var parts []string
		for _, ed := range x.Edges {
			s := c.path(ed)
			if s == "" {
				return ""
			}
			parts = append(parts, s)
		}
		sort.Strings(parts)
		// a phi is a set of alternatives: the same alternative reached over
		// two edges (a range test written as two comparisons) counts once
		parts = slices.Compact(parts)
		return "phi(" + strings.Join(parts, "|") + ")"
	case *ssa.Alloc:
		if sv := singleStore(x); sv != nil {
			if s := c.path(sv); s != "" {
				return "&" + s
			}
		}
		return ""
	case *ssa.FieldAddr:
		b := c.path(x.X)
		if b == "" {
			return ""
		}
		st := x.X.Type().Underlying().(*types.Pointer).Elem().Underlying().(*types.Struct)
		return "&" + strings.TrimPrefix(b, "&") + "." + st.Field(x.Field).Name()
	case *ssa.Field:
		b := c.path(x.X)
		if b == "" {
			return ""
		}
		st := x.X.Type().Underlying().(*types.Struct)
		return b + "." + st.Field(x.Field).Name()
	case *ssa.UnOp:
		b := c.path(x.X)
		if b == "" {
			return ""
		}
		if x.Op == token.MUL {
			return strings.TrimPrefix(b, "&")
		}
		return x.Op.String() + b
	case *ssa.IndexAddr:
		b, i := c.path(x.X), c.idx(x.Index)
		if b == "" || i == "" {
			return ""
		}
		return "&" + strings.TrimPrefix(b, "&") + "[" + i + "]"
	case *ssa.Index:
		b, i := c.path(x.X), c.idx(x.Index)
		if b == "" || i == "" {
			return ""
		}
		return b + "[" + i + "]"
	case *ssa.Lookup:
		b, i := c.path(x.X), c.idx(x.Index)
		if b == "" || i == "" {
			return ""
		}
		return b + "[" + i + "]"
	case *ssa.Slice:
		b := c.path(x.X)
		if b == "" {
			return ""
		}
		lo, hi := "", ""
		if x.Low != nil {
			lo = c.idx(x.Low)
		}
		if x.High != nil {
			hi = c.idx(x.High)
		}
		return strings.TrimPrefix(b, "&") + "[" + lo + ":" + hi + "]"
	case *ssa.Extract:
		b := c.path(x.Tuple)
		if b == "" {
			return ""
		}
		if x.Index == 0 {
			return b
		}
		return fmt.Sprintf("%s#%d", b, x.Index)
	case *ssa.TypeAssert:
		return c.path(x.X) // the asserted type is not part of the projection
	case *ssa.ChangeType:
		return c.path(x.X)
	case *ssa.Convert:
		return c.path(x.X)
	case *ssa.MakeInterface:
		return c.path(x.X)
	case *ssa.ChangeInterface:
		return c.path(x.X)
	case *ssa.Call:
		com := x.Common()
		if b, ok := com.Value.(*ssa.Builtin); ok && (b.Name() == "len" || b.Name() == "cap") && len(com.Args) == 1 {
			a := c.path(com.Args[0])
			if a == "" {
				return ""
			}
			return b.Name() + "(" + a + ")"
		}
		if com.IsInvoke() {
			if len(com.Args) == 0 {
				if a := c.path(com.Value); a != "" {
					return a + "." + com.Method.Name() + "()"
				}
			}
			return ""
		}
		sc := com.StaticCallee()
		if sc == nil {
			return ""
		}
		// a call whose single operand-rooted argument is resolvable
		var parts []string
		for _, a := range com.Args {
			s := c.path(a)
			if s == "" {
				return ""
			}
			parts = append(parts, s)
		}
		return short(fullName(sc)) + "(" + strings.Join(parts, ",") + ")"
	case *ssa.BinOp:
		a, b := c.path(x.X), c.path(x.Y)
		if a == "" || b == "" {
			return ""
		}
		return "(" + a + x.Op.String() + b + ")"
	}
	return ""
}

// idx renders an index: constants literally, any other value by identity
// (the same SSA value on both sides means the same induction variable).
func (c *pathCtx) idx(v ssa.Value) string {
	if s := c.path(v); s != "" {
		return s
	}
	return "%" + v.Name()
}

func rootedAt(path string) (one, two bool) {
	return strings.Contains(path, "$1"), strings.Contains(path, "$2")
}

func swapRoots(path string) string {
	path = strings.ReplaceAll(path, "$1", "$\x00")
	path = strings.ReplaceAll(path, "$2", "$1")
	return strings.ReplaceAll(path, "$\x00", "$2")
}

// operandPairs returns the candidate operand pairs of a comparator: pairs of
// parameters (receiver included) of the same type; for sort callbacks the two
// index parameters.
func operandPairs(f *ssa.Function) [][2]ssa.Value {
	var ps []ssa.Value
	for _, p := range f.Params {
		ps = append(ps, p)
	}
	var out [][2]ssa.Value
	for i := 0; i < len(ps); i++ {
		for j := i + 1; j < len(ps); j++ {
			if sameOperandType(ps[i].Type(), ps[j].Type()) {
				out = append(out, [2]ssa.Value{ps[i], ps[j]})
			}
		}
	}
	return out
}

type symResult struct {
	checked   int
	undecided int
	bad       []symFinding
}

type symFinding struct {
	pos  token.Pos
	a, b string
	what string
}

var cmpOps = map[token.Token]bool{token.EQL: true, token.NEQ: true, token.LSS: true, token.LEQ: true, token.GTR: true, token.GEQ: true}

// projSym checks that paired operands use mirrored projections.
func projSym(f *ssa.Function) symResult {
	var res symResult
	for _, pair := range operandPairs(f) {
		ctx := &pathCtx{fn: f, roots: map[ssa.Value]string{pair[0]: "$1", pair[1]: "$2"}, memo: map[ssa.Value]string{}}
		check := func(pos token.Pos, x, y ssa.Value, what string) {
			px, py := ctx.path(x), ctx.path(y)
			if px == "" || py == "" {
				// count as undecided only if at least one side is rooted
				a1, a2 := rootedAt(px)
				b1, b2 := rootedAt(py)
				if a1 || a2 || b1 || b2 {
					res.undecided++
				}
				return
			}
			x1, x2 := rootedAt(px)
			y1, y2 := rootedAt(py)
			if !((x1 && !x2 && y2 && !y1) || (x2 && !x1 && y1 && !y2)) {
				return // not a comparison between the two operands
			}
			res.checked++
			if swapRoots(px) != py {
				res.bad = append(res.bad, symFinding{pos, px, py, what})
			}
		}
		for _, b := range f.Blocks {
			for _, in := range b.Instrs {
				switch x := in.(type) {
				case *ssa.BinOp:
					if cmpOps[x.Op] {
						check(x.Pos(), x.X, x.Y, "operator "+x.Op.String())
					}
				case *ssa.Call:
					com := x.Common()
					args := com.Args
					if com.IsInvoke() {
						args = append([]ssa.Value{com.Value}, args...)
					}
					if _, isB := com.Value.(*ssa.Builtin); isB {
						continue
					}
					name := "call"
					if sc := com.StaticCallee(); sc != nil {
						name = "call to " + short(fullName(sc))
					} else if com.IsInvoke() {
						name = "call to " + com.Method.Name()
					}
					for i := 0; i < len(args); i++ {
						for j := i + 1; j < len(args); j++ {
							if types.Identical(args[i].Type(), args[j].Type()) || (i == 0 && com.IsInvoke()) || sameOperandType(args[i].Type(), args[j].Type()) {
								check(x.Pos(), args[i], args[j], name)
							}
						}
					}
				}
			}
		}
	}
	return res
}

// ---- COVER ----------------------------------------------------------------

// coverResult lists which first-level fields of the operand struct type are
// read from each operand.
type coverResult struct {
	fields    []string
	read      [2]map[string]bool
	delegated bool // both whole operands are handed to another comparator
	to        string
}

// coverOf analyses comparator f over struct type st with operand values a, b.
func coverOf(p *Prog, f *ssa.Function, st *types.Struct, ops [2]func(ssa.Value) bool) coverResult {
	res := coverResult{read: [2]map[string]bool{{}, {}}}
	for i := 0; i < st.NumFields(); i++ {
		res.fields = append(res.fields, st.Field(i).Name())
	}
	// rootOf walks an access back to an operand, returning the operand index
	// and the first-level field (or "" for the whole operand).
	var rootOf func(v ssa.Value, depth int) (int, string)
	rootOf = func(v ssa.Value, depth int) (int, string) {
		if depth > 16 {
			return -1, ""
		}
		for k := 0; k < 2; k++ {
			if ops[k](v) {
				return k, ""
			}
		}
		switch x := v.(type) {
		case *ssa.FieldAddr:
			k, fld := rootOf(x.X, depth+1)
			if k >= 0 && fld == "" {
				if s, ok := x.X.Type().Underlying().(*types.Pointer).Elem().Underlying().(*types.Struct); ok && types.Identical(s, st) {
					return k, s.Field(x.Field).Name()
				}
			}
			return k, fld
		case *ssa.Field:
			k, fld := rootOf(x.X, depth+1)
			if k >= 0 && fld == "" {
				if s, ok := x.X.Type().Underlying().(*types.Struct); ok && types.Identical(s, st) {
					return k, s.Field(x.Field).Name()
				}
			}
			return k, fld
		case *ssa.UnOp:
			return rootOf(x.X, depth+1)
		case *ssa.Alloc:
			if sv := singleStore(x); sv != nil {
				return rootOf(sv, depth+1)
			}
		case *ssa.IndexAddr:
			return rootOf(x.X, depth+1)
		case *ssa.Index:
			return rootOf(x.X, depth+1)
		case *ssa.Slice:
			return rootOf(x.X, depth+1)
		case *ssa.ChangeType:
			return rootOf(x.X, depth+1)
		case *ssa.Convert:
			return rootOf(x.X, depth+1)
		case *ssa.MakeInterface:
			return rootOf(x.X, depth+1)
		case *ssa.TypeAssert:
			return rootOf(x.X, depth+1)
		case *ssa.Extract:
			return rootOf(x.Tuple, depth+1)
		case *ssa.Lookup:
			return rootOf(x.X, depth+1)
		}
		return -1, ""
	}
	for _, b := range f.Blocks {
		for _, in := range b.Instrs {
			switch x := in.(type) {
			case *ssa.FieldAddr, *ssa.Field:
				if k, fld := rootOf(x.(ssa.Value), 0); k >= 0 && fld != "" {
					res.read[k][fld] = true
				}
			case *ssa.Call:
				com := x.Common()
				args := com.Args
				if com.IsInvoke() {
					args = append([]ssa.Value{com.Value}, args...)
				}
				// whole-operand delegation: some argument is operand 0 and another operand 1
				var whole [2]bool
				for _, a := range args {
					if k, fld := rootOf(a, 0); k >= 0 && fld == "" {
						whole[k] = true
					}
				}
				if whole[0] && whole[1] {
					res.delegated = true
					if sc := com.StaticCallee(); sc != nil {
						res.to = short(fullName(sc))
					} else if com.IsInvoke() {
						res.to = com.Method.Name()
					}
				}
			case *ssa.BinOp:
				// whole-struct comparison a == b reads every field
				if x.Op == token.EQL || x.Op == token.NEQ {
					kx, fx := rootOf(x.X, 0)
					ky, fy := rootOf(x.Y, 0)
					if kx >= 0 && ky >= 0 && kx != ky && fx == "" && fy == "" {
						for _, n := range res.fields {
							res.read[0][n] = true
							res.read[1][n] = true
						}
					}
				}
			}
		}
	}
	return res
}

// ---- TIEBREAK (AST) --------------------------------------------------------

// lastReturnExpr returns the expression of the final `return` of a function body.
func lastReturnExpr(body *ast.BlockStmt) ast.Expr {
	if body == nil || len(body.List) == 0 {
		return nil
	}
	if rs, ok := body.List[len(body.List)-1].(*ast.ReturnStmt); ok && len(rs.Results) == 1 {
		return rs.Results[0]
	}
	return nil
}
