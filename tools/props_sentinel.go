package main

import (
	"fmt"
	"go/constant"
	"go/token"
	"go/types"
	"strings"

	"golang.org/x/tools/go/ssa"
)

// sentinelWrappedRule (C18.i NOTFOUND-WRAPPED): the resolvers tell "this version
// does not exist" from a real failure with errors.Is(err, resolve.ErrNotFound)
// (the npm resolver does, when a requirement meets a bundled copy that was
// never published). The in-memory client wraps the sentinel with %w; the
// API-backed client must do the same in every not-found answer, or the two
// clients resolve the same data differently. For every fmt.Errorf call of the
// package that is given ErrNotFound: the verb that formats it is %w.
func sentinelWrappedRule(r *Report, p *Prog, rule string, sentinel string) int {
	n := 0
	for _, f := range p.Funcs {
		if f.Pkg == nil || f.Blocks == nil || f.Synthetic != "" || f.Pkg.Pkg.Path() != modPrefix+"resolve" {
			continue
		}
		per := 0
		for _, b := range f.Blocks {
			for _, in := range b.Instrs {
				c, ok := in.(*ssa.Call)
				if !ok || staticCalleeName(c) != "fmt.Errorf" || len(c.Common().Args) != 2 {
					continue
				}
				fc, ok := c.Common().Args[0].(*ssa.Const)
				if !ok || fc.Value == nil || fc.Value.Kind() != constant.String {
					continue
				}
				// the variadic arguments: stores into the varargs array
				sl, ok := c.Common().Args[1].(*ssa.Slice)
				if !ok {
					continue
				}
				arr, ok := sl.X.(*ssa.Alloc)
				if !ok || arr.Referrers() == nil {
					continue
				}
				argAt := map[int64]ssa.Value{}
				for _, ref := range *arr.Referrers() {
					ia, ok := ref.(*ssa.IndexAddr)
					if !ok || ia.Referrers() == nil {
						continue
					}
					ix, ok := ia.Index.(*ssa.Const)
					if !ok {
						continue
					}
					for _, r2 := range *ia.Referrers() {
						if st, ok := r2.(*ssa.Store); ok && st.Addr == ssa.Value(ia) {
							argAt[ix.Int64()] = st.Val
						}
					}
				}
				isSentinel := func(v ssa.Value) bool {
					for d := 0; d < 4 && v != nil; d++ {
						switch x := v.(type) {
						case *ssa.MakeInterface:
							v = x.X
						case *ssa.ChangeInterface:
							v = x.X
						case *ssa.UnOp:
							if g, ok := x.X.(*ssa.Global); ok && g.Name() == sentinel {
								return true
							}
							return false
						default:
							return false
						}
					}
					return false
				}
				// verbs in order
				format := constant.StringVal(fc.Value)
				var verbs []byte
				for i := 0; i < len(format); i++ {
					if format[i] != '%' {
						continue
					}
					i++
					for i < len(format) && strings.IndexByte("+-# 0123456789.[]*", format[i]) >= 0 {
						i++
					}
					if i < len(format) && format[i] != '%' {
						verbs = append(verbs, format[i])
					}
				}
				for k, v := range argAt {
					if !isSentinel(v) {
						continue
					}
					n++
					per++
					key := fmt.Sprintf("%s: not-found answer #%d wraps %s", fnKey(f), per, sentinel)
					if int(k) < len(verbs) && verbs[k] == 'w' {
						r.ok(rule, key, p.pos(c.Pos()), "formatted with %w")
					} else {
						verb := "?"
						if int(k) < len(verbs) {
							verb = "%" + string(verbs[k])
						}
						r.bad(rule, key, p.pos(c.Pos()), fmt.Sprintf("%s is formatted with %s in %q: the error no longer satisfies errors.Is(err, %s), which the resolvers use to tell a missing version from a failure (the in-memory client wraps it with %%w), so the same data resolves differently through the two clients", sentinel, verb, format, sentinel))
					}
				}
			}
		}
	}
	return n
}

// cutsetValidRule: strings.Trim*, IndexAny, ContainsAny and LastIndexAny decode
// their cutset argument as UTF-8. A constant cutset that is not valid UTF-8
// (a Latin-1 byte written as \x85 instead of \u0085) contributes U+FFFD, which
// then matches EVERY invalid byte of the subject: a tokenizer built on it cuts
// values that hold binary data.
func cutsetValidRule(r *Report, p *Prog, rule string, pkgs ...string) int {
	cutsetArg := map[string]int{"strings.Trim": 1, "strings.TrimLeft": 1, "strings.TrimRight": 1, "strings.IndexAny": 1, "strings.LastIndexAny": 1, "strings.ContainsAny": 1}
	n := 0
	for _, f := range p.Funcs {
		if f.Pkg == nil || f.Blocks == nil || f.Synthetic != "" {
			continue
		}
		in := false
		for _, pk := range pkgs {
			if f.Pkg.Pkg.Path() == modPrefix+pk {
				in = true
			}
		}
		if !in {
			continue
		}
		per := 0
		for _, b := range f.Blocks {
			for _, ins := range b.Instrs {
				c, ok := ins.(*ssa.Call)
				if !ok {
					continue
				}
				name := staticCalleeName(c)
				k, ok := cutsetArg[name]
				if !ok || k >= len(c.Common().Args) {
					continue
				}
				cs, ok := c.Common().Args[k].(*ssa.Const)
				if !ok || cs.Value == nil || cs.Value.Kind() != constant.String {
					continue
				}
				n++
				per++
				key := fmt.Sprintf("%s: cutset of %s #%d is valid UTF-8", fnKey(f), name, per)
				s := constant.StringVal(cs.Value)
				if strings.ToValidUTF8(s, "�") == s && !strings.ContainsRune(s, '�') {
					r.ok(rule, key, p.pos(c.Pos()), fmt.Sprintf("%q", s))
				} else {
					r.bad(rule, key, p.pos(c.Pos()), fmt.Sprintf("the constant cutset %q is not valid UTF-8 (or names U+FFFD): %s decodes it as runes, the stray bytes become U+FFFD, and U+FFFD matches every invalid byte of the subject, so any value that holds binary data is cut there", s, name))
				}
			}
		}
	}
	return n
}

// depOrderTotalRule (C05.h DEP-ORDER-TOTAL): the resolvers process the
// requirements of a version in the order SortDependencies gives them, and the
// npm resolver's answer depends on that order when two requirements compete
// for one installed name (a package and an alias of that name). The comparator
// therefore has to be total on requirements: besides the name it reads the
// type and the requirement string of both operands; otherwise the order of
// such a pair, and with it the graph, depends on the order in which the
// caller listed them (and on sort.Slice, which is not stable).
func depOrderTotalRule(r *Report, p *Prog, rule string) {
	f := p.lookupFn("resolve.sortNPMDependencies")
	key := "resolve.sortNPMDependencies: the comparator distinguishes any two different requirements"
	if f == nil || len(f.AnonFuncs) == 0 {
		r.bad(rule, key, "", "sortNPMDependencies or its comparator not found: anchor lost")
		return
	}
	cmp := f.AnonFuncs[0]
	reads := fieldReads(p, cmp, modPrefix+"resolve", false, nil)
	have := map[string]bool{}
	for fv := range reads {
		have[fv.Name()] = true
	}
	var missing []string
	for _, want := range []string{"Name", "Type", "Version"} {
		if !have[want] {
			missing = append(missing, want)
		}
	}
	if len(missing) > 0 {
		r.bad(rule, key, p.pos(cmp.Pos()), fmt.Sprintf("the comparator that orders the requirements of a version never reads %v: two requirements that differ only there (a package named b and an alias b=npm:a@^1) keep whatever order the caller listed them in, and the npm resolver installs a different package under that name accordingly", missing))
	} else {
		r.ok(rule, key, p.pos(cmp.Pos()), "reads the name, the type and the requirement string of its operands")
	}
}

// sentinelComparedRule (C18.i, consumer side): the clients wrap ErrNotFound
// (fmt.Errorf("...: %w", ErrNotFound)), and so do the helpers between a client
// and a resolver. A consumer that tests `err == ErrNotFound` therefore never
// sees it; errors.Is is the only test that does. No == or != comparison has
// the sentinel as an operand anywhere in the resolvers and clients.
func sentinelComparedRule(r *Report, p *Prog, rule, sentinel string) int {
	n := 0
	for _, f := range p.Funcs {
		if !p.inScope(f) || f.Blocks == nil || f.Synthetic != "" {
			continue
		}
		per := 0
		for _, b := range f.Blocks {
			for _, in := range b.Instrs {
				switch x := in.(type) {
				case *ssa.Call:
					// errors.Is(err, ErrNotFound): a correct use
					if staticCalleeName(x) == "errors.Is" && len(x.Common().Args) == 2 && loadsGlobal(x.Common().Args[1], sentinel) {
						n++
						per++
						r.ok(rule, fmt.Sprintf("%s: test #%d for %s", fnKey(f), per, sentinel), p.pos(x.Pos()), "errors.Is")
					}
				case *ssa.BinOp:
					if (x.Op == token.EQL || x.Op == token.NEQ) && (loadsGlobal(x.X, sentinel) || loadsGlobal(x.Y, sentinel)) {
						n++
						per++
						r.bad(rule, fmt.Sprintf("%s: test #%d for %s", fnKey(f), per, sentinel), p.pos(x.Pos()), "the error is compared with "+sentinel+" by "+x.Op.String()+", but every producer wraps the sentinel (fmt.Errorf with %w), so the comparison is never true: the branch written for a missing version is dead and the error aborts the resolution instead (the npm resolver uses errors.Is)")
					}
				}
			}
		}
	}
	return n
}

func loadsGlobal(v ssa.Value, name string) bool {
	for d := 0; d < 4 && v != nil; d++ {
		switch x := v.(type) {
		case *ssa.MakeInterface:
			v = x.X
		case *ssa.ChangeInterface:
			v = x.X
		case *ssa.UnOp:
			g, ok := x.X.(*ssa.Global)
			return ok && g.Name() == name
		default:
			return false
		}
	}
	return false
}

// cacheIndexAgreesRule (C05.i CACHE-INDEX-AGREES): the resolver-lifetime LRU
// cache indexes its list nodes by key, and a node remembers its key so that
// eviction can delete the index entry of the node it recycles. The two must
// agree: wherever Add stores a node under a key in the index, the node is a
// fresh one pushed with that key, or the same block has stored that very key
// into the node before. If a recycled node keeps the key of the entry it held
// before, the next eviction deletes the wrong index entry and a live key then
// answers with another entry's value: a resolution depends on what the
// resolver was asked earlier.
func cacheIndexAgreesRule(r *Report, p *Prog, rule string) int {
	n := 0
	for _, f := range p.Funcs {
		if f.Pkg == nil && f.Origin() == nil {
			continue
		}
		pkgPath := ""
		if f.Pkg != nil {
			pkgPath = f.Pkg.Pkg.Path()
		} else if o := f.Origin(); o != nil && o.Pkg != nil {
			pkgPath = o.Pkg.Pkg.Path()
		}
		if pkgPath != modPrefix+"resolve/pypi/internal/lru" || f.Blocks == nil || !(f.Name() == "Add" || strings.HasPrefix(f.Name(), "Add[")) {
			continue
		}
		per := 0
		for _, b := range f.Blocks {
			for i, in := range b.Instrs {
				mu, ok := in.(*ssa.MapUpdate)
				if !ok {
					continue
				}
				if _, isPtr := mu.Value.Type().Underlying().(*types.Pointer); !isPtr {
					continue
				}
				n++
				per++
				key := fmt.Sprintf("%s: index update #%d stores a node that carries the same key", fnKey(f), per)
				okNode := false
				how := ""
				if c, isCall := mu.Value.(*ssa.Call); isCall {
					if sc := c.Common().StaticCallee(); sc != nil && (sc.Name() == "Push" || strings.HasPrefix(sc.Name(), "Push[")) {
						okNode, how = true, "a fresh node pushed for this key"
					}
				}
				if !okNode {
					for _, prev := range b.Instrs[:i] {
						st, isStore := prev.(*ssa.Store)
						if !isStore || st.Val != mu.Key {
							continue
						}
						fa, isFA := st.Addr.(*ssa.FieldAddr)
						if !isFA {
							continue
						}
						if inner, isFA2 := fa.X.(*ssa.FieldAddr); isFA2 && inner.X == mu.Value {
							okNode, how = true, "the node's own key was set to this key just before"
						}
					}
				}
				if okNode {
					r.ok(rule, key, p.pos(mu.Pos()), how)
				} else {
					r.bad(rule, key, p.pos(mu.Pos()), "a recycled list node is stored in the index under a key that was not stored into the node: the node still names the entry it held before, the next eviction of this node deletes that stale index entry instead of the live one, and the live key then answers with another entry's value")
				}
			}
		}
	}
	return n
}

// markerEvaluatedRule (C16/MARKER-EVALUATED): whether a guarded dependency is
// followed is decided by evaluating its marker, and by nothing else. In the
// filter of provider.getDependencies a requirement that carries a marker is
// dropped or kept only with the value Eval returned (or the parse error): no
// return of a constant verdict with a nil error other than the "no marker:
// keep" exit. A textual shortcut ("the marker mentions extra and no extra is
// requested: drop") is wrong for every marker in which that sub-expression is
// one arm of an `or`, or sits inside a string literal.
func markerEvaluatedRule(r *Report, p *Prog, rule string) {
	f := p.lookupFn("(*resolve/pypi.provider).getDependencies")
	key := "(*resolve/pypi.provider).getDependencies: the verdict on a guarded dependency is the marker's value"
	if f == nil || len(f.AnonFuncs) == 0 {
		r.bad(rule, key, "", "getDependencies or its filter callback not found: anchor lost")
		return
	}
	cb := f.AnonFuncs[0]
	evalSeen := false
	var bad []string
	nRet := 0
	for _, b := range cb.Blocks {
		for _, in := range b.Instrs {
			if c, ok := in.(*ssa.Call); ok && c.Common().IsInvoke() && c.Common().Method.Name() == "Eval" {
				evalSeen = true
			}
		}
		ret, ok := b.Instrs[len(b.Instrs)-1].(*ssa.Return)
		if !ok || len(ret.Results) != 2 {
			continue
		}
		nRet++
		verdict, isConst := ret.Results[0].(*ssa.Const)
		errc, errConst := ret.Results[1].(*ssa.Const)
		if !isConst || !errConst || !errc.IsNil() || verdict.Value == nil {
			continue // the marker's value, or an error
		}
		if constant.BoolVal(verdict.Value) {
			// keep without evaluating: only where the requirement has no marker,
			// i.e. on the false edge of the presence result of GetAttr
			okExit := false
			for _, pr := range b.Preds {
				ifi, isIf := pr.Instrs[len(pr.Instrs)-1].(*ssa.If)
				if !isIf || pr.Succs[1] != b {
					continue
				}
				if ex, isEx := ifi.Cond.(*ssa.Extract); isEx && ex.Index == 1 {
					if c, isCall := ex.Tuple.(*ssa.Call); isCall && strings.HasSuffix(staticCalleeName(c), ".GetAttr") {
						okExit = true
					}
				}
			}
			if !okExit {
				bad = append(bad, "a constant `true, nil` that is not the no-marker exit at "+p.pos(ret.Pos()))
			}
		} else {
			bad = append(bad, "a constant `false, nil` at "+p.pos(ret.Pos()))
		}
	}
	switch {
	case !evalSeen || nRet < 2:
		r.bad(rule, key, p.pos(cb.Pos()), "the filter callback no longer evaluates a marker (no Eval call) or has fewer than two exits: anchor lost")
	case len(bad) > 0:
		r.bad(rule, key, p.pos(cb.Pos()), "the filter decides about a requirement that carries a marker without the marker's value ("+strings.Join(bad, "; ")+"): the dependency is dropped or kept whatever the marker evaluates to")
	default:
		r.ok(rule, key, p.pos(cb.Pos()), fmt.Sprintf("%d exits: the no-marker keep, errors, and the value of Eval", nRet))
	}
}
