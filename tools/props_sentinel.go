package main

import (
	"fmt"
	"go/constant"
	"go/token"
	"strings"

	"golang.org/x/tools/go/ssa"
)

// sentinelWrappedRule (C18.i NOTFOUND-WRAPPED): the resolvers tell "this version
// does not exist" from a real failure with errors.Is(err, resolve.ErrNotFound)
// (the npm resolver does, when a requirement meets a bundled copy that was
// never published). The in-memory client wraps the sentinel with %w; the
// API-backed client must do the same in every not-found answer, or the two
// clients resolve the same data differently. For every fmt.Errorf call of the
// package that is given ErrNotFound: the verb that formats it is %w.
func sentinelWrappedRule(r *Report, p *Prog, rule string, sentinel string) int {
	n := 0
	for _, f := range p.Funcs {
		if f.Pkg == nil || f.Blocks == nil || f.Synthetic != "" || f.Pkg.Pkg.Path() != modPrefix+"resolve" {
			continue
		}
		per := 0
		for _, b := range f.Blocks {
			for _, in := range b.Instrs {
				c, ok := in.(*ssa.Call)
				if !ok || staticCalleeName(c) != "fmt.Errorf" || len(c.Common().Args) != 2 {
					continue
				}
				fc, ok := c.Common().Args[0].(*ssa.Const)
				if !ok || fc.Value == nil || fc.Value.Kind() != constant.String {
					continue
				}
				// the variadic arguments: stores into the varargs array
				sl, ok := c.Common().Args[1].(*ssa.Slice)
				if !ok {
					continue
				}
				arr, ok := sl.X.(*ssa.Alloc)
				if !ok || arr.Referrers() == nil {
					continue
				}
				argAt := map[int64]ssa.Value{}
				for _, ref := range *arr.Referrers() {
					ia, ok := ref.(*ssa.IndexAddr)
					if !ok || ia.Referrers() == nil {
						continue
					}
					ix, ok := ia.Index.(*ssa.Const)
					if !ok {
						continue
					}
					for _, r2 := range *ia.Referrers() {
						if st, ok := r2.(*ssa.Store); ok && st.Addr == ssa.Value(ia) {
							argAt[ix.Int64()] = st.Val
						}
					}
				}
				isSentinel := func(v ssa.Value) bool {
					for d := 0; d < 4 && v != nil; d++ {
						switch x := v.(type) {
						case *ssa.MakeInterface:
							v = x.X
						case *ssa.ChangeInterface:
							v = x.X
						case *ssa.UnOp:
							if g, ok := x.X.(*ssa.Global); ok && g.Name() == sentinel {
								return true
							}
							return false
						default:
							return false
						}
					}
					return false
				}
				// verbs in order
				format := constant.StringVal(fc.Value)
				var verbs []byte
				for i := 0; i < len(format); i++ {
					if format[i] != '%' {
						continue
					}
					i++
					for i < len(format) && strings.IndexByte("+-# 0123456789.[]*", format[i]) >= 0 {
						i++
					}
					if i < len(format) && format[i] != '%' {
						verbs = append(verbs, format[i])
					}
				}
				for k, v := range argAt {
					if !isSentinel(v) {
						continue
					}
					n++
					per++
					key := fmt.Sprintf("%s: not-found answer #%d wraps %s", fnKey(f), per, sentinel)
					if int(k) < len(verbs) && verbs[k] == 'w' {
						r.ok(rule, key, p.pos(c.Pos()), "formatted with %w")
					} else {
						verb := "?"
						if int(k) < len(verbs) {
							verb = "%" + string(verbs[k])
						}
						r.bad(rule, key, p.pos(c.Pos()), fmt.Sprintf("%s is formatted with %s in %q: the error no longer satisfies errors.Is(err, %s), which the resolvers use to tell a missing version from a failure (the in-memory client wraps it with %%w), so the same data resolves differently through the two clients", sentinel, verb, format, sentinel))
					}
				}
			}
		}
	}
	return n
}

// cutsetValidRule: strings.Trim*, IndexAny, ContainsAny and LastIndexAny decode
// their cutset argument as UTF-8. A constant cutset that is not valid UTF-8
// (a Latin-1 byte written as \x85 instead of \u0085) contributes U+FFFD, which
// then matches EVERY invalid byte of the subject: a tokenizer built on it cuts
// values that hold binary data.
func cutsetValidRule(r *Report, p *Prog, rule string, pkgs ...string) int {
	cutsetArg := map[string]int{"strings.Trim": 1, "strings.TrimLeft": 1, "strings.TrimRight": 1, "strings.IndexAny": 1, "strings.LastIndexAny": 1, "strings.ContainsAny": 1}
	n := 0
	for _, f := range p.Funcs {
		if f.Pkg == nil || f.Blocks == nil || f.Synthetic != "" {
			continue
		}
		in := false
		for _, pk := range pkgs {
			if f.Pkg.Pkg.Path() == modPrefix+pk {
				in = true
			}
		}
		if !in {
			continue
		}
		per := 0
		for _, b := range f.Blocks {
			for _, ins := range b.Instrs {
				c, ok := ins.(*ssa.Call)
				if !ok {
					continue
				}
				name := staticCalleeName(c)
				k, ok := cutsetArg[name]
				if !ok || k >= len(c.Common().Args) {
					continue
				}
				cs, ok := c.Common().Args[k].(*ssa.Const)
				if !ok || cs.Value == nil || cs.Value.Kind() != constant.String {
					continue
				}
				n++
				per++
				key := fmt.Sprintf("%s: cutset of %s #%d is valid UTF-8", fnKey(f), name, per)
				s := constant.StringVal(cs.Value)
				if strings.ToValidUTF8(s, "�") == s && !strings.ContainsRune(s, '�') {
					r.ok(rule, key, p.pos(c.Pos()), fmt.Sprintf("%q", s))
				} else {
					r.bad(rule, key, p.pos(c.Pos()), fmt.Sprintf("the constant cutset %q is not valid UTF-8 (or names U+FFFD): %s decodes it as runes, the stray bytes become U+FFFD, and U+FFFD matches every invalid byte of the subject, so any value that holds binary data is cut there", s, name))
				}
			}
		}
	}
	return n
}

// depOrderTotalRule (C05.h DEP-ORDER-TOTAL): the resolvers process the
// requirements of a version in the order SortDependencies gives them, and the
// npm resolver's answer depends on that order when two requirements compete
// for one installed name (a package and an alias of that name). The comparator
// therefore has to be total on requirements: besides the name it reads the
// type and the requirement string of both operands; otherwise the order of
// such a pair, and with it the graph, depends on the order in which the
// caller listed them (and on sort.Slice, which is not stable).
func depOrderTotalRule(r *Report, p *Prog, rule string) {
	f := p.lookupFn("resolve.sortNPMDependencies")
	key := "resolve.sortNPMDependencies: the comparator distinguishes any two different requirements"
	if f == nil || len(f.AnonFuncs) == 0 {
		r.bad(rule, key, "", "sortNPMDependencies or its comparator not found: anchor lost")
		return
	}
	cmp := f.AnonFuncs[0]
	reads := fieldReads(p, cmp, modPrefix+"resolve", false, nil)
	have := map[string]bool{}
	for fv := range reads {
		have[fv.Name()] = true
	}
	var missing []string
	for _, want := range []string{"Name", "Type", "Version"} {
		if !have[want] {
			missing = append(missing, want)
		}
	}
	if len(missing) > 0 {
		r.bad(rule, key, p.pos(cmp.Pos()), fmt.Sprintf("the comparator that orders the requirements of a version never reads %v: two requirements that differ only there (a package named b and an alias b=npm:a@^1) keep whatever order the caller listed them in, and the npm resolver installs a different package under that name accordingly", missing))
	} else {
		r.ok(rule, key, p.pos(cmp.Pos()), "reads the name, the type and the requirement string of its operands")
	}
}

// sentinelComparedRule (C18.i, consumer side): the clients wrap ErrNotFound
// (fmt.Errorf("...: %w", ErrNotFound)), and so do the helpers between a client
// and a resolver. A consumer that tests `err == ErrNotFound` therefore never
// sees it; errors.Is is the only test that does. No == or != comparison has
// the sentinel as an operand anywhere in the resolvers and clients.
func sentinelComparedRule(r *Report, p *Prog, rule, sentinel string) int {
	n := 0
	for _, f := range p.Funcs {
		if !p.inScope(f) || f.Blocks == nil || f.Synthetic != "" {
			continue
		}
		per := 0
		for _, b := range f.Blocks {
			for _, in := range b.Instrs {
				switch x := in.(type) {
				case *ssa.Call:
					// errors.Is(err, ErrNotFound): a correct use
					if staticCalleeName(x) == "errors.Is" && len(x.Common().Args) == 2 && loadsGlobal(x.Common().Args[1], sentinel) {
						n++
						per++
						r.ok(rule, fmt.Sprintf("%s: test #%d for %s", fnKey(f), per, sentinel), p.pos(x.Pos()), "errors.Is")
					}
				case *ssa.BinOp:
					if (x.Op == token.EQL || x.Op == token.NEQ) && (loadsGlobal(x.X, sentinel) || loadsGlobal(x.Y, sentinel)) {
						n++
						per++
						r.bad(rule, fmt.Sprintf("%s: test #%d for %s", fnKey(f), per, sentinel), p.pos(x.Pos()), "the error is compared with "+sentinel+" by "+x.Op.String()+", but every producer wraps the sentinel (fmt.Errorf with %w), so the comparison is never true: the branch written for a missing version is dead and the error aborts the resolution instead (the npm resolver uses errors.Is)")
					}
				}
			}
		}
	}
	return n
}

func loadsGlobal(v ssa.Value, name string) bool {
	for d := 0; d < 4 && v != nil; d++ {
		switch x := v.(type) {
		case *ssa.MakeInterface:
			v = x.X
		case *ssa.ChangeInterface:
			v = x.X
		case *ssa.UnOp:
			g, ok := x.X.(*ssa.Global)
			return ok && g.Name() == name
		default:
			return false
		}
	}
	return false
}
