package main

// TABLE engine: rules over constant tables, evaluated with go/types and
// go/constant on the syntax tree; nothing runs (DESIGN.md §3.3).

import (
	"go/ast"
	"go/constant"
	"go/token"
	"go/types"
	"sort"
	"strings"

	"golang.org/x/tools/go/packages"
)

// pkgVarInit returns the initialiser expression of a package-level variable.
func pkgVarInit(pk *packages.Package, name string) ast.Expr {
	for _, f := range pk.Syntax {
		for _, d := range f.Decls {
			gd, ok := d.(*ast.GenDecl)
			if !ok || gd.Tok != token.VAR {
				continue
			}
			for _, s := range gd.Specs {
				vs := s.(*ast.ValueSpec)
				for i, n := range vs.Names {
					if n.Name == name && i < len(vs.Values) {
						return vs.Values[i]
					}
				}
			}
		}
	}
	return nil
}

// funcDecl finds a function or method declaration: "name" or "Recv.name".
func funcDecl(pk *packages.Package, name string) *ast.FuncDecl {
	for _, f := range pk.Syntax {
		for _, d := range f.Decls {
			fd, ok := d.(*ast.FuncDecl)
			if !ok {
				continue
			}
			n := fd.Name.Name
			if fd.Recv != nil && len(fd.Recv.List) == 1 {
				n = strings.TrimPrefix(types.ExprString(fd.Recv.List[0].Type), "*") + "." + n
			}
			if n == name {
				return fd
			}
		}
	}
	return nil
}

func constString(pk *packages.Package, e ast.Expr) (string, bool) {
	tv, ok := pk.TypesInfo.Types[e]
	if !ok || tv.Value == nil || tv.Value.Kind() != constant.String {
		return "", false
	}
	return constant.StringVal(tv.Value), true
}

func constInt64(pk *packages.Package, e ast.Expr) (int64, bool) {
	tv, ok := pk.TypesInfo.Types[e]
	if !ok || tv.Value == nil {
		return 0, false
	}
	v := constant.ToInt(tv.Value)
	if v.Kind() != constant.Int {
		return 0, false
	}
	return constant.Int64Val(v)
}

// usedConst returns the constant object an identifier or selector denotes.
func usedConst(pk *packages.Package, e ast.Expr) *types.Const {
	switch x := e.(type) {
	case *ast.Ident:
		c, _ := pk.TypesInfo.Uses[x].(*types.Const)
		return c
	case *ast.SelectorExpr:
		c, _ := pk.TypesInfo.Uses[x.Sel].(*types.Const)
		return c
	case *ast.ParenExpr:
		return usedConst(pk, x.X)
	}
	return nil
}

// constsOfType lists the package-level constants whose type is the named type.
func constsOfType(pk *packages.Package, typeName string) []*types.Const {
	tn, ok := pk.Types.Scope().Lookup(typeName).(*types.TypeName)
	if !ok {
		return nil
	}
	var out []*types.Const
	for _, n := range pk.Types.Scope().Names() {
		if c, ok := pk.Types.Scope().Lookup(n).(*types.Const); ok && types.Identical(c.Type(), tn.Type()) {
			out = append(out, c)
		}
	}
	sort.Slice(out, func(i, j int) bool { return out[i].Pos() < out[j].Pos() })
	return out
}

// properPrefixBefore returns pairs (i<j) where entry i is a proper prefix of
// entry j in a first-fit ordered list: entry j can never match.
func properPrefixBefore(list []string) [][2]string {
	var out [][2]string
	for i := 0; i < len(list); i++ {
		for j := i + 1; j < len(list); j++ {
			if list[i] != list[j] && strings.HasPrefix(list[j], list[i]) {
				out = append(out, [2]string{list[i], list[j]})
			}
		}
	}
	return out
}

// switchCases collects, for a switch statement, the constant expressions of
// each case clause.
func caseConsts(pk *packages.Package, sw *ast.SwitchStmt) []*types.Const {
	var out []*types.Const
	for _, st := range sw.Body.List {
		cc := st.(*ast.CaseClause)
		for _, e := range cc.List {
			if c := usedConst(pk, e); c != nil {
				out = append(out, c)
			}
		}
	}
	return out
}

// findSwitchOn finds the first switch statement in body whose tag satisfies pred.
func findSwitch(body ast.Node, pred func(*ast.SwitchStmt) bool) *ast.SwitchStmt {
	var found *ast.SwitchStmt
	ast.Inspect(body, func(n ast.Node) bool {
		if sw, ok := n.(*ast.SwitchStmt); ok && found == nil && pred(sw) {
			found = sw
		}
		return found == nil
	})
	return found
}
