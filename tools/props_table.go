package main

import (
	"fmt"
	"go/ast"
	"go/constant"
	"go/token"
	"go/types"
	"sort"
	"strings"

	"golang.org/x/tools/go/packages"
	"golang.org/x/tools/go/ssa"
)

func tableTrusted(r *Report) {
	r.Trusted = append(r.Trusted, "go/types and go/constant for folding table literals", "the normative tables typed into /verif/tools/props_table.go from the cited specifications")
}

// mapLitStrings evaluates a map[string]T literal into key -> value expression.
func mapLitByStringKey(pk *packages.Package, e ast.Expr) (map[string]ast.Expr, []string, bool) {
	cl, ok := e.(*ast.CompositeLit)
	if !ok {
		return nil, nil, false
	}
	out := map[string]ast.Expr{}
	var order []string
	for _, el := range cl.Elts {
		kv, ok := el.(*ast.KeyValueExpr)
		if !ok {
			return nil, nil, false
		}
		k, ok := constString(pk, kv.Key)
		if !ok {
			return nil, nil, false
		}
		out[k] = kv.Value
		order = append(order, k)
	}
	return out, order, true
}

// ---------------------------------------------------------------- C02 ----

func checkC02(r *Report) {
	p := loadResolve("", false)
	pk := p.pkg("semver")
	tableTrusted(r)
	r.Explain = "The ordering of versions agrees with each ecosystem only if the finite keyword tables the comparators consult agree with the ecosystems' normative tables. Decided (TABLE/ORACLE, TABLE/PREFIX-ORDER on folded literals): Maven's qualifier order (alpha < beta < milestone < rc = cr < snapshot < '' = ga = final = release < sp, all below unknown qualifiers) and the a/b/m shorthand; PEP 440 prerelease spellings (alpha,a -> a; beta,b -> b; c,rc,pre,preview -> rc) and post spellings (post, rev, r), each list matched first-fit so no earlier entry may be a proper prefix of a later one; the PEP 440 rank constants (dev < a < b < rc < final < local < post) and the mapping from canonical spelling to rank. This is a necessary condition only: the comparison algorithms themselves quantify over value pairs and are not decided."
	r.Assume = []string{"normative tables: Maven ComparableVersion (maven-artifact 3.x) qualifier list; PEP 440 'Pre-release spelling' and 'Post-release spelling' normalisation rules"}
	// TRIM-SUFFIX: loops that trim trailing elements stop at the first element that stays
	nLoops, nTrims := trimSuffixRule(r, p, "C02/TRIM-SUFFIX", "semver", "resolve/npm", "resolve/pypi", "resolve/maven", "maven", "pypi")
	r.floor("C02/TRIM-SUFFIX", "descending counted loops examined", nLoops, 3)
	_ = nTrims
	// NUMBER-WIDTH: numbers are not parsed narrower than the field that holds them
	nW := numberWidthRule(r, loadResolve("", true), "C02/NUMBER-WIDTH", "semver")
	r.floor("C02/NUMBER-WIDTH", "strconv.ParseUint/ParseInt calls with a constant bit size in package semver", nW, 4)
	// SIGNED-PARSE: identifier text is not read by a sign-accepting parser
	nSP := signedParseRule(r, loadResolve("", true), "C02/SIGNED-PARSE", "semver")
	r.floor("C02/SIGNED-PARSE", "strconv.ParseInt/Atoi calls in package semver", nSP, 2)
	nPE := parseErrorUsedRule(r, loadResolve("", true), "C02/PARSE-ERROR-USED", "semver")
	r.floor("C02/PARSE-ERROR-USED", "strconv number parsers called in package semver", nPE, 5)
	// PEP440-TEXT-FOLDED
	// PEP440-KEY-COMPLETE: the PEP 440 comparator answers "equal" only after reading every part of both versions
	nKF, nKE := keyCompleteRule(r, loadResolve("", true), "C02/PEP440-KEY-COMPLETE")
	r.floor("C02/PEP440-KEY-COMPLETE", "fields of the parsed PEP 440 extension", nKF, 8)
	r.floor("C02/PEP440-KEY-COMPLETE/EXITS", "exits of the comparator that can return 0", nKE, 2)
	// PREFILTER-ALPHABET: the letters the pre-filter tolerates cover the parser's keywords
	nPA := prefilterAlphabetRule(r, p, "C02/PREFILTER-ALPHABET")
	r.floor("C02/PREFILTER-ALPHABET", "PEP 440 keywords read from the tables", nPA, 13)
	// ZERO-BY-VALUE: no element text is compared with a digit literal
	nZV := zeroByValueRule(r, loadResolve("", true), "C02/ZERO-BY-VALUE")
	r.floor("C02/ZERO-BY-VALUE", "string comparisons examined in package semver", nZV, 40)
	nTF := textFoldedRule(r, loadResolve("", true), "C02/PEP440-TEXT-FOLDED", "pep440")
	r.floor("C02/PEP440-TEXT-FOLDED", "stores to string fields of the parsed PEP 440 extension", nTF, 2)

	// (a) Maven qualifier order
	if init := pkgVarInit(pk, "mavenVersionQualifierOrder"); init == nil {
		r.bad("C02/MAVEN-QUALIFIERS", "semver.mavenVersionQualifierOrder", "", "table not found: anchor lost")
	} else if m, _, ok := mapLitByStringKey(pk, init); !ok {
		r.bad("C02/MAVEN-QUALIFIERS", "semver.mavenVersionQualifierOrder", p.pos(init.Pos()), "table is no longer a literal with constant string keys")
	} else {
		classes := [][]string{{"alpha"}, {"beta"}, {"milestone"}, {"rc", "cr"}, {"snapshot"}, {"", "ga", "final", "release"}, {"sp"}}
		val := map[string]int64{}
		for k, e := range m {
			if v, ok := constInt64(pk, e); ok {
				val[k] = v
			}
		}
		n := 0
		var prev int64
		for ci, cls := range classes {
			for _, k := range cls {
				n++
				key := fmt.Sprintf("mavenVersionQualifierOrder[%q]", k)
				v, ok := val[k]
				pos := p.pos(init.Pos())
				if e := m[k]; e != nil {
					pos = p.pos(e.Pos())
				}
				switch {
				case !ok:
					r.bad("C02/MAVEN-QUALIFIERS", key, pos, "Maven's well-known qualifier is missing from the table: it would sort as an unknown qualifier, above sp")
				case v >= 0:
					r.bad("C02/MAVEN-QUALIFIERS", key, pos, fmt.Sprintf("rank %d is not negative: compareMavenQualifier treats non-negative ranks as unknown qualifiers", v))
				case v != val[cls[0]]:
					r.bad("C02/MAVEN-QUALIFIERS", key, pos, fmt.Sprintf("rank %d differs from its alias %q (%d)", v, cls[0], val[cls[0]]))
				case ci > 0 && k == cls[0] && !(prev < v):
					r.bad("C02/MAVEN-QUALIFIERS", key, pos, fmt.Sprintf("rank %d does not sort above the previous class %v (%d)", v, classes[ci-1], prev))
				default:
					r.ok("C02/MAVEN-QUALIFIERS", key, pos, fmt.Sprintf("rank %d, in Maven's order", v))
				}
			}
			prev = val[cls[0]]
		}
		r.floor("C02/MAVEN-QUALIFIERS", "normative Maven qualifiers checked", n, 11)
	}

	// (b) Maven a/b/m shorthand
	if fd := funcDecl(pk, "mavenExtension.init"); fd == nil {
		r.bad("C02/MAVEN-SHORTHAND", "mavenExtension.init", "", "function not found: anchor lost")
	} else {
		want := map[string]string{"a": "alpha", "b": "beta", "m": "milestone"}
		got := map[string]string{}
		var swPos token.Pos
		ast.Inspect(fd.Body, func(n ast.Node) bool {
			sw, ok := n.(*ast.SwitchStmt)
			if !ok || sw.Tag == nil {
				return true
			}
			for _, st := range sw.Body.List {
				cc := st.(*ast.CaseClause)
				if len(cc.List) != 1 || len(cc.Body) != 1 {
					continue
				}
				k, ok1 := constString(pk, cc.List[0])
				as, ok2 := cc.Body[0].(*ast.AssignStmt)
				if !ok1 || !ok2 || len(as.Rhs) != 1 {
					continue
				}
				if v, ok := constString(pk, as.Rhs[0]); ok {
					if _, isShort := want[k]; isShort {
						got[k] = v
						swPos = sw.Pos()
					}
				}
			}
			return true
		})
		for _, k := range []string{"a", "b", "m"} {
			key := fmt.Sprintf("mavenExtension.init shorthand %q", k)
			if got[k] == want[k] {
				r.ok("C02/MAVEN-SHORTHAND", key, p.pos(swPos), "expands to "+want[k]+" when followed by a number")
			} else {
				r.bad("C02/MAVEN-SHORTHAND", key, p.pos(fd.Pos()), fmt.Sprintf("Maven expands %q followed by a digit to %q; the parser maps it to %q", k, want[k], got[k]))
			}
		}
	}

	// (c)(d) PEP 440 spellings
	checkSpellings := func(rule, varName string, want map[string]string, pairs bool) {
		init := pkgVarInit(pk, varName)
		cl, ok := init.(*ast.CompositeLit)
		if init == nil || !ok {
			r.bad(rule, "semver."+varName, "", "table not found or not a literal: anchor lost")
			return
		}
		got := map[string]string{}
		var order []string
		for _, el := range cl.Elts {
			if pairs {
				ecl, ok := el.(*ast.CompositeLit)
				if !ok || len(ecl.Elts) != 2 {
					r.bad(rule, "semver."+varName, p.pos(el.Pos()), "entry is not a {text, canon} pair of constants")
					return
				}
				t, ok1 := constString(pk, ecl.Elts[0])
				c, ok2 := constString(pk, ecl.Elts[1])
				if !ok1 || !ok2 {
					r.bad(rule, "semver."+varName, p.pos(el.Pos()), "entry is not a {text, canon} pair of constants")
					return
				}
				got[t] = c
				order = append(order, t)
			} else {
				t, ok := constString(pk, el)
				if !ok {
					r.bad(rule, "semver."+varName, p.pos(el.Pos()), "entry is not a constant string")
					return
				}
				got[t] = t
				order = append(order, t)
			}
		}
		for _, k := range sortedKeys(want) {
			key := fmt.Sprintf("%s[%q]", varName, k)
			c, ok := got[k]
			switch {
			case !ok:
				r.bad(rule, key, p.pos(init.Pos()), "PEP 440 accepts this spelling; it is missing from the table, so such versions are rejected")
			case pairs && c != want[k]:
				r.bad(rule, key, p.pos(init.Pos()), fmt.Sprintf("PEP 440 normalises %q to %q; the table says %q", k, want[k], c))
			default:
				r.ok(rule, key, p.pos(init.Pos()), "present"+map[bool]string{true: ", canonical form " + c, false: ""}[pairs])
			}
		}
		for _, pr := range properPrefixBefore(order) {
			r.bad(rule+"/PREFIX-ORDER", fmt.Sprintf("%s: %q before %q", varName, pr[0], pr[1]), p.pos(init.Pos()), fmt.Sprintf("the list is matched first-fit and %q is a proper prefix of the later entry %q, which can therefore never match", pr[0], pr[1]))
		}
		if len(properPrefixBefore(order)) == 0 {
			r.ok(rule+"/PREFIX-ORDER", varName, p.pos(init.Pos()), fmt.Sprintf("no entry of %v is a proper prefix of a later one", order))
		}
		r.floor(rule, varName+" entries", len(order), len(want))
	}
	checkSpellings("C02/PEP440-PRE", "pep440PreStrings", map[string]string{"alpha": "a", "a": "a", "beta": "b", "b": "b", "c": "rc", "rc": "rc", "pre": "rc", "preview": "rc"}, true)
	checkSpellings("C02/PEP440-POST", "pep440PostStrings", map[string]string{"post": "post", "rev": "rev", "r": "r"}, false)

	// (e) rank constants and rank()
	order := []string{"pep440Dev", "pep440Alpha", "pep440Beta", "pep440Prerelease", "pep440Empty", "pep440Local", "pep440Post"}
	var prev int64
	for i, n := range order {
		c, ok := pk.Types.Scope().Lookup(n).(*types.Const)
		key := "const semver." + n
		if !ok {
			r.bad("C02/PEP440-RANK", key, "", "rank constant not found: anchor lost")
			continue
		}
		v, _ := constToInt(types.TypeAndValue{Value: c.Val()})
		if i > 0 && !(prev < v) {
			r.bad("C02/PEP440-RANK", key, p.pos(c.Pos()), fmt.Sprintf("PEP 440 orders dev < a < b < rc < final < local < post; %s = %d is not above %s = %d", n, v, order[i-1], prev))
		} else {
			r.ok("C02/PEP440-RANK", key, p.pos(c.Pos()), fmt.Sprintf("= %d, in PEP 440's order", v))
		}
		prev = v
	}
	if fd := funcDecl(pk, "pep440.rank"); fd == nil {
		r.bad("C02/PEP440-RANK", "pep440.rank", "", "function not found: anchor lost")
	} else {
		want := map[string]string{"a": "pep440Alpha", "b": "pep440Beta", "rc": "pep440Prerelease"}
		got := map[string]string{}
		ast.Inspect(fd.Body, func(n ast.Node) bool {
			cc, ok := n.(*ast.CaseClause)
			if !ok || len(cc.List) != 1 || len(cc.Body) != 1 {
				return true
			}
			be, ok := cc.List[0].(*ast.BinaryExpr)
			ret, ok2 := cc.Body[0].(*ast.ReturnStmt)
			if !ok || !ok2 || be.Op != token.EQL || len(ret.Results) != 1 {
				return true
			}
			if s, ok := constString(pk, be.Y); ok {
				if c := usedConst(pk, ret.Results[0]); c != nil {
					got[s] = c.Name()
				}
			}
			return true
		})
		for _, k := range []string{"a", "b", "rc"} {
			key := fmt.Sprintf("pep440.rank case pre == %q", k)
			if got[k] == want[k] {
				r.ok("C02/PEP440-RANK", key, p.pos(fd.Pos()), "returns "+want[k])
			} else {
				r.bad("C02/PEP440-RANK", key, p.pos(fd.Pos()), fmt.Sprintf("canonical prerelease %q must rank as %s; rank() returns %q", k, want[k], got[k]))
			}
		}
	}
}

// ---------------------------------------------------------------- C03 ----

func checkC03(r *Report) {
	p := loadResolve("", false)
	pk := p.pkg("semver")
	tableTrusted(r)
	r.Explain = "C03/RECYCLE-COMPLETE: a function of package semver that builds a fresh bound by overwriting the *Version it was given (MinVersion, the lower bound of every '<V' span) stores, on every path to the return of that argument, each Version field that comparison and span matching read (all but sys): a field left over from the user's bound would make the synthetic bound behave like the user's. A requirement the reference tool accepts is rejected outright if its operator is missing from the per-system operator table or mapped to the wrong token kind, or if the parser has no desugaring for that kind. Decided: TABLE/ORACLE on semver.operators for npm, Cargo, PyPI, RubyGems, Maven and NuGet (operator set ⊇ the ecosystem's, with the kind the desugaring expects: '~>' is tilde for npm and the pessimistic operator for RubyGems, '~=' the compatible-release operator for PyPI); OP-BYTES: every byte of every operator is classified as an operator byte by byteType (hyphen excepted, handled by the grammar); TABLE/EXHAUSTIVE: every token kind that occurs as a value in the table is accepted by constraintParser.value and has a case in opVersionToSpan (the != special case is recognised). This is necessary, not sufficient: span arithmetic and prerelease admission are not decided."
	r.Assume = []string{"operator sets: node-semver README 'Ranges'; Cargo reference 'Specifying dependencies'; PEP 440 'Version specifiers' (=== is outside the property's domain); RubyGems Gem::Requirement::OPS; Maven/NuGet range syntax uses only ',' plus brackets"}
	init := pkgVarInit(pk, "operators")
	cl, ok := init.(*ast.CompositeLit)
	if init == nil || !ok {
		r.bad("C03/OPERATORS", "semver.operators", "", "table not found or not a literal: anchor lost")
		return
	}
	tables := map[string]map[string]string{} // system const name -> op -> tok const name
	for _, el := range cl.Elts {
		kv, ok := el.(*ast.KeyValueExpr)
		if !ok {
			r.bad("C03/OPERATORS", "semver.operators", p.pos(el.Pos()), "entries are no longer keyed by System constant")
			return
		}
		sys := usedConst(pk, kv.Key)
		m, _, ok2 := mapLitByStringKey(pk, kv.Value)
		if sys == nil || !ok2 {
			r.bad("C03/OPERATORS", "semver.operators", p.pos(el.Pos()), "entry is not System: {op: tok, ...} with constant keys")
			return
		}
		t := map[string]string{}
		for op, e := range m {
			if c := usedConst(pk, e); c != nil {
				t[op] = c.Name()
			}
		}
		tables[sys.Name()] = t
	}
	norm := map[string]map[string]string{
		"NPM":      {"=": "tokEqual", ">": "tokGreater", ">=": "tokGreaterEqual", "<": "tokLess", "<=": "tokLessEqual", "^": "tokCaret", "~": "tokTilde", "~>": "tokTilde", "||": "tokOr", "-": "tokHyphen"},
		"Cargo":    {"=": "tokEqual", ">": "tokGreater", ">=": "tokGreaterEqual", "<": "tokLess", "<=": "tokLessEqual", "^": "tokCaret", "~": "tokTilde", ",": "tokComma"},
		"PyPI":     {"==": "tokEqual", "!=": "tokNotEqual", "<=": "tokLessEqual", ">=": "tokGreaterEqual", "<": "tokLess", ">": "tokGreater", "~=": "tokBacon", ",": "tokComma"},
		"RubyGems": {"=": "tokEqual", "!=": "tokNotEqual", ">": "tokGreater", ">=": "tokGreaterEqual", "<": "tokLess", "<=": "tokLessEqual", "~>": "tokBacon", ",": "tokComma"},
		"Maven":    {",": "tokComma"},
		"NuGet":    {",": "tokComma"},
	}
	n := 0
	for _, sys := range sortedKeys(norm) {
		for _, op := range sortedKeys(norm[sys]) {
			n++
			key := fmt.Sprintf("operators[%s][%q]", sys, op)
			got, ok := tables[sys][op]
			switch {
			case tables[sys] == nil:
				r.bad("C03/OPERATORS", key, p.pos(init.Pos()), "the system has no row in the operator table")
			case !ok:
				r.bad("C03/OPERATORS", key, p.pos(init.Pos()), "the ecosystem's operator is missing: requirements using it are rejected")
			case got != norm[sys][op]:
				r.bad("C03/OPERATORS", key, p.pos(init.Pos()), fmt.Sprintf("operator is mapped to %s; the desugaring for this ecosystem needs %s", got, norm[sys][op]))
			default:
				r.ok("C03/OPERATORS", key, p.pos(init.Pos()), got)
			}
		}
	}
	r.floor("C03/OPERATORS", "normative (system, operator) pairs", n, 36)

	// OP-BYTES
	bt := pkgVarInit(pk, "byteType")
	btl, ok := bt.(*ast.CompositeLit)
	tOP, okc := pk.Types.Scope().Lookup("tOP").(*types.Const)
	if bt == nil || !ok || !okc {
		r.bad("C03/OP-BYTES", "semver.byteType", "", "table or tOP not found: anchor lost")
	} else {
		classes := make([]int64, len(btl.Elts))
		for i, e := range btl.Elts {
			classes[i], _ = constInt64(pk, e)
		}
		top, _ := constToInt(types.TypeAndValue{Value: tOP.Val()})
		seen := map[byte]bool{}
		for _, t := range tables {
			for op := range t {
				for i := 0; i < len(op); i++ {
					seen[op[i]] = true
				}
			}
		}
		var bs []int
		for b := range seen {
			bs = append(bs, int(b))
		}
		sort.Ints(bs)
		for _, b := range bs {
			key := fmt.Sprintf("byteType[%q]", rune(b))
			switch {
			case b == '-':
				r.ok("C03/OP-BYTES", key, p.pos(bt.Pos()), "hyphen is a version byte by design; the grammar requires the operator to be bound by spaces")
			case b >= len(classes):
				r.bad("C03/OP-BYTES", key, p.pos(bt.Pos()), "operator byte outside the byte classification table")
			case classes[b] != top:
				r.bad("C03/OP-BYTES", key, p.pos(bt.Pos()), "a byte used in an operator is not classified as an operator byte: the tokenizer can never produce that operator")
			default:
				r.ok("C03/OP-BYTES", key, p.pos(bt.Pos()), "classified tOP")
			}
		}
		r.floor("C03/OP-BYTES", "distinct operator bytes", len(bs), 9)
		if len(classes) != 128 {
			r.bad("C03/OP-BYTES", "len(byteType)", p.pos(bt.Pos()), fmt.Sprintf("byteType has %d entries; typeOf indexes it with every rune below 0x7F", len(classes)))
		}
	}

	// SEP-BYTES
	nSB := sepBytesRule(r, p, "C03/SEP-BYTES")
	r.floor("C03/SEP-BYTES", "bytes interpreted through System.typeOf (pep440 separators, Maven printable bytes)", nSB, 90)

	prefilterFoldsRule(r, p, "C03/PREFILTER-FOLDS")

	// EXHAUSTIVE: token kinds used as values vs parser cases
	unary := map[string]bool{}
	for _, t := range tables {
		for _, tok := range t {
			switch tok {
			case "tokComma", "tokOr", "tokHyphen":
			default:
				unary[tok] = true
			}
		}
	}
	valueCases := map[string]bool{}
	if fd := funcDecl(pk, "constraintParser.value"); fd != nil {
		ast.Inspect(fd.Body, func(n ast.Node) bool {
			if cc, ok := n.(*ast.CaseClause); ok {
				for _, e := range cc.List {
					if c := usedConst(pk, e); c != nil {
						valueCases[c.Name()] = true
					}
				}
			}
			return true
		})
	}
	spanCases := map[string]bool{}
	if fd := funcDecl(pk, "opVersionToSpan"); fd != nil {
		ast.Inspect(fd.Body, func(n ast.Node) bool {
			if cc, ok := n.(*ast.CaseClause); ok {
				for _, e := range cc.List {
					if c := usedConst(pk, e); c != nil {
						spanCases[c.Name()] = true
					}
				}
			}
			return true
		})
	}
	// the != special case: value() compares the operator text with "!="
	neSpecial := false
	if fd := funcDecl(pk, "constraintParser.value"); fd != nil {
		ast.Inspect(fd.Body, func(n ast.Node) bool {
			if be, ok := n.(*ast.BinaryExpr); ok && be.Op == token.EQL {
				if s, ok := constString(pk, be.Y); ok && s == "!=" {
					neSpecial = true
				}
			}
			return true
		})
	}
	for _, tok := range sortedKeys(unary) {
		key := "token kind " + tok
		switch {
		case !valueCases[tok]:
			r.bad("C03/EXHAUSTIVE", key, "", "the operator table produces this kind but constraintParser.value has no case accepting it: the requirement is rejected")
		case !spanCases[tok] && !(tok == "tokNotEqual" && neSpecial):
			r.bad("C03/EXHAUSTIVE", key, "", "the operator table produces this kind but opVersionToSpan has no case for it")
		default:
			r.ok("C03/EXHAUSTIVE", key, "", "accepted by constraintParser.value and desugared by opVersionToSpan (or the != special case)")
		}
	}
	r.floor("C03/EXHAUSTIVE", "unary operator token kinds in the table", len(unary), 9)
	recycleCompleteRule(r, loadResolve("", true), "C03/RECYCLE-COMPLETE")
	unitOpenRule(r, loadResolve("", true), "C03/UNIT-OPEN")
	nCC := compareAfterCompleteRule(r, loadResolve("", true), "C03/COMPARE-AFTER-COMPLETE")
	nZT := zeroBoundTagsRule(r, loadResolve("", true), "C03/ZERO-BOUND-TAGS")
	r.floor("C03/ZERO-BOUND-TAGS", "all-zero tests of a bound in package semver", nZT, 1)
	nMB := markersBothRule(r, loadResolve("", true), "C03/MARKERS-BOTH")
	r.floor("C03/MARKERS-BOTH", "functions of package semver that compare one number with both markers", nMB, 1)
	r.floor("C03/COMPARE-AFTER-COMPLETE", "completions (fill/setTail) of bounds in package semver", nCC, 4)
}

// ---------------------------------------------------------------- C16 ----

func checkC16(r *Report) {
	p := loadResolve("", false)
	pk := p.pkg("resolve/pypi")
	tableTrusted(r)
	r.Explain = "Marker parsing and evaluation follow PEP 508 only if the finite tables they consult are right. Decided: VAR-SET (the environment variable table ⊇ PEP 508's variable list and each platform variable is bound to the variable of the same name), PREFIX-FREE (the table is a Go map tried in unspecified order, so no variable name may be a prefix of another), FIRST-BYTE (the first-byte filter of parseMarkerVar admits the first byte of every variable), OPS (markerOpsByLength contains every operator with a fixed spelling exactly once and no earlier spelling is a proper prefix of a later one), EVAL-EXHAUSTIVE (the switch in markerExpr.Eval names every operator except two reviewed ones), OP-DOMAIN (every marker operator that parseMarkerExpr forwards to semver.PyPI.ParseConstraint when both operands look like versions is an operator of semver's PyPI table; a string operator such as 'in' forwarded there makes the marker, and with it the whole resolution, fail), PLATFORM-DEFINED (every constant passed to platformVar is a key of the generated environment internal.Markers, so package initialisation cannot panic). Not decided: agreement of the splitter and evaluator with pip's packaging on all strings."
	r.Assume = []string{"PEP 508 'Environment Markers' variable list and version_cmp/marker_op operator list"}
	init := pkgVarInit(pk, "environmentVariables")
	m, order, ok := mapLitByStringKey(pk, init)
	if init == nil || !ok {
		r.bad("C16/VAR-SET", "pypi.environmentVariables", "", "table not found or keys are not constant strings: anchor lost")
		return
	}
	pep508 := []string{"os_name", "sys_platform", "platform_machine", "platform_python_implementation", "platform_release", "platform_system", "platform_version", "python_version", "python_full_version", "implementation_name", "implementation_version", "extra"}
	for _, v := range pep508 {
		key := fmt.Sprintf("environmentVariables[%q]", v)
		e, ok := m[v]
		if !ok {
			r.bad("C16/VAR-SET", key, p.pos(init.Pos()), "PEP 508 defines this marker variable; it is missing, so valid markers are rejected")
			continue
		}
		if call, ok := e.(*ast.CallExpr); ok && len(call.Args) == 1 {
			if arg, ok := constString(pk, call.Args[0]); ok && arg != v {
				r.bad("C16/VAR-SET", key, p.pos(e.Pos()), fmt.Sprintf("the variable is bound to the value of %q", arg))
				continue
			}
		}
		r.ok("C16/VAR-SET", key, p.pos(e.Pos()), "present and bound to the variable of the same name")
	}
	r.floor("C16/VAR-SET", "PEP 508 variables", len(pep508), 12)
	// PREFIX-FREE
	bad := 0
	for _, a := range order {
		for _, b := range order {
			if a != b && strings.HasPrefix(b, a) {
				bad++
				r.bad("C16/PREFIX-FREE", fmt.Sprintf("environmentVariables: %q prefixes %q", a, b), p.pos(m[a].Pos()), "variable names are tried in Go map order; when the shorter one is tried first the longer one is mis-parsed, nondeterministically")
			}
		}
	}
	if bad == 0 {
		r.ok("C16/PREFIX-FREE", "environmentVariables", p.pos(init.Pos()), fmt.Sprintf("none of the %d names is a prefix of another", len(order)))
	}
	// FIRST-BYTE
	if fd := funcDecl(pk, "envParser.parseMarkerVar"); fd == nil {
		r.bad("C16/FIRST-BYTE", "envParser.parseMarkerVar", "", "function not found: anchor lost")
	} else {
		admitted := map[byte]bool{}
		found := false
		ast.Inspect(fd.Body, func(n ast.Node) bool {
			sw, ok := n.(*ast.SwitchStmt)
			if !ok {
				return true
			}
			for _, st := range sw.Body.List {
				cc := st.(*ast.CaseClause)
				for _, e := range cc.List {
					if v, ok := constInt64(pk, e); ok && v < 256 {
						admitted[byte(v)] = true
						found = true
					}
				}
			}
			return true
		})
		if !found {
			r.ok("C16/FIRST-BYTE", "envParser.parseMarkerVar", p.pos(fd.Pos()), "no first-byte filter present: every variable is tried")
		} else {
			for _, v := range order {
				key := fmt.Sprintf("parseMarkerVar first byte of %q", v)
				if admitted[v[0]] {
					r.ok("C16/FIRST-BYTE", key, p.pos(fd.Pos()), fmt.Sprintf("%q admitted by the filter", v[0]))
				} else {
					r.bad("C16/FIRST-BYTE", key, p.pos(fd.Pos()), fmt.Sprintf("the first-byte filter rejects %q, so this variable can never be parsed", v[0]))
				}
			}
		}
	}
	// OPS: spellings come from the line comments of the constants (stringer -linecomment)
	spell := map[string]string{}
	var opConsts []*types.Const
	for _, f := range pk.Syntax {
		for _, d := range f.Decls {
			gd, ok := d.(*ast.GenDecl)
			if !ok || gd.Tok != token.CONST {
				continue
			}
			for _, s := range gd.Specs {
				vs := s.(*ast.ValueSpec)
				for _, n := range vs.Names {
					c, ok := pk.TypesInfo.Defs[n].(*types.Const)
					if !ok || !strings.HasSuffix(c.Type().String(), "pypi.markerOp") {
						continue
					}
					opConsts = append(opConsts, c)
					if vs.Comment != nil {
						spell[c.Name()] = strings.TrimSpace(vs.Comment.Text())
					}
				}
			}
		}
	}
	if len(opConsts) < 10 {
		r.bad("C16/OPS", "pypi.markerOp constants", "", fmt.Sprintf("only %d markerOp constants found (syntax loaded without comments?)", len(opConsts)))
	} else if li := pkgVarInit(pk, "markerOpsByLength"); li == nil {
		r.bad("C16/OPS", "pypi.markerOpsByLength", "", "table not found: anchor lost")
	} else {
		cl := li.(*ast.CompositeLit)
		count := map[string]int{}
		var sp []string
		for _, e := range cl.Elts {
			if c := usedConst(pk, e); c != nil {
				count[c.Name()]++
				sp = append(sp, spell[c.Name()])
			}
		}
		for _, c := range opConsts {
			key := "markerOpsByLength contains " + c.Name()
			s := spell[c.Name()]
			switch {
			case c.Name() == "markerOpUnknown":
			case strings.Contains(s, " "):
				r.ok("C16/OPS", key, p.pos(li.Pos()), fmt.Sprintf("%q has two words and is parsed separately", s))
			case s == "":
				r.bad("C16/OPS", key, p.pos(c.Pos()), "operator constant has no spelling comment")
			case count[c.Name()] != 1:
				r.bad("C16/OPS", key, p.pos(li.Pos()), fmt.Sprintf("operator %q occurs %d times in the list tried by parseMarkerOp; PEP 508 markers using it are rejected or ambiguous", s, count[c.Name()]))
			default:
				r.ok("C16/OPS", key, p.pos(li.Pos()), fmt.Sprintf("spelled %q, listed once", s))
			}
		}
		pp := properPrefixBefore(sp)
		for _, pr := range pp {
			r.bad("C16/OPS", fmt.Sprintf("markerOpsByLength: %q before %q", pr[0], pr[1]), p.pos(li.Pos()), fmt.Sprintf("operators are matched first-fit and %q is a proper prefix of the later %q, which can never match", pr[0], pr[1]))
		}
		if len(pp) == 0 {
			r.ok("C16/OPS", "markerOpsByLength order", p.pos(li.Pos()), fmt.Sprintf("no spelling in %q is a proper prefix of a later one", sp))
		}
		// PEP 508 operator list
		have := map[string]bool{}
		for _, s := range spell {
			have[s] = true
		}
		for _, s := range []string{"<=", "<", "!=", "==", ">=", ">", "~=", "===", "in", "not in"} {
			if have[s] {
				r.ok("C16/OPS", fmt.Sprintf("PEP 508 operator %q", s), "", "has a markerOp constant")
			} else {
				r.bad("C16/OPS", fmt.Sprintf("PEP 508 operator %q", s), "", "PEP 508 defines this operator; no markerOp constant is spelled that way")
			}
		}
	}
	// EVAL-EXHAUSTIVE
	if fd := funcDecl(pk, "markerExpr.Eval"); fd == nil {
		r.bad("C16/EVAL-EXHAUSTIVE", "markerExpr.Eval", "", "function not found: anchor lost")
	} else {
		sw := findSwitch(fd.Body, func(sw *ast.SwitchStmt) bool {
			if sw.Tag == nil {
				return false
			}
			tv, ok := pk.TypesInfo.Types[sw.Tag]
			return ok && strings.HasSuffix(tv.Type.String(), "pypi.markerOp")
		})
		if sw == nil {
			r.bad("C16/EVAL-EXHAUSTIVE", "markerExpr.Eval switch", p.pos(fd.Pos()), "no switch over the operator found: anchor lost")
		} else {
			named := map[string]bool{}
			for _, c := range caseConsts(pk, sw) {
				named[c.Name()] = true
			}
			reviewed := map[string]string{
				"markerOpUnknown":    "never produced by a successful parse",
				"markerOpTildeEqual": "parseMarkerExpr rejects ~= unless both sides are versions, and then a constraint is built and evaluated before the switch",
			}
			for _, c := range opConsts {
				key := "Eval case " + c.Name()
				if named[c.Name()] {
					r.ok("C16/EVAL-EXHAUSTIVE", key, p.pos(sw.Pos()), "named by a case")
				} else if why, ok := reviewed[c.Name()]; ok {
					if c.Name() == "markerOpTildeEqual" {
						// re-check the reviewed reason: a failed constraint build must be an error of parseMarkerExpr
						ps := loadResolve("", true)
						if pf := ps.lookupFn("(*resolve/pypi.envParser).parseMarkerExpr"); pf == nil {
							r.bad("C16/EVAL-EXHAUSTIVE", key, p.pos(sw.Pos()), "parseMarkerExpr not found: the reviewed reason cannot be re-checked")
							continue
						} else if found, prop, pos := errPropagated(pf, "semver.System).ParseConstraint"); !found || !prop {
							r.bad("C16/EVAL-EXHAUSTIVE", key, ps.pos(pos), "the evaluator has no case for ~= because a version constraint is always built for it; but parseMarkerExpr no longer returns the error of ParseConstraint, so an expression with ~= and no constraint can reach the evaluator's panic")
							continue
						}
					}
					r.ok("C16/EVAL-EXHAUSTIVE", key, p.pos(sw.Pos()), "reviewed exception: "+why)
				} else {
					r.bad("C16/EVAL-EXHAUSTIVE", key, p.pos(sw.Pos()), "the evaluator's switch has no case for this operator: evaluating such a marker panics")
				}
			}
		}
	}
	// OP-DOMAIN: operators forwarded to the version-constraint parser
	markerOpDomainRule(r, p, pk, opConsts, spell)
	markerEvaluatedRule(r, loadResolve("", true), "C16/MARKER-EVALUATED")
	stringerCurrentRule(r, p, "C16/STRINGER-CURRENT", "resolve/pypi", "markerOp")
	// PLATFORM-DEFINED
	ipk := p.pkg("resolve/pypi/internal")
	if ipk == nil {
		r.bad("C16/PLATFORM-DEFINED", "internal.Markers", "", "package resolve/pypi/internal not loaded")
		return
	}
	mk, _, ok := mapLitByStringKey(ipk, pkgVarInit(ipk, "Markers"))
	if !ok {
		r.bad("C16/PLATFORM-DEFINED", "internal.Markers", "", "generated environment table not found or not a literal")
		return
	}
	n := 0
	for _, f := range pk.Syntax {
		ast.Inspect(f, func(nd ast.Node) bool {
			call, ok := nd.(*ast.CallExpr)
			if !ok || len(call.Args) != 1 {
				return true
			}
			id, ok := call.Fun.(*ast.Ident)
			if !ok || id.Name != "platformVar" {
				return true
			}
			if fn, ok := pk.TypesInfo.Uses[id].(*types.Func); !ok || fn.Pkg() != pk.Types {
				return true
			}
			arg, ok := constString(pk, call.Args[0])
			if !ok {
				return true
			}
			n++
			key := fmt.Sprintf("platformVar(%q)", arg)
			if _, ok := mk[arg]; ok {
				r.ok("C16/PLATFORM-DEFINED", key, p.pos(call.Pos()), "defined in internal.Markers")
			} else {
				r.bad("C16/PLATFORM-DEFINED", key, p.pos(call.Pos()), "the generated target environment does not define this variable: package initialisation panics")
			}
			return true
		})
	}
	r.floor("C16/PLATFORM-DEFINED", "constant platformVar calls", n, 11)
}

// ---------------------------------------------------------------- C19 ----

func checkC19(r *Report) {
	p := loadResolve("", true)
	e := runEffect(p)
	tableTrusted(r)
	cmpTrusted(r)
	effectTrusted(r)
	r.Explain = "Structural clauses of 'attribute sets are values with a faithful text form'. C19.a CLONE-COMPLETE: attr.Set.Clone, dep.Type.Clone and version.AttrSet.Clone set every field of their result, and no map/slice/pointer field is copied by reference (it must come from make or a nested Clone). C19.b COVER: attr.Set.Compare reads Mask, attrBits and attrs of both operands, and the dep/version wrappers delegate to it. C19.c WRITERS: the attrs map is written only by SetAttr and Clone, and SetAttr updates attrBits from the same key on every path after the map update. C19.d FRESH-SET: every call of SetAttr/AddAttr in scope acts on a set that is not client- or cache-owned memory (zero value, constructor, Clone, or the mutator's own receiver). C19.g MAP-ORDER / SIGN-SYMMETRIC: the three-way comparators of attr.Set, dep.Type and version.AttrSet never iterate over a map (the sign would follow Go's randomised iteration order) and return mirrored constants. C19.f QUOTE-AGREE: versiontest.String and versiontest.ParseString (documented as inverse) agree on quoting — the parser unquotes exactly when the writer quotes. C19.e KEY-TABLES: the key lists of the text parsers (deptest/versiontest allKeys) enumerate every declared AttrKey constant, flagKeys ⊇ the mask keys, lower-cased key names are pairwise distinct, mask keys are distinct single bits below 1<<maskLen, value keys are distinct and below 64 (SetAttr panics above), and dep.Type.String mentions every mask key. Not decided: quoting of values with spaces in the text form; the order laws over all triples."
	// a. CLONE-COMPLETE
	for _, name := range []string{"(resolve/internal/attr.Set).Clone", "(*resolve/dep.Type).Clone", "(resolve/version.AttrSet).Clone"} {
		f := p.lookupFn(name)
		if f == nil {
			r.bad("C19.a/CLONE-COMPLETE", name, "", "Clone method not found: anchor lost")
			continue
		}
		cloneCompleteRule(r, p, "C19.a/CLONE-COMPLETE", f)
	}
	// b. COVER
	seen := map[*ssa.Function]bool{}
	for _, name := range []string{"(resolve/internal/attr.Set).Compare", "(resolve/dep.Type).Compare", "(resolve/dep.Type).Equal", "(resolve/version.AttrSet).Equal"} {
		f := p.lookupFn(name)
		if f == nil {
			r.bad("C19.b/COVER", name, "", "comparator not found: anchor lost")
			continue
		}
		st, tn := structOf(f.Params[0].Type())
		coverRule(r, p, "C19.b/COVER", f, st, tn, paramOps(f, 0, 1), seen)
	}
	// c. WRITERS
	var attrsField, bitsField *types.Var
	if tn, ok := p.pkg("resolve/internal/attr").Types.Scope().Lookup("Set").(*types.TypeName); ok {
		st := tn.Type().Underlying().(*types.Struct)
		for i := 0; i < st.NumFields(); i++ {
			switch st.Field(i).Name() {
			case "attrs":
				attrsField = st.Field(i)
			case "attrBits":
				bitsField = st.Field(i)
			}
		}
	}
	if attrsField == nil || bitsField == nil {
		r.bad("C19.c/WRITERS", "attr.Set fields", "", "fields attrs/attrBits not found: anchor lost")
	} else {
		n := 0
		allowed := nameSet("(*resolve/internal/attr.Set).SetAttr", "(resolve/internal/attr.Set).Clone")
		for _, s := range e.allSites {
			if s.field != attrsField {
				continue
			}
			n++
			key := fnKey(s.fn) + ": " + s.desc
			if allowed[fnKey(s.fn)] {
				r.ok("C19.c/WRITERS", key, p.pos(s.pos), "owned writer of the attribute map")
			} else {
				r.bad("C19.c/WRITERS", key, p.pos(s.pos), "the attribute map is written outside SetAttr and Clone: the key bitmask (and with it Compare/ForEachAttr) can fall out of step")
			}
		}
		r.floor("C19.c/WRITERS", "write sites on attr.Set.attrs", n, 2)
		if f := p.lookupFn("(*resolve/internal/attr.Set).SetAttr"); f != nil {
			okAll := false
			for _, b := range f.Blocks {
				for i, in := range b.Instrs {
					mu, ok := in.(*ssa.MapUpdate)
					if !ok || nearestField(mu.Map) != attrsField {
						continue
					}
					isBitsStore := func(x ssa.Instruction) bool {
						st, ok := x.(*ssa.Store)
						if !ok {
							return false
						}
						fv, _ := fieldOfAddr(st.Addr)
						if fv != bitsField {
							return false
						}
						// the stored value must derive from the same key parameter
						return condDerives(st.Val, 0, func(v ssa.Value) bool {
							if c, ok := v.(*ssa.Convert); ok {
								v = c.X
							}
							return v == mu.Key || v == ssa.Value(f.Params[1])
						})
					}
					if path := mustPassFrom(b, i, map[*ssa.BasicBlock]bool{}, isBitsStore, false); path == nil {
						okAll = true
					} else {
						r.bad("C19.c/WRITERS", fnKey(f)+": attrBits follows attrs", p.pos(mu.Pos()), "a path from the map update to the return does not update attrBits with the same key: Compare and ForEachAttr would not see the attribute")
						okAll = false
					}
				}
			}
			if okAll {
				r.ok("C19.c/WRITERS", fnKey(f)+": attrBits follows attrs", p.pos(f.Pos()), "every path after the map update stores attrBits computed from the same key")
			}
		}
	}
	// d. FRESH-SET
	n := 0
	for _, ac := range e.attrCalls {
		if !isAttrMutator(ac.callee) {
			continue
		}
		n++
		key := fmt.Sprintf("%s: %s", fnKey(ac.fn), short(fullName(ac.callee)))
		o := ac.recv.all()
		switch {
		case o.p&bitSRC != 0:
			r.bad("C19.d/FRESH-SET", key, p.pos(ac.pos), "an attribute set obtained from a resolve.Client is mutated in place (it shares its map with the client's copy): clone it first")
		case o.p&bitCACHE != 0:
			r.bad("C19.d/FRESH-SET", key, p.pos(ac.pos), "an attribute set held by a cache is mutated in place")
		default:
			r.ok("C19.d/FRESH-SET", key, p.pos(ac.pos), "the set is fresh (zero value, constructor or Clone) or the mutator's own receiver")
		}
	}
	r.floor("C19.d/FRESH-SET", "call sites of SetAttr/AddAttr in scope", n, 20)
	byValueAttrMutation(r, p, e, "C19.d/FRESH-SET", attrsField, func(*ssa.Function) bool { return true })
	// e. KEY-TABLES
	keyTablesRule(r, p, "resolve/dep", "resolve/internal/deptest", true)
	keyTablesRule(r, p, "resolve/version", "resolve/internal/versiontest", false)
	// e'. the key names the parsers' dictionaries are built from (AttrKey.String) cover every key
	stringerCurrentRule(r, p, "C19.e/STRINGER-CURRENT", "resolve/dep", "AttrKey")
	stringerCurrentRule(r, p, "C19.e/STRINGER-CURRENT", "resolve/version", "AttrKey")
	// f. QUOTE-AGREE
	quoteAgreeRule(r, p, "C19.f/QUOTE-AGREE", "resolve/internal/versiontest.String", "resolve/internal/versiontest.ParseString")
	// i. VALUE-WRITTEN
	valueWrittenRule(r, p, "C19.i/VALUE-WRITTEN", "resolve/internal/versiontest.String")
	// g. comparators of attribute sets: deterministic and mirrored
	cfs := threeWayFns(p, "resolve/internal/attr", "resolve/dep", "resolve/version")
	noWideSubtractRule(r, p, "C19.g/NO-WIDE-SUBTRACT", cfs)
	nM := mapOrderRule(r, p, "C19.g/MAP-ORDER", cfs)
	signSymmetryRule(r, p, "C19.g/SIGN-SYMMETRIC", cfs)
	loopReturnRule(r, p, "C19.g/LOOP-NONZERO", cfs)
	quoteCharsRule(r, p, "C19.f/QUOTE-CHARS", "resolve/internal/versiontest")
	nCut := cutsetValidRule(r, loadResolve("", true), "C19.f/CUTSET-UTF8", "resolve/internal/versiontest", "resolve/internal/deptest", "resolve/schema", "resolve/dep", "resolve/version", "resolve", "resolve/maven", "resolve/npm", "resolve/pypi", "semver", "pypi", "maven")
	r.floor("C19.f/CUTSET-UTF8", "constant cutsets of strings.Trim*/IndexAny/ContainsAny in the parsers (the schema tokenizers have none today; the floor is held by the other parsers)", nCut, 5)
	nEq := equalConjunctiveRule(r, loadResolve("", true), "C19.g/EQUAL-CONJUNCTIVE", "resolve", "resolve/dep", "resolve/version", "resolve/internal/attr")
	r.floor("C19.g/EQUAL-CONJUNCTIVE", "Equal methods over versions, dependency types and attribute sets", nEq, 3)
	r.floor("C19.g/MAP-ORDER", "three-way comparators of attr, dep and version", nM, 2)
	// h. LOOP-SINGLE-STEP: the schema parsers look at every token. A nested
	// loop that advances the outer loop's counter past the token it consumed
	// and then breaks lets the outer post statement skip the next token.
	hPkgs := []string{"resolve/internal/deptest", "resolve/internal/versiontest", "resolve/internal/attr", "resolve/dep", "resolve/version"}
	nLoops := 0
	ord := map[string]int{}
	for _, l := range countedLoops(p, hPkgs...) {
		nLoops++
		fn := p.enclosingFuncName(l.outer)
		ord[fn]++
		key := fmt.Sprintf("loop:%s#%d", fn, ord[fn])
		if l.bad.IsValid() {
			r.bad("C19.h/LOOP-SINGLE-STEP", key, p.pos(l.bad), "the inner loop increments the enclosing loop's counter and then breaks; the enclosing post statement increments it again, so the token after the one consumed here is never parsed")
		} else {
			r.ok("C19.h/LOOP-SINGLE-STEP", key, p.pos(l.outer), "no nested loop advances the counter and breaks ahead of the post statement")
		}
	}
	r.floor("C19.h/LOOP-SINGLE-STEP", "counted loops examined", nLoops, 3)
}

// quoteAgreeRule: a writer and the parser documented as its inverse agree on
// whether values are quoted: the parser unquotes (strconv.Unquote*) exactly
// when the writer quotes (strconv.Quote*, or a %q verb). If only one side does,
// a value that is itself a quoted literal does not survive the round trip.
func quoteAgreeRule(r *Report, p *Prog, rule, writer, reader string) {
	wf, rf := p.lookupFn(writer), p.lookupFn(reader)
	if wf == nil || rf == nil {
		r.bad(rule, writer+" / "+reader, "", "writer or parser not found: anchor lost")
		return
	}
	// calls made by f and by the in-scope functions it calls statically (depth 3)
	uses := func(f *ssa.Function, pred func(ssa.CallInstruction) bool) (bool, int) {
		seen := map[*ssa.Function]bool{}
		n := 0
		var walk func(g *ssa.Function, d int) bool
		walk = func(g *ssa.Function, d int) bool {
			if seen[g] || d > 3 {
				return false
			}
			seen[g] = true
			hit := false
			for _, b := range g.Blocks {
				for _, in := range b.Instrs {
					c, ok := in.(ssa.CallInstruction)
					if !ok {
						continue
					}
					n++
					if pred(c) {
						hit = true
					}
					if sc := c.Common().StaticCallee(); sc != nil && p.inScope(sc) && sc.Pkg == g.Pkg && walk(sc, d+1) {
						hit = true
					}
				}
			}
			for _, an := range g.AnonFuncs {
				if walk(an, d+1) {
					hit = true
				}
			}
			return hit
		}
		return walk(f, 0), n
	}
	isStrconv := func(prefix string) func(ssa.CallInstruction) bool {
		return func(c ssa.CallInstruction) bool {
			sc := c.Common().StaticCallee()
			if sc != nil && sc.Pkg != nil && sc.Pkg.Pkg.Path() == "strconv" && strings.HasPrefix(sc.Name(), prefix) {
				return true
			}
			if prefix == "Quote" && sc != nil && sc.Pkg != nil && sc.Pkg.Pkg.Path() == "fmt" && len(c.Common().Args) > 0 {
				for _, a := range c.Common().Args {
					if k, ok := a.(*ssa.Const); ok && k.Value != nil && k.Value.Kind() == constant.String && strings.Contains(constant.StringVal(k.Value), "%q") {
						return true
					}
				}
			}
			return false
		}
	}
	quotes, nw := uses(wf, isStrconv("Quote"))
	unquotes, nr := uses(rf, isStrconv("Unquote"))
	// does the parser cut its input at white space with no regard for quotes?
	splits, _ := uses(rf, func(c ssa.CallInstruction) bool {
		sc := c.Common().StaticCallee()
		return sc != nil && sc.Pkg != nil && sc.Pkg.Pkg.Path() == "strings" && (sc.Name() == "Fields" || sc.Name() == "Split" || sc.Name() == "SplitN" || sc.Name() == "FieldsFunc")
	})
	key := fnKey(wf) + " / " + fnKey(rf) + ": quoting"
	if !quotes && !unquotes && splits {
		r.bad(rule, key, p.pos(rf.Pos()), "neither side quotes, and the parser cuts its input into fields at separators: a value that contains white space is written verbatim and read back as a value followed by unknown keys, so write-then-parse fails or gives an unequal set")
	} else if quotes == unquotes {
		how := "neither side quotes: values are written and read verbatim"
		if quotes {
			how = "the writer quotes and the parser unquotes"
		}
		r.ok(rule, key, p.pos(rf.Pos()), fmt.Sprintf("%s (%d + %d calls inspected)", how, nw, nr))
	} else if unquotes {
		r.bad(rule, key, p.pos(rf.Pos()), "the parser unquotes values but the writer documented as its inverse writes them verbatim: a value that is itself a quoted literal is read back without its quotes, so write-then-parse gives an unequal set")
	} else {
		r.bad(rule, key, p.pos(wf.Pos()), "the writer quotes values but the parser documented as its inverse reads them verbatim: every value comes back with quotes added")
	}
	r.floor(rule, "calls inspected in the writer and the parser", nw+nr, 6)
	// A value is unquoted once: no Unquote call of the parser (or of a helper
	// it calls) takes text that already came out of an Unquote call or of a
	// helper that unquotes.
	unq := isStrconv("Unquote")
	unquoting := func(f *ssa.Function) bool { h, _ := uses(f, unq); return h }
	var derivesUnquoted func(v ssa.Value, d int, seen map[ssa.Value]bool) bool
	derivesUnquoted = func(v ssa.Value, d int, seen map[ssa.Value]bool) bool {
		if d > 10 || seen[v] {
			return false
		}
		seen[v] = true
		switch x := v.(type) {
		case *ssa.Call:
			if unq(x) {
				return true
			}
			if sc := x.Common().StaticCallee(); sc != nil {
				if p.inScope(sc) && sc.Pkg == rf.Pkg {
					return unquoting(sc)
				}
				if sc.Pkg != nil && sc.Pkg.Pkg.Path() == "strings" {
					for _, a := range x.Common().Args {
						if derivesUnquoted(a, d+1, seen) {
							return true
						}
					}
				}
			}
		case *ssa.Extract:
			return derivesUnquoted(x.Tuple, d+1, seen)
		case *ssa.Phi:
			for _, e := range x.Edges {
				if derivesUnquoted(e, d+1, seen) {
					return true
				}
			}
		case *ssa.UnOp:
			return derivesUnquoted(x.X, d+1, seen)
		case *ssa.IndexAddr:
			return derivesUnquoted(x.X, d+1, seen)
		case *ssa.Slice:
			return derivesUnquoted(x.X, d+1, seen)
		case *ssa.Lookup:
			return derivesUnquoted(x.X, d+1, seen)
		case *ssa.Alloc:
			for _, ref := range *x.Referrers() {
				if st, ok := ref.(*ssa.Store); ok && st.Addr == x && derivesUnquoted(st.Val, d+1, seen) {
					return true
				}
			}
		}
		return false
	}
	nU := 0
	fseen := map[*ssa.Function]bool{}
	var scan func(g *ssa.Function, d int)
	scan = func(g *ssa.Function, d int) {
		if fseen[g] || d > 3 {
			return
		}
		fseen[g] = true
		for _, b := range g.Blocks {
			for _, in := range b.Instrs {
				c, ok := in.(*ssa.Call)
				if !ok {
					continue
				}
				if unq(c) && len(c.Common().Args) > 0 {
					nU++
					k := fmt.Sprintf("%s: Unquote #%d takes text not yet unquoted", fnKey(rf), nU)
					if derivesUnquoted(c.Common().Args[0], 0, map[ssa.Value]bool{}) {
						r.bad(rule, k, p.pos(c.Pos()), "this Unquote call takes text that an earlier Unquote (or a helper that unquotes) produced: a value that is itself a quoted literal loses its quotes on the way back")
					} else {
						r.ok(rule, k, p.pos(c.Pos()), "operand does not derive from unquoted text")
					}
				}
				if sc := c.Common().StaticCallee(); sc != nil && p.inScope(sc) && sc.Pkg == g.Pkg {
					scan(sc, d+1)
				}
			}
		}
	}
	scan(rf, 0)
}

func keyTablesRule(r *Report, p *Prog, keyPkg, testPkg string, checkString bool) {
	rule := "C19.e/KEY-TABLES"
	kp, tp := p.pkg(keyPkg), p.pkg(testPkg)
	consts := constsOfType(kp, "AttrKey")
	if len(consts) < 10 {
		r.bad(rule, keyPkg+".AttrKey constants", "", fmt.Sprintf("only %d constants found: anchor lost", len(consts)))
		return
	}
	maskLen, _ := kp.Types.Scope().Lookup("maskLen").(*types.Const)
	var ml int64 = 8
	if maskLen != nil {
		ml, _ = constToInt(types.TypeAndValue{Value: maskLen.Val()})
	}
	listed := map[*types.Const]bool{}
	if cl, ok := pkgVarInit(tp, "allKeys").(*ast.CompositeLit); ok {
		for _, e := range cl.Elts {
			if c := usedConst(tp, e); c != nil {
				listed[c] = true
			}
		}
	} else {
		r.bad(rule, testPkg+".allKeys", "", "table not found or not a literal: anchor lost")
		return
	}
	flags := map[*types.Const]bool{}
	if cl, ok := pkgVarInit(tp, "flagKeys").(*ast.CompositeLit); ok {
		for _, e := range cl.Elts {
			if kv, ok := e.(*ast.KeyValueExpr); ok {
				if c := usedConst(tp, kv.Key); c != nil {
					flags[c] = true
				}
			}
		}
	}
	lower := map[string]string{}
	vals := map[int64]string{}
	var maskConsts []*types.Const
	for _, c := range consts {
		v, _ := constToInt(types.TypeAndValue{Value: c.Val()})
		key := fmt.Sprintf("%s.%s", short(kp.PkgPath), c.Name())
		var probs []string
		if !listed[c] {
			probs = append(probs, "missing from "+short(tp.PkgPath)+".allKeys: the text parser rejects it, so a set holding it does not survive write-then-parse")
		}
		if other, dup := lower[strings.ToLower(c.Name())]; dup {
			probs = append(probs, "its lower-cased name collides with "+other+" in the parsing dictionary")
		}
		lower[strings.ToLower(c.Name())] = c.Name()
		if other, dup := vals[v]; dup {
			probs = append(probs, fmt.Sprintf("has the same value %d as %s", v, other))
		}
		vals[v] = c.Name()
		if v < 0 {
			maskConsts = append(maskConsts, c)
			b := -v
			if b&(b-1) != 0 || b >= 1<<uint(ml) {
				probs = append(probs, fmt.Sprintf("mask key %d is not a single bit below 1<<maskLen (%d)", v, ml))
			}
			if !flags[c] {
				probs = append(probs, "is a mask (valueless) key but is not in flagKeys: the parser would expect a value")
			}
		} else if v == 0 || v >= 64 {
			probs = append(probs, fmt.Sprintf("value %d is outside 1..63 (attr.Set.SetAttr panics for keys >= 64)", v))
		}
		if len(probs) > 0 {
			r.bad(rule, key, p.pos(c.Pos()), strings.Join(probs, "; "))
		} else {
			r.ok(rule, key, p.pos(c.Pos()), fmt.Sprintf("= %d: listed in allKeys, distinct value and name, in range", v))
		}
	}
	r.floor(rule, short(kp.PkgPath)+".AttrKey constants", len(consts), 10)
	if checkString {
		fd := funcDecl(kp, "Type.String")
		if fd == nil {
			r.bad(rule, "dep.Type.String", "", "function not found: anchor lost")
			return
		}
		used := map[types.Object]bool{}
		ast.Inspect(fd.Body, func(n ast.Node) bool {
			if id, ok := n.(*ast.Ident); ok {
				if o := kp.TypesInfo.Uses[id]; o != nil {
					used[o] = true
				}
			}
			return true
		})
		for _, c := range maskConsts {
			key := "dep.Type.String mentions " + c.Name()
			if used[c] {
				r.ok(rule, key, p.pos(fd.Pos()), "the mask key is written by String")
			} else {
				r.bad(rule, key, p.pos(fd.Pos()), "the text form omits this flag: two different types print identically and the text does not parse back to an equal set")
			}
		}
	}
}

// cloneCompleteRule checks a Clone method.
func cloneCompleteRule(r *Report, p *Prog, rule string, f *ssa.Function) {
	key := fnKey(f)
	rt := f.Signature.Results().At(0).Type()
	st, ok := rt.Underlying().(*types.Struct)
	if !ok {
		r.bad(rule, key, p.pos(f.Pos()), "Clone does not return a struct")
		return
	}
	// the result: a load of a local alloc built field by field
	var alloc *ssa.Alloc
	for _, b := range f.Blocks {
		if ret, ok := b.Instrs[len(b.Instrs)-1].(*ssa.Return); ok && len(ret.Results) == 1 {
			if u, ok := ret.Results[0].(*ssa.UnOp); ok && u.Op == token.MUL {
				if al, ok := u.X.(*ssa.Alloc); ok {
					alloc = al
				}
			}
		}
	}
	if alloc == nil {
		r.bad(rule, key, p.pos(f.Pos()), "the result is not built as a local composite value; the rule cannot see which fields are set")
		return
	}
	stored := map[int]ssa.Value{}
	allStored := map[int][]ssa.Value{}
	for _, ref := range *alloc.Referrers() {
		fa, ok := ref.(*ssa.FieldAddr)
		if !ok {
			continue
		}
		for _, r2 := range *fa.Referrers() {
			if sto, ok := r2.(*ssa.Store); ok && sto.Addr == ssa.Value(fa) {
				if _, seen := stored[fa.Field]; !seen {
					stored[fa.Field] = sto.Val
				}
				allStored[fa.Field] = append(allStored[fa.Field], sto.Val)
			}
		}
	}
	e := &Effect{kindMemo: map[types.Type]int{}}
	var probs []string
	for i := 0; i < st.NumFields(); i++ {
		fld := st.Field(i)
		v, ok := stored[i]
		if !ok {
			probs = append(probs, "field "+fld.Name()+" is not set in the clone")
			continue
		}
		switch e.kind(fld.Type()) {
		case 2: // reference: every value stored must be fresh
			for _, sv := range allStored[i] {
				switch sv.(type) {
				case *ssa.MakeMap, *ssa.MakeSlice, *ssa.Alloc:
				default:
					if call, ok := sv.(*ssa.Call); ok && strings.HasSuffix(staticCalleeName(call), ".Clone") {
						break
					}
					probs = append(probs, "reference field "+fld.Name()+" is copied, not re-made: the clone shares it with the original")
				}
			}
			_ = v
		case 1: // struct with references: must come from a nested Clone
			if call, ok := v.(*ssa.Call); !ok || !strings.HasSuffix(staticCalleeName(call), ".Clone") {
				probs = append(probs, "field "+fld.Name()+" contains references and is not produced by a nested Clone")
			}
		}
	}
	// a re-made map must be filled from the receiver's map
	for i := 0; i < st.NumFields(); i++ {
		if _, isMap := st.Field(i).Type().Underlying().(*types.Map); !isMap {
			continue
		}
		filled := false
		for _, b := range f.Blocks {
			for _, in := range b.Instrs {
				if mu, ok := in.(*ssa.MapUpdate); ok {
					if fv := nearestField(mu.Map); fv == st.Field(i) {
						filled = true
					}
				}
			}
		}
		for _, sv := range allStored[i] {
			if call, ok := sv.(*ssa.Call); ok {
				if n := staticCalleeName(call); n == "maps.Clone" || strings.HasSuffix(n, ".Clone") {
					filled = true // a cloning call copies the entries itself
				}
			}
		}
		if !filled && stored[i] != nil {
			probs = append(probs, "map field "+st.Field(i).Name()+" is re-made but never filled from the original")
		}
	}
	if len(probs) > 0 {
		r.bad(rule, key, p.pos(f.Pos()), strings.Join(probs, "; "))
	} else {
		r.ok(rule, key, p.pos(f.Pos()), fmt.Sprintf("all %d fields set; reference fields are re-made or cloned", st.NumFields()))
	}
}

// byValueAttrMutation reports functions (closures included) that receive an
// attribute set by value and write its shared map.
func byValueAttrMutation(r *Report, p *Prog, e *Effect, rule string, attrsField *types.Var, want func(*ssa.Function) bool) int {
	n := 0
	for _, f := range p.Funcs {
		if f.Synthetic != "" || !want(f) {
			continue
		}
		s := e.sums[f]
		for k, prm := range f.Params {
			if _, isPtr := prm.Type().Underlying().(*types.Pointer); isPtr {
				continue
			}
			if _, isStruct := prm.Type().Underlying().(*types.Struct); !isStruct {
				continue
			}
			if e.kind(prm.Type()) == 0 {
				continue
			}
			n++
			for st, o := range s.writes {
				if st.field == attrsField && o.p&paramBits(k) != 0 {
					r.bad(rule, fmt.Sprintf("%s: mutates by-value parameter %s", fnKey(f), prm.Name()), p.pos(st.pos), "the function receives an attribute set by value but writes its shared map: the caller's value (and every other copy made from it) changes behind its back")
				}
			}
		}
	}
	return n
}

func attrSetMapField(p *Prog) *types.Var {
	if tn, ok := p.pkg("resolve/internal/attr").Types.Scope().Lookup("Set").(*types.TypeName); ok {
		st := tn.Type().Underlying().(*types.Struct)
		for i := 0; i < st.NumFields(); i++ {
			if st.Field(i).Name() == "attrs" {
				return st.Field(i)
			}
		}
	}
	return nil
}

// markerOpDomainRule: see checkC16 (OP-DOMAIN).
func markerOpDomainRule(r *Report, p *Prog, pk *packages.Package, opConsts []*types.Const, spell map[string]string) {
	rule := "C16/OP-DOMAIN"
	fd := funcDecl(pk, "envParser.parseMarkerExpr")
	sp := p.pkg("semver")
	if fd == nil || sp == nil {
		r.bad(rule, "envParser.parseMarkerExpr", "", "function or package semver not found: anchor lost")
		return
	}
	// operators of semver's PyPI row
	pypiOps := map[string]bool{}
	if cl, ok := pkgVarInit(sp, "operators").(*ast.CompositeLit); ok {
		for _, el := range cl.Elts {
			kv, ok := el.(*ast.KeyValueExpr)
			if !ok {
				continue
			}
			if c := usedConst(sp, kv.Key); c != nil && c.Name() == "PyPI" {
				if m, _, ok := mapLitByStringKey(sp, kv.Value); ok {
					for op := range m {
						pypiOps[op] = true
					}
				}
			}
		}
	}
	if len(pypiOps) < 5 {
		r.bad(rule, "semver.operators[PyPI]", "", "operator row not found: anchor lost")
		return
	}
	// the guard in front of the ParseConstraint call
	var guard *ast.IfStmt
	ast.Inspect(fd.Body, func(n ast.Node) bool {
		is, ok := n.(*ast.IfStmt)
		if !ok || guard != nil {
			return true
		}
		calls := false
		ast.Inspect(is.Body, func(m ast.Node) bool {
			if ce, ok := m.(*ast.CallExpr); ok {
				if se, ok := ce.Fun.(*ast.SelectorExpr); ok && se.Sel.Name == "ParseConstraint" {
					calls = true
				}
			}
			return true
		})
		if calls {
			guard = is
			return false
		}
		return true
	})
	if guard == nil {
		r.bad(rule, "parseMarkerExpr: constraint branch", p.pos(fd.Pos()), "no branch that builds a version constraint found: anchor lost")
		return
	}
	excluded := map[string]bool{}
	var conj func(e ast.Expr)
	conj = func(e ast.Expr) {
		e = ast.Unparen(e)
		if be, ok := e.(*ast.BinaryExpr); ok {
			switch be.Op {
			case token.LAND:
				conj(be.X)
				conj(be.Y)
			case token.NEQ:
				if c := usedConst(pk, be.Y); c != nil && strings.HasSuffix(c.Type().String(), "pypi.markerOp") {
					excluded[c.Name()] = true
				}
				if c := usedConst(pk, be.X); c != nil && strings.HasSuffix(c.Type().String(), "pypi.markerOp") {
					excluded[c.Name()] = true
				}
			}
		}
	}
	conj(guard.Cond)
	n := 0
	for _, c := range opConsts {
		if c.Name() == "markerOpUnknown" {
			continue
		}
		n++
		key := "operator " + c.Name() + " (" + spell[c.Name()] + ")"
		switch {
		case excluded[c.Name()]:
			r.ok(rule, key, p.pos(guard.Pos()), "kept out of the version-constraint branch by the guard")
		case pypiOps[spell[c.Name()]]:
			r.ok(rule, key, p.pos(guard.Pos()), "forwarded to semver.PyPI.ParseConstraint, whose PyPI row has this operator")
		default:
			r.bad(rule, key, p.pos(guard.Pos()), "when both operands look like versions this operator is forwarded to semver.PyPI.ParseConstraint, whose PyPI operator row does not have it: the constraint fails to parse, the marker is rejected and the whole resolution fails, although PEP 508 defines the operator on strings")
		}
	}
	r.floor(rule, "marker operators considered", n, 9)
}

// valueWrittenRule: the parser of the attribute text form consumes a value
// token after every key that is not a flag (it tests its flagKeys table). The
// writer documented as its inverse must make the same decision: after the key
// token, every path to the next key writes a token derived from the value,
// except the path taken when a lookup in a bool-valued key table says the key
// is a flag. A writer that decides on the value itself (value != "") writes a
// valued key holding "" as a flag, which the parser then refuses or, worse,
// completes with the next key's name.
func valueWrittenRule(r *Report, p *Prog, rule, writer string) {
	wf := p.lookupFn(writer)
	if wf == nil {
		r.bad(rule, writer, "", "writer not found: anchor lost")
		return
	}
	n := 0
	for _, b := range wf.Blocks {
		for _, in := range b.Instrs {
			c, ok := in.(*ssa.Call)
			if !ok {
				continue
			}
			sc := c.Common().StaticCallee()
			if sc == nil || sc.Name() != "GetAttr" || c.Type().(*types.Tuple) == nil {
				continue
			}
			var val, okv ssa.Value
			for _, ref := range *c.Referrers() {
				if ex, isEx := ref.(*ssa.Extract); isEx {
					if ex.Index == 0 {
						val = ex
					} else {
						okv = ex
					}
				}
			}
			n++
			key := fmt.Sprintf("%s: value of GetAttr #%d follows its key unless the key is a flag", fnKey(wf), n)
			if okv == nil {
				r.bad(rule, key, p.pos(c.Pos()), "the presence result of GetAttr is not used: cannot locate the branch that writes the key")
				continue
			}
			var start *ssa.BasicBlock
			for _, ref := range *okv.Referrers() {
				if iff, isIf := ref.(*ssa.If); isIf {
					start = iff.Block().Succs[0]
				}
			}
			if start == nil {
				r.bad(rule, key, p.pos(c.Pos()), "the presence result of GetAttr does not decide a branch: cannot locate the branch that writes the key")
				continue
			}
			if val == nil {
				r.bad(rule, key, p.pos(c.Pos()), "the value returned by GetAttr is discarded: a valued key is written without its value")
				continue
			}
			dep := map[ssa.Value]bool{}
			var depends func(v ssa.Value, d int) bool
			depends = func(v ssa.Value, d int) bool {
				if v == val {
					return true
				}
				if d > 8 {
					return false
				}
				if known, seen := dep[v]; seen {
					return known
				}
				dep[v] = false
				res := false
				switch x := v.(type) {
				case *ssa.Phi:
					for _, e := range x.Edges {
						res = res || depends(e, d+1)
					}
				case *ssa.Call:
					for _, a := range x.Common().Args {
						res = res || depends(a, d+1)
					}
				case *ssa.BinOp:
					res = depends(x.X, d+1) || depends(x.Y, d+1)
				case *ssa.Convert:
					res = depends(x.X, d+1)
				case *ssa.ChangeType:
					res = depends(x.X, d+1)
				case *ssa.MakeInterface:
					res = depends(x.X, d+1)
				case *ssa.Slice:
					res = depends(x.X, d+1)
				case *ssa.Extract:
					res = depends(x.Tuple, d+1)
				}
				dep[v] = res
				return res
			}
			writesValue := func(in ssa.Instruction) bool {
				ac, ok := in.(*ssa.Call)
				if !ok {
					return false
				}
				bi, ok := ac.Common().Value.(*ssa.Builtin)
				if !ok || bi.Name() != "append" || len(ac.Common().Args) != 2 {
					return false
				}
				arg := ac.Common().Args[1]
				if depends(arg, 0) {
					return true
				}
				sl, ok := arg.(*ssa.Slice)
				if !ok {
					return false
				}
				al, ok := sl.X.(*ssa.Alloc)
				if !ok {
					return false
				}
				for _, ref := range *al.Referrers() {
					ia, ok := ref.(*ssa.IndexAddr)
					if !ok {
						continue
					}
					for _, r2 := range *ia.Referrers() {
						if st, ok := r2.(*ssa.Store); ok && st.Addr == ia && depends(st.Val, 0) {
							return true
						}
					}
				}
				return false
			}
			// the true edge of a test of a bool-valued key table is the flag path
			flagEdge := func(from *ssa.BasicBlock, succ int) bool {
				iff, ok := from.Instrs[len(from.Instrs)-1].(*ssa.If)
				if !ok || succ != 0 {
					return false
				}
				cond := iff.Cond
				if ex, ok := cond.(*ssa.Extract); ok {
					cond = ex.Tuple
				}
				lk, ok := cond.(*ssa.Lookup)
				if !ok {
					return false
				}
				mt, ok := lk.X.Type().Underlying().(*types.Map)
				if !ok {
					return false
				}
				bt, ok := mt.Elem().Underlying().(*types.Basic)
				if !ok || bt.Kind() != types.Bool {
					return false
				}
				un, ok := lk.X.(*ssa.UnOp)
				if !ok {
					return false
				}
				_, isGlobal := un.X.(*ssa.Global)
				return isGlobal
			}
			// walk from the branch taken when the key is present
			seen := map[*ssa.BasicBlock]bool{}
			var offending *ssa.BasicBlock
			var walk func(bb *ssa.BasicBlock)
			walk = func(bb *ssa.BasicBlock) {
				if offending != nil || seen[bb] {
					return
				}
				if bb == b { // back at the GetAttr call: next key, nothing written for the value
					offending = bb
					return
				}
				seen[bb] = true
				for _, in2 := range bb.Instrs {
					if writesValue(in2) {
						return
					}
				}
				if _, isRet := bb.Instrs[len(bb.Instrs)-1].(*ssa.Return); isRet {
					offending = bb
					return
				}
				for i, s := range bb.Succs {
					if flagEdge(bb, i) {
						continue
					}
					walk(s)
				}
			}
			walk(start)
			if offending != nil {
				r.bad(rule, key, p.pos(c.Pos()), "a path from the branch that writes the key reaches the next key (or the end) without writing a token derived from the value and without a flag-table test: a valued key holding an empty value is written like a flag, which the parser refuses or completes with the next key's name")
			} else {
				r.ok(rule, key, p.pos(c.Pos()), "every path from the key token writes the value, or leaves on the true edge of a flag-table test")
			}
		}
	}
	r.floor(rule, "GetAttr calls in the writer", n, 1)
}
