package main

import (
	"fmt"
	"go/constant"
	"go/token"
	"go/types"

	"golang.org/x/tools/go/ssa"
)

// firstSepRule (C10.e FIRST-ELEMENT-SEP): the Maven canonical printer writes
// the separator of every element but the first ("will be zero for first
// element", says the struct), while the comparator reads the separator of every
// element. The parser must therefore never give the first element a separator:
// otherwise ".1" prints as "1" and compares unequal to its own canonical string.
//
// Decided on (*mavenExtension).init by walking the loop body as it runs in the
// FIRST iteration (the loop-carried flag `first` is the phi whose entry edge is
// the constant true; branches on it are resolved): on no such path is the
// first element appended to the list one whose sep field was stored before.
func firstSepRule(r *Report, p *Prog, rule string) {
	initFn := p.lookupFn("(*semver.mavenExtension).init")
	canonFn := p.lookupFn("(*semver.mavenExtension).canon")
	key := "(*semver.mavenExtension).init: the first element is appended without a separator"
	if initFn == nil || canonFn == nil {
		r.bad(rule, key, "", "init or canon of the Maven extension not found: anchor lost")
		return
	}
	// the belief: canon prints e.sep only under i > 0
	believes := false
	for _, b := range canonFn.Blocks {
		ifi, ok := b.Instrs[len(b.Instrs)-1].(*ssa.If)
		if !ok {
			continue
		}
		bo, ok := ifi.Cond.(*ssa.BinOp)
		if !ok || bo.Op != token.GTR {
			continue
		}
		if k, ok := bo.Y.(*ssa.Const); ok && k.Value != nil && k.Value.Kind() == constant.Int && k.Int64() == 0 {
			believes = true
		}
	}
	if !believes {
		r.ok(rule, key, p.pos(canonFn.Pos()), "the canonical printer writes the separator of every element: nothing relies on the first one being zero")
		return
	}
	// the loop-carried flag
	var first *ssa.Phi
	var entryPred *ssa.BasicBlock
	for _, b := range initFn.Blocks {
		for _, in := range b.Instrs {
			ph, ok := in.(*ssa.Phi)
			if !ok {
				continue
			}
			if bt, ok := ph.Type().Underlying().(*types.Basic); !ok || bt.Kind() != types.Bool {
				continue
			}
			var tEdge, fEdge = -1, -1
			for i, e := range ph.Edges {
				if c, ok := e.(*ssa.Const); ok && c.Value != nil && c.Value.Kind() == constant.Bool {
					if constant.BoolVal(c.Value) {
						tEdge = i
					} else {
						fEdge = i
					}
				}
			}
			if tEdge >= 0 && fEdge >= 0 && len(ph.Edges) == 2 && first == nil {
				first, entryPred = ph, b.Preds[tEdge]
			}
		}
	}
	if first == nil {
		r.bad(rule, key, p.pos(initFn.Pos()), "no loop-carried first-iteration flag (a bool phi of true on entry and false on the back edge) found in init: anchor lost")
		return
	}
	_ = entryPred
	isSepAddr := func(v ssa.Value) (*ssa.Alloc, bool) {
		fa, ok := v.(*ssa.FieldAddr)
		if !ok {
			return nil, false
		}
		st, ok := fa.X.Type().Underlying().(*types.Pointer).Elem().Underlying().(*types.Struct)
		if !ok || st.Field(fa.Field).Name() != "sep" {
			return nil, false
		}
		al, ok := fa.X.(*ssa.Alloc)
		return al, ok
	}
	type state struct {
		b   *ssa.BasicBlock
		sep string
	}
	seen := map[state]bool{}
	var offending ssa.Instruction
	appends := 0
	var walk func(b *ssa.BasicBlock, stored map[*ssa.Alloc]bool)
	walk = func(b *ssa.BasicBlock, stored map[*ssa.Alloc]bool) {
		if offending != nil {
			return
		}
		sk := ""
		for a := range stored {
			sk += a.Name() + ","
		}
		if seen[state{b, sk}] {
			return
		}
		seen[state{b, sk}] = true
		cur := map[*ssa.Alloc]bool{}
		for a := range stored {
			cur[a] = true
		}
		for _, in := range b.Instrs {
			switch x := in.(type) {
			case *ssa.Store:
				if al, ok := isSepAddr(x.Addr); ok {
					if c, isC := x.Val.(*ssa.Const); isC && c.Value != nil && c.Int64() == 0 {
						delete(cur, al)
					} else {
						cur[al] = true
					}
				}
			case *ssa.Call:
				bi, ok := x.Common().Value.(*ssa.Builtin)
				if !ok || bi.Name() != "append" || len(x.Common().Args) != 2 {
					continue
				}
				sl, ok := x.Common().Args[1].(*ssa.Slice)
				if !ok {
					continue
				}
				arr, ok := sl.X.(*ssa.Alloc)
				if !ok || arr.Referrers() == nil {
					continue
				}
				// the element stored into the one-element varargs array
				isElem := false
				for _, ref := range *arr.Referrers() {
					ia, ok := ref.(*ssa.IndexAddr)
					if !ok || ia.Referrers() == nil {
						continue
					}
					for _, r2 := range *ia.Referrers() {
						st, ok := r2.(*ssa.Store)
						if !ok || st.Addr != ssa.Value(ia) {
							continue
						}
						if named, ok := st.Val.Type().(*types.Named); !ok || named.Obj().Name() != "mavenElement" {
							continue
						}
						isElem = true
						if ld, ok := st.Val.(*ssa.UnOp); ok {
							if al, ok := ld.X.(*ssa.Alloc); ok && cur[al] {
								offending = x
							}
						}
					}
				}
				if isElem {
					appends++
					return // the first element has been appended: this path is decided
				}
			}
		}
		switch last := b.Instrs[len(b.Instrs)-1].(type) {
		case *ssa.Return:
			return
		case *ssa.If:
			if last.Cond == ssa.Value(first) {
				walk(b.Succs[0], cur)
				return
			}
			if un, ok := last.Cond.(*ssa.UnOp); ok && un.Op == token.NOT && un.X == ssa.Value(first) {
				walk(b.Succs[1], cur)
				return
			}
		}
		for _, s := range b.Succs {
			if s == first.Block() {
				continue // second iteration: the flag is false from here on
			}
			walk(s, cur)
		}
	}
	walk(first.Block(), map[*ssa.Alloc]bool{})
	switch {
	case offending != nil:
		r.bad(rule, key, p.pos(offending.Pos()), "in the first iteration of the parsing loop an element whose separator has been set is appended as the first element: the canonical printer omits the first separator while the comparator reads it, so a version that starts with a separator (\".1\", \"-1\") compares unequal to its own canonical string")
	case appends == 0:
		r.bad(rule, key, p.pos(initFn.Pos()), "no append of an element found on the first-iteration paths: anchor lost")
	default:
		r.ok(rule, key, p.pos(initFn.Pos()), fmt.Sprintf("on all %d first-iteration paths the first element appended has no separator stored", appends))
	}
}
