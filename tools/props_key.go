package main

import (
	"fmt"
	"go/constant"
	"go/token"
	"go/types"
	"sort"
	"strings"

	"golang.org/x/tools/go/ssa"
)

// keyCompleteRule (C02 PEP440-KEY-COMPLETE): PEP 440 orders two versions by a
// key made of every part a version can carry: epoch, release, prerelease, post,
// dev and local. The comparator of the PyPI extension may therefore answer
// "equal" (return a value that can be 0) only after it has looked at every field
// of the parsed extension on both operands. A return that can be 0 and is
// reachable along a path that never read some field F of both operands means
// that two versions differing in F alone, on that path, compare equal, where
// pip's packaging orders them.
//
// Fields are taken from the struct type, not from a list:
//   - pre is exempt: both operands have passed the equality of rank(), which is
//     injective on the prerelease letters (C02/PEP440-RANK decides that);
//   - a field xNum whose struct also has x or xPresent is the number of an
//     optional part; it may legitimately be compared only when the part is
//     there, so only the existence of a read of both operands is required;
//   - every other field must be read, from both operands, on every path to every
//     exit that can return 0.
//
// The exit taken when neither operand has an extension at all is exempt: every
// field is zero on both sides.
func keyCompleteRule(r *Report, p *Prog, rule string) (nFields, nExits int) {
	f := p.lookupFn("(*semver.pep440Extension).compare")
	if f == nil || f.Blocks == nil {
		r.bad(rule, "(*semver.pep440Extension).compare", "", "function not found: anchor lost")
		return 0, 0
	}
	// the struct and the two operand values
	var st *types.Struct
	var bases []ssa.Value
	isKeyStruct := func(t types.Type) (*types.Struct, bool) {
		pt, ok := t.Underlying().(*types.Pointer)
		if !ok {
			return nil, false
		}
		n, ok := pt.Elem().(*types.Named)
		if !ok || n.Obj().Name() != "pep440" || n.Obj().Pkg() == nil || n.Obj().Pkg().Path() != modPrefix+"semver" {
			return nil, false
		}
		s, ok := n.Underlying().(*types.Struct)
		return s, ok
	}
	type read struct {
		field string
		base  int
	}
	gen := map[*ssa.BasicBlock]map[read]bool{}
	for _, b := range f.Blocks {
		for _, in := range b.Instrs {
			fa, ok := in.(*ssa.FieldAddr)
			if !ok {
				continue
			}
			s, ok := isKeyStruct(fa.X.Type())
			if !ok {
				continue
			}
			st = s
			loaded := false
			for _, ref := range *fa.Referrers() {
				if u, ok := ref.(*ssa.UnOp); ok && u.Op == token.MUL {
					loaded = true
				}
			}
			if !loaded {
				continue
			}
			bi := -1
			for i, x := range bases {
				if x == fa.X {
					bi = i
				}
			}
			if bi < 0 {
				bases = append(bases, fa.X)
				bi = len(bases) - 1
			}
			if gen[b] == nil {
				gen[b] = map[read]bool{}
			}
			gen[b][read{s.Field(fa.Field).Name(), bi}] = true
		}
	}
	if st == nil || len(bases) != 2 {
		r.bad(rule, fnKey(f)+": operands", p.pos(f.Pos()), fmt.Sprintf("the comparator reads the parsed extension through %d values, not the two operands: the rule cannot tell which operand a read belongs to (undecided)", len(bases)))
		return 0, 0
	}
	// classify the fields
	has := map[string]bool{}
	for i := 0; i < st.NumFields(); i++ {
		has[st.Field(i).Name()] = true
	}
	var pathFields, numFields []string
	for i := 0; i < st.NumFields(); i++ {
		n := st.Field(i).Name()
		switch {
		case n == "pre":
			r.ok(rule, fnKey(f)+": field pre", p.pos(f.Pos()), "exempt: compared through rank(), which is injective on the prerelease letters")
		case strings.HasSuffix(n, "Num") && (has[strings.TrimSuffix(n, "Num")] || has[strings.TrimSuffix(n, "Num")+"Present"]):
			numFields = append(numFields, n)
		default:
			pathFields = append(pathFields, n)
		}
		nFields++
	}
	// existence clause
	for _, n := range numFields {
		seen := [2]bool{}
		for _, g := range gen {
			for rd := range g {
				if rd.field == n {
					seen[rd.base] = true
				}
			}
		}
		key := fmt.Sprintf("%s: field %s is compared", fnKey(f), n)
		if seen[0] && seen[1] {
			r.ok(rule, key, p.pos(f.Pos()), "read from both operands")
		} else {
			r.bad(rule, key, p.pos(f.Pos()), fmt.Sprintf("the number %s of the parsed version is never read from both operands: versions that differ in it alone compare equal", n))
		}
	}
	// forward must-analysis: fields read from both operands on every path
	all := map[read]bool{}
	for _, n := range pathFields {
		all[read{n, 0}] = true
		all[read{n, 1}] = true
	}
	out := map[*ssa.BasicBlock]map[read]bool{}
	reach := map[*ssa.BasicBlock]bool{f.Blocks[0]: true}
	for changed := true; changed; {
		changed = false
		for _, b := range f.Blocks {
			if !reach[b] {
				continue
			}
			for _, s := range b.Succs {
				if !reach[s] {
					reach[s] = true
					changed = true
				}
			}
		}
	}
	inOf := func(b *ssa.BasicBlock) map[read]bool {
		if b == f.Blocks[0] {
			return map[read]bool{}
		}
		var acc map[read]bool
		for _, pr := range b.Preds {
			if !reach[pr] {
				continue
			}
			o, ok := out[pr]
			if !ok {
				continue // not computed yet: top
			}
			if acc == nil {
				acc = map[read]bool{}
				for k := range o {
					acc[k] = true
				}
				continue
			}
			for k := range acc {
				if !o[k] {
					delete(acc, k)
				}
			}
		}
		if acc == nil {
			acc = map[read]bool{}
			for k := range all {
				acc[k] = true
			}
		}
		return acc
	}
	for changed := true; changed; {
		changed = false
		for _, b := range f.Blocks {
			if !reach[b] {
				continue
			}
			o := inOf(b)
			for k := range gen[b] {
				if all[k] {
					o[k] = true
				}
			}
			if old, ok := out[b]; !ok || len(old) != len(o) {
				out[b] = o
				changed = true
			}
		}
	}
	// exits
	type exit struct {
		ret  *ssa.Return
		from *ssa.BasicBlock // nil: the block of the return itself; else the phi edge's predecessor
		desc string
	}
	var exits []exit
	for _, b := range f.Blocks {
		if !reach[b] || len(b.Instrs) == 0 {
			continue
		}
		ret, ok := b.Instrs[len(b.Instrs)-1].(*ssa.Return)
		if !ok || len(ret.Results) != 1 {
			continue
		}
		v := ret.Results[0]
		if phi, ok := v.(*ssa.Phi); ok && phi.Block() == b {
			for i, e := range phi.Edges {
				if d, may := mayBeZero(e, b.Preds[i], b); may {
					exits = append(exits, exit{ret, b.Preds[i], d})
				}
			}
			continue
		}
		if d, may := mayBeZero(v, nil, b); may {
			exits = append(exits, exit{ret, nil, d})
		}
	}
	sort.SliceStable(exits, func(i, j int) bool { return exits[i].ret.Pos() < exits[j].ret.Pos() })
	for i, e := range exits {
		nExits++
		key := fmt.Sprintf("%s: exit #%d (%s) is reached only after every part of both versions was read", fnKey(f), i+1, e.desc)
		b := e.ret.Block()
		if bothAbsent(b) {
			r.ok(rule, key, p.pos(e.ret.Pos()), "exempt: taken only when neither operand has a parsed extension, so every field is zero on both sides")
			continue
		}
		var have map[read]bool
		if e.from != nil {
			have = out[e.from]
		} else {
			have = out[b]
		}
		var missing []string
		for _, n := range pathFields {
			if !have[read{n, 0}] || !have[read{n, 1}] {
				missing = append(missing, n)
			}
		}
		if len(missing) == 0 {
			r.ok(rule, key, p.pos(e.ret.Pos()), fmt.Sprintf("every path reads %v from both operands", pathFields))
		} else {
			r.bad(rule, key, p.pos(e.ret.Pos()), fmt.Sprintf("this exit can answer 'equal' and is reachable on a path that did not read %v from both operands: two PEP 440 versions that differ only there (1.0.dev1+a and 1.0.dev1+b; 1.0a1 and 1.0a1.post0) compare equal, and pip's packaging orders them", missing))
		}
	}
	return nFields, nExits
}

// mayBeZero: can the returned value be 0 when control is in block b (having
// come from pred, for a phi edge)?
func mayBeZero(v ssa.Value, pred, b *ssa.BasicBlock) (string, bool) {
	if c, ok := v.(*ssa.Const); ok {
		if c.Value != nil && c.Value.Kind() == constant.Int {
			if n, ok := constant.Int64Val(c.Value); ok && n != 0 {
				return "", false
			}
		}
		return "returns 0", true
	}
	// the block (or the phi edge's predecessor) is entered on the side of a
	// branch that shows the value is not 0
	at := b
	if pred != nil {
		at = pred
	}
	for _, g := range at.Parent().Blocks {
		if len(g.Instrs) == 0 {
			continue
		}
		ifi, ok := g.Instrs[len(g.Instrs)-1].(*ssa.If)
		if !ok {
			continue
		}
		bo, ok := ifi.Cond.(*ssa.BinOp)
		if !ok || (bo.Op != token.NEQ && bo.Op != token.EQL) {
			continue
		}
		side := g.Succs[0]
		if bo.Op == token.EQL {
			side = g.Succs[1]
		}
		if !(side == at || (side.Dominates(at) && len(side.Preds) == 1)) {
			continue
		}
		// v != 0
		if (bo.X == v && isZeroConst(bo.Y)) || (bo.Y == v && isZeroConst(bo.X)) {
			return "", false
		}
		// sgn(a, b) under a != b
		if c, ok := v.(*ssa.Call); ok && strings.HasPrefix(calleeBase(c), "sgn") && len(c.Common().Args) == 2 {
			a0, a1 := c.Common().Args[0], c.Common().Args[1]
			if (sameExpr(a0, bo.X) && sameExpr(a1, bo.Y)) || (sameExpr(a0, bo.Y) && sameExpr(a1, bo.X)) {
				return "", false
			}
		}
	}
	if c, ok := v.(*ssa.Call); ok {
		return "returns the result of " + calleeBase(c), true
	}
	return "returns a computed value", true
}

func calleeBase(c *ssa.Call) string {
	if sc := c.Common().StaticCallee(); sc != nil {
		n := sc.Name()
		if i := strings.IndexByte(n, '['); i > 0 {
			n = n[:i]
		}
		return n
	}
	return ""
}

func isZeroConst(v ssa.Value) bool {
	c, ok := v.(*ssa.Const)
	if !ok || c.Value == nil || c.Value.Kind() != constant.Int {
		return false
	}
	n, ok := constant.Int64Val(c.Value)
	return ok && n == 0
}

// sameExpr: the same SSA value, or two loads of the same field of the same
// struct value (nothing is stored in between in a comparator; stores to the
// operands are excluded by C01's purity rule).
func sameExpr(a, b ssa.Value) bool {
	if a == b {
		return true
	}
	ua, ok1 := a.(*ssa.UnOp)
	ub, ok2 := b.(*ssa.UnOp)
	if ok1 && ok2 && ua.Op == token.MUL && ub.Op == token.MUL {
		fa, ok1 := ua.X.(*ssa.FieldAddr)
		fb, ok2 := ub.X.(*ssa.FieldAddr)
		if ok1 && ok2 {
			return fa.Field == fb.Field && sameExpr(fa.X, fb.X)
		}
	}
	ca, ok1 := a.(*ssa.Convert)
	cb, ok2 := b.(*ssa.Convert)
	if ok1 && ok2 {
		return sameExpr(ca.X, cb.X)
	}
	return false
}

// bothAbsent: the block is entered only when the extension pointer of two
// different operands was found nil.
func bothAbsent(b *ssa.BasicBlock) bool {
	var owners []ssa.Value
	for _, g := range b.Parent().Blocks {
		if len(g.Instrs) == 0 {
			continue
		}
		ifi, ok := g.Instrs[len(g.Instrs)-1].(*ssa.If)
		if !ok {
			continue
		}
		bo, ok := ifi.Cond.(*ssa.BinOp)
		if !ok || bo.Op != token.EQL {
			continue
		}
		side := g.Succs[0]
		if !(side == b || side.Dominates(b)) {
			continue
		}
		var ptr ssa.Value
		if c, ok := bo.Y.(*ssa.Const); ok && c.IsNil() {
			ptr = bo.X
		} else if c, ok := bo.X.(*ssa.Const); ok && c.IsNil() {
			ptr = bo.Y
		}
		u, ok := ptr.(*ssa.UnOp)
		if !ok || u.Op != token.MUL {
			continue
		}
		fa, ok := u.X.(*ssa.FieldAddr)
		if !ok {
			continue
		}
		pt, ok := fa.X.Type().Underlying().(*types.Pointer)
		if !ok {
			continue
		}
		s, ok := pt.Elem().Underlying().(*types.Struct)
		if !ok || s.Field(fa.Field).Name() != "ext" {
			continue
		}
		dup := false
		for _, o := range owners {
			if o == fa.X {
				dup = true
			}
		}
		if !dup {
			owners = append(owners, fa.X)
		}
	}
	return len(owners) >= 2
}

// unboundedAboveRule (C12.m UNBOUNDED-ABOVE): the upper bound of ">=V", ">V"
// and of the empty requirement is a copy of the operand with its numbers set to
// ∞; it keeps every other part of the operand (for PyPI, the epoch). The
// extension comparator compares numbers in a loop; a return it can take BEFORE
// that loop decides the order on something other than the numbers, and so can
// place a real version above the ∞ bound (1!0.1 above 0!∞.∞.∞: a version with
// an epoch satisfies no requirement without an upper bound). Every such early
// decision must be behind a test against the infinity constant.
func unboundedAboveRule(r *Report, p *Prog, rule string) int {
	f := p.lookupFn("(*semver.pep440Extension).compare")
	pk := p.pkg("semver")
	if f == nil || f.Blocks == nil || pk == nil {
		r.bad(rule, "(*semver.pep440Extension).compare", "", "function not found: anchor lost")
		return 0
	}
	cInf, _ := pk.Types.Scope().Lookup("infinity").(*types.Const)
	if cInf == nil {
		r.bad(rule, "semver.infinity", "", "constant not found: anchor lost")
		return 0
	}
	loops := naturalLoops(f)
	var numLoop *loop
	for _, b := range f.Blocks {
		for _, in := range b.Instrs {
			if c, ok := in.(*ssa.Call); ok && strings.HasPrefix(calleeBase(c), "sgnv") {
				if l := innermostLoop(loops, b); l != nil {
					numLoop = l
				}
			}
		}
	}
	if numLoop == nil {
		r.bad(rule, fnKey(f)+": numbers loop", p.pos(f.Pos()), "the loop comparing the release numbers was not found: anchor lost")
		return 0
	}
	isInfTest := func(v ssa.Value) bool {
		bo, ok := v.(*ssa.BinOp)
		if !ok || (bo.Op != token.EQL && bo.Op != token.NEQ) {
			return false
		}
		for _, o := range []ssa.Value{bo.X, bo.Y} {
			if k, ok := o.(*ssa.Const); ok && k.Value != nil && k.Value.Kind() == constant.Int && constant.Compare(k.Value, token.EQL, cInf.Val()) {
				return true
			}
		}
		return false
	}
	n := 0
	for _, b := range f.Blocks {
		if len(b.Instrs) == 0 || numLoop.body[b] || numLoop.header.Dominates(b) {
			continue
		}
		ret, ok := b.Instrs[len(b.Instrs)-1].(*ssa.Return)
		if !ok {
			continue
		}
		n++
		key := fmt.Sprintf("%s: decision #%d taken before the numbers are compared", fnKey(f), n)
		guarded := false
		for _, g := range f.Blocks {
			if len(g.Instrs) == 0 || !(g == b || g.Dominates(b)) {
				continue
			}
			if ifi, ok := g.Instrs[len(g.Instrs)-1].(*ssa.If); ok && g != b && condDerives(ifi.Cond, 0, isInfTest) {
				guarded = true
			}
		}
		if guarded {
			r.ok(rule, key, p.pos(ret.Pos()), "behind a test of the numbers against the infinity constant")
		} else {
			r.bad(rule, key, p.pos(ret.Pos()), "the order is decided before the release numbers are looked at and without asking whether an operand is the unbounded end ∞.∞.∞ of a span, which keeps the epoch of the version it was copied from: 1!0.1 compares above the upper bound of \">=1.0\" and of the empty requirement, and satisfies neither")
		}
	}
	return n
}

// zeroByValueReviewed: sites where the text of an element is compared with a
// digit literal and that is harmless, one line of reason each.
var zeroByValueReviewed = map[string]string{
	"(*semver.gemExtension).init: comparison with \"0\" #1": "a kept \"00\" changes nothing for the order: gemExtension.compare pads the shorter list with a numeric zero and compares numbers by value (1.0.a.00 = 1.0.a, checked); only the private canonical form keeps it",
}

// zeroByValueRule (C02 ZERO-BY-VALUE): a number has many spellings (0, 00,
// 000) and it is the parse that makes them one value. A test that compares the
// TEXT of a version element with a digit literal ("0") recognises one spelling
// only: Maven's trim of trailing zeros dropped "0" but kept "00", so 1.00 was
// above 1 and 1.0, where ComparableVersion says they are equal. In package
// semver no string is compared with a literal made of digits, outside the
// reviewed sites.
func zeroByValueRule(r *Report, p *Prog, rule string) int {
	n := 0
	for _, f := range p.Funcs {
		if f.Pkg == nil || f.Blocks == nil || f.Synthetic != "" || f.Pkg.Pkg.Path() != modPrefix+"semver" {
			continue
		}
		per := 0
		for _, b := range f.Blocks {
			for _, in := range b.Instrs {
				bo, ok := in.(*ssa.BinOp)
				if !ok || (bo.Op != token.EQL && bo.Op != token.NEQ) {
					continue
				}
				if bt, ok := bo.X.Type().Underlying().(*types.Basic); !ok || bt.Info()&types.IsString == 0 {
					continue
				}
				n++
				var lit string
				for _, o := range []ssa.Value{bo.X, bo.Y} {
					if k, ok := o.(*ssa.Const); ok && k.Value != nil && k.Value.Kind() == constant.String {
						lit = constant.StringVal(k.Value)
					}
				}
				if lit == "" || strings.Trim(lit, "0123456789") != "" {
					continue
				}
				per++
				key := fmt.Sprintf("%s: comparison with %q #%d", fnKey(f), lit, per)
				if why := zeroByValueReviewed[key]; why != "" {
					r.ok(rule, key, p.pos(bo.Pos()), "reviewed: "+why)
				} else {
					r.bad(rule, key, p.pos(bo.Pos()), fmt.Sprintf("the text of a version element is compared with the digit literal %q: only that spelling of the number is recognised (Maven's trim dropped a trailing \"0\" but kept \"00\", so 1.00 compared above 1 and 1.0); decide on the parsed value, or on all-zero text", lit))
				}
			}
		}
	}
	return n
}

// markersBothRule (C09.m MARKERS-BOTH): a number of a bound can hold one of
// two markers, the wildcard (written by the user) and ∞ (made by the package).
// A function that compares one and the same number with BOTH constants believes
// its operand can hold either; if it then resets the tail through
// setTail(marker, fill), which recognises one marker only, the numbers holding
// the other marker are left as they are (inc(1.∞.∞) = 2.0.∞ instead of 2.0.0:
// canon takes that for "no gap" and merges ^1.2.0 || ~2.0.5 over 2.0.0-2.0.4).
// In such a function every setTail call must be matched by one for the other
// marker on the same version.
func markersBothRule(r *Report, p *Prog, rule string) int {
	pk := p.pkg("semver")
	if pk == nil {
		r.bad(rule, "semver", "", "package not loaded: anchor lost")
		return 0
	}
	cW, _ := pk.Types.Scope().Lookup("wildcard").(*types.Const)
	cI, _ := pk.Types.Scope().Lookup("infinity").(*types.Const)
	if cW == nil || cI == nil {
		r.bad(rule, "semver.wildcard / semver.infinity", "", "constant not found: anchor lost")
		return 0
	}
	which := func(v ssa.Value) int {
		k, ok := v.(*ssa.Const)
		if !ok || k.Value == nil || k.Value.Kind() != constant.Int {
			return 0
		}
		if !strings.HasSuffix(k.Type().String(), "semver.value") {
			return 0
		}
		switch {
		case constant.Compare(k.Value, token.EQL, cW.Val()):
			return 1
		case constant.Compare(k.Value, token.EQL, cI.Val()):
			return 2
		}
		return 0
	}
	n := 0
	for _, f := range p.Funcs {
		if f.Pkg == nil || f.Blocks == nil || f.Synthetic != "" || f.Pkg.Pkg.Path() != modPrefix+"semver" {
			continue
		}
		tested := 0
		perVal := map[ssa.Value]int{}
		type tcall struct {
			c      *ssa.Call
			marker int
		}
		var tails []tcall
		for _, b := range f.Blocks {
			for _, in := range b.Instrs {
				switch x := in.(type) {
				case *ssa.BinOp:
					if x.Op == token.EQL || x.Op == token.NEQ {
						// the same number compared with both markers
						if m := which(x.Y); m != 0 {
							perVal[x.X] |= m
						} else if m := which(x.X); m != 0 {
							perVal[x.Y] |= m
						}
					}
				case *ssa.Call:
					if staticCalleeName(x) == "(*semver.Version).setTail" && len(x.Common().Args) == 3 {
						tails = append(tails, tcall{x, which(x.Common().Args[1])})
					}
				}
			}
		}
		for _, m := range perVal {
			if m == 3 {
				tested = 3
			}
		}
		if tested != 3 {
			continue
		}
		n++
		if len(tails) == 0 {
			r.ok(rule, fnKey(f)+": compares one number with both markers", p.pos(f.Pos()), "no tail is reset through the one-marker helper setTail here")
			continue
		}
		for i, t := range tails {
			key := fmt.Sprintf("%s: setTail #%d resets both markers the function tests for", fnKey(f), i+1)
			other := false
			for _, u := range tails {
				if u.marker != 0 && u.marker != t.marker && (u.c.Common().Args[0] == t.c.Common().Args[0] || sameVar(u.c.Common().Args[0], t.c.Common().Args[0])) {
					other = true
				}
			}
			switch {
			case t.marker == 0:
				r.bad(rule, key, p.pos(t.c.Pos()), "the marker handed to setTail is not one of the two constants (undecided)")
			case other:
				r.ok(rule, key, p.pos(t.c.Pos()), "the other marker is reset on the same version too")
			default:
				r.bad(rule, key, p.pos(t.c.Pos()), "this function tests its operand for the wildcard and for ∞, so it can hold either, but resets the tail for one marker only: numbers holding the other are left (inc(1.∞.∞) = 2.0.∞, which canon reads as 'no gap' between ^1.2.0 and ~2.0.5)")
			}
		}
	}
	return n
}

// bundleKeyConstructorRule (C18.l BUNDLE-KEY-CONSTRUCTOR): npmRequirements files
// every bundled package under the name mangledName(root, path) and then looks
// up the bundle's parent to attach the requirement to it. The parent's key has
// to come from the same constructor (applied to a prefix of the path) or be the
// root's name; a key put together some other way (cut out of the child's key
// with the package's real name, say) misses the parent when the directory and
// the package name differ (an aliased nested bundle), and the API client then
// builds a graph the in-memory client does not.
func bundleKeyConstructorRule(r *Report, p *Prog, rule string) int {
	f := p.lookupFn("(*resolve.APIClient).npmRequirements")
	if f == nil || f.Blocks == nil {
		r.bad(rule, "(*resolve.APIClient).npmRequirements", "", "function not found: anchor lost")
		return 0
	}
	isBundleMap := func(v ssa.Value) bool {
		m, ok := v.Type().Underlying().(*types.Map)
		if !ok {
			return false
		}
		n, ok := m.Elem().(*types.Named)
		return ok && n.Obj().Name() == "bundle"
	}
	var allowed func(v ssa.Value, d int) bool
	allowed = func(v ssa.Value, d int) bool {
		if d > 6 {
			return false
		}
		switch x := v.(type) {
		case *ssa.Call:
			return strings.HasSuffix(staticCalleeName(x), "resolve.mangledName")
		case *ssa.Phi:
			for _, e := range x.Edges {
				if !allowed(e, d+1) {
					return false
				}
			}
			return true
		case *ssa.UnOp:
			if x.Op == token.MUL {
				return allowed(x.X, d+1)
			}
		case *ssa.FieldAddr:
			return allowed(x.X, d+1)
		case *ssa.Field:
			return allowed(x.X, d+1)
		case *ssa.Parameter:
			return x.Name() == "root"
		case *ssa.Alloc:
			// the spilled parameter: every store to it is the parameter itself
			for _, ref := range *x.Referrers() {
				if st, ok := ref.(*ssa.Store); ok && st.Addr == x {
					if pr, ok := st.Val.(*ssa.Parameter); !ok || pr.Name() != "root" {
						return false
					}
				}
			}
			return true
		}
		return false
	}
	n := 0
	for _, b := range f.Blocks {
		for _, in := range b.Instrs {
			var m, k ssa.Value
			var what string
			switch x := in.(type) {
			case *ssa.MapUpdate:
				m, k, what = x.Map, x.Key, "store"
			case *ssa.Lookup:
				m, k, what = x.X, x.Index, "lookup"
			default:
				continue
			}
			if !isBundleMap(m) {
				continue
			}
			n++
			key := fmt.Sprintf("%s: %s #%d in the table of bundles uses a key made by mangledName or the root's name", fnKey(f), what, n)
			if allowed(k, 0) {
				r.ok(rule, key, p.pos(in.Pos()), "the key is the result of mangledName or the root's name")
			} else {
				r.bad(rule, key, p.pos(in.Pos()), "the table of bundles is filled under mangledName(root, path); this key is put together another way, so it can miss the entry it is meant for (the parent of a nested bundle whose directory and package name differ gets no requirement on it, and the API client's graph differs from the in-memory client's)")
			}
		}
	}
	return n
}

// importDepthFirstRule (C15.h IMPORT-DEPTH-FIRST): Maven builds the effective
// model of an imported BOM, including the BOMs it imports itself, before it
// looks at the next import of the importing POM, and the first declaration of
// a key wins. ProcessDependencies walks the imports with a work list it pops
// from the front; the imports found inside the BOM just read must therefore go
// IN FRONT of the imports still waiting. If they are appended behind, a sibling
// import declared later wins over a nested one declared earlier.
func importDepthFirstRule(r *Report, p *Prog, rule string) int {
	f := p.lookupFn("(*maven.Project).ProcessDependencies")
	if f == nil || f.Blocks == nil {
		r.bad(rule, "(*maven.Project).ProcessDependencies", "", "function not found: anchor lost")
		return 0
	}
	// the work list: a slice phi that is indexed at 0 and re-sliced from 1
	var lists []*ssa.Phi
	for _, b := range f.Blocks {
		for _, in := range b.Instrs {
			phi, ok := in.(*ssa.Phi)
			if !ok {
				continue
			}
			if _, ok := phi.Type().Underlying().(*types.Slice); !ok {
				continue
			}
			front, rest := false, false
			for _, ref := range *phi.Referrers() {
				switch x := ref.(type) {
				case *ssa.IndexAddr:
					if k, ok := x.Index.(*ssa.Const); ok && k.Value != nil && k.Int64() == 0 {
						front = true
					}
				case *ssa.Slice:
					if k, ok := x.Low.(*ssa.Const); ok && k.Value != nil && k.Int64() == 1 && x.High == nil {
						rest = true
					}
				}
			}
			if front && rest {
				lists = append(lists, phi)
			}
		}
	}
	if len(lists) == 0 {
		r.bad(rule, fnKey(f)+": work list of imports", p.pos(f.Pos()), "no slice popped from the front was found: anchor lost")
		return 0
	}
	var fromList func(v ssa.Value, phi *ssa.Phi, d int) bool
	fromList = func(v ssa.Value, phi *ssa.Phi, d int) bool {
		if d > 5 {
			return false
		}
		if v == phi {
			return true
		}
		switch x := v.(type) {
		case *ssa.Slice:
			return fromList(x.X, phi, d+1)
		case *ssa.Phi:
			for _, e := range x.Edges {
				if fromList(e, phi, d+1) {
					return true
				}
			}
		}
		return false
	}
	n := 0
	for _, phi := range lists {
		// values flowing back into the work list, through the phis that merge
		// the continue paths of the loop body
		var feeds []ssa.Value
		seen := map[*ssa.Phi]bool{}
		var walk func(q *ssa.Phi)
		walk = func(q *ssa.Phi) {
			if seen[q] {
				return
			}
			seen[q] = true
			for _, e := range q.Edges {
				if q2, ok := e.(*ssa.Phi); ok {
					walk(q2)
				} else {
					feeds = append(feeds, e)
				}
			}
		}
		walk(phi)
		for _, e := range feeds {
			c, ok := e.(*ssa.Call)
			if !ok {
				continue
			}
			bi, ok := c.Common().Value.(*ssa.Builtin)
			if !ok || bi.Name() != "append" || len(c.Common().Args) != 2 {
				continue
			}
			n++
			key := fmt.Sprintf("%s: imports found inside an imported BOM go in front of the waiting ones (refill #%d)", fnKey(f), n)
			a0, a1 := c.Common().Args[0], c.Common().Args[1]
			switch {
			case fromList(a1, phi, 0) && !fromList(a0, phi, 0):
				r.ok(rule, key, p.pos(c.Pos()), "append(new, waiting...): depth first, as Maven builds the imported model before the next import")
			case fromList(a0, phi, 0):
				r.bad(rule, key, p.pos(c.Pos()), "the imports found inside the BOM just read are appended BEHIND the imports still waiting: a BOM imported later by the importing POM is read before a BOM the earlier import imports itself, and its declaration of a shared key wins, where Maven (first declaration wins, imported model built first) takes the nested one")
			default:
				r.bad(rule, key, p.pos(c.Pos()), "the work list is refilled from values the rule cannot relate to it (undecided)")
			}
		}
	}
	return n
}

// classDecidesRule (C01 CLASS-DECIDES): a comparator of two strings that
// orders them one way when BOTH belong to some class P (both numeric, both all
// digits) and another way otherwise is a total order only if membership of the
// class itself decides the mixed case (every P before every non-P, or the other
// way round). Ordering P-pairs by one key and everything else by another, with
// nothing said about P against non-P, gives cycles (9999999999 < 10000000000 by
// length, 10000000000 < 5a and 5a < 9999999999 as text). For each two-string
// comparator of package semver and each predicate it calls on both operands: a
// return taken only when the predicate holds of both requires a decision on
// the predicate of one operand alone (a constant non-zero return under P(a) or
// under P(b)), or a comparison of P(a) with P(b).
func classDecidesRule(r *Report, p *Prog, rule string) int {
	n := 0
	for _, f := range p.Funcs {
		if f.Pkg == nil || f.Blocks == nil || f.Synthetic != "" || f.Pkg.Pkg.Path() != modPrefix+"semver" {
			continue
		}
		res := f.Signature.Results()
		if res.Len() != 1 {
			continue
		}
		if bt, ok := res.At(0).Type().Underlying().(*types.Basic); !ok || bt.Kind() != types.Int {
			continue
		}
		var sp []*ssa.Parameter
		for _, pr := range f.Params {
			if bt, ok := pr.Type().Underlying().(*types.Basic); ok && bt.Info()&types.IsString != 0 {
				sp = append(sp, pr)
			}
		}
		if len(sp) != 2 {
			continue
		}
		// predicate calls on each operand, by callee
		type pair struct{ a, b *ssa.Call }
		byCallee := map[*ssa.Function]*pair{}
		for _, b := range f.Blocks {
			for _, in := range b.Instrs {
				c, ok := in.(*ssa.Call)
				if !ok {
					continue
				}
				g := c.Common().StaticCallee()
				if g == nil {
					continue
				}
				for _, a := range c.Common().Args {
					for i, pr := range sp {
						if a == ssa.Value(pr) {
							if byCallee[g] == nil {
								byCallee[g] = &pair{}
							}
							if i == 0 && byCallee[g].a == nil {
								byCallee[g].a = c
							}
							if i == 1 && byCallee[g].b == nil {
								byCallee[g].b = c
							}
						}
					}
				}
			}
		}
		from := func(c *ssa.Call) func(ssa.Value) bool {
			return func(v ssa.Value) bool {
				if v == ssa.Value(c) {
					return true
				}
				if e, ok := v.(*ssa.Extract); ok && e.Tuple == ssa.Value(c) {
					return true
				}
				return false
			}
		}
		// T(block): predicate calls whose truth dominates the block
		holds := func(c *ssa.Call, at *ssa.BasicBlock) bool {
			for _, g := range f.Blocks {
				if len(g.Instrs) == 0 {
					continue
				}
				ifi, ok := g.Instrs[len(g.Instrs)-1].(*ssa.If)
				if !ok {
					continue
				}
				// the condition is the predicate itself (not a comparison of two)
				cond := ifi.Cond
				if !from(c)(cond) {
					continue
				}
				if s := g.Succs[0]; (s == at || s.Dominates(at)) && len(s.Preds) == 1 {
					return true
				}
			}
			return false
		}
		var names []*ssa.Function
		for g := range byCallee {
			names = append(names, g)
		}
		sort.Slice(names, func(i, j int) bool { return names[i].String() < names[j].String() })
		for _, g := range names {
			pr := byCallee[g]
			if pr.a == nil || pr.b == nil {
				continue
			}
			// only predicates: the result (or one component) is a bool used as a branch condition
			isPred := false
			for _, bb := range f.Blocks {
				if len(bb.Instrs) == 0 {
					continue
				}
				if ifi, ok := bb.Instrs[len(bb.Instrs)-1].(*ssa.If); ok && (from(pr.a)(ifi.Cond) || from(pr.b)(ifi.Cond)) {
					isPred = true
				}
			}
			if !isPred {
				// the predicate values may be compared with each other
				continue
			}
			var both []*ssa.Return
			classDecided := false
			for _, bb := range f.Blocks {
				if len(bb.Instrs) == 0 {
					continue
				}
				switch x := bb.Instrs[len(bb.Instrs)-1].(type) {
				case *ssa.Return:
					ha, hb := holds(pr.a, bb), holds(pr.b, bb)
					if ha && hb {
						both = append(both, x)
					}
					if ha != hb && len(x.Results) == 1 {
						if _, may := mayBeZero(x.Results[0], nil, bb); !may {
							classDecided = true
						}
					}
				case *ssa.If:
					if bo, ok := x.Cond.(*ssa.BinOp); ok && (bo.Op == token.NEQ || bo.Op == token.EQL) {
						if (from(pr.a)(bo.X) && from(pr.b)(bo.Y)) || (from(pr.a)(bo.Y) && from(pr.b)(bo.X)) {
							classDecided = true
						}
					}
				}
			}
			if len(both) == 0 {
				continue
			}
			n++
			key := fmt.Sprintf("%s: pairs that both satisfy %s are ordered apart only if the predicate decides the mixed case", fnKey(f), g.Name())
			if classDecided {
				r.ok(rule, key, p.pos(both[0].Pos()), "a decision is taken on the predicate of one operand alone, or the two predicate values are compared")
			} else {
				r.bad(rule, key, p.pos(both[0].Pos()), fmt.Sprintf("strings that both satisfy %s are ordered by a key of their own here, and nothing orders a string that satisfies it against one that does not: the two orders disagree on mixed triples (1.0.0-9999999999 < 1.0.0-10000000000 by length, 10000000000 < 5a and 5a < 9999999999 as text), so the comparison is not transitive", g.Name()))
			}
		}
	}
	return n
}

// mergeAppendOwnRule (C15.i MERGE-APPEND-OWN): the merge methods of package
// maven combine a child's list with its parent's. The result is stored in the
// child, so it must not be built by appending to the PARENT's slice: append
// writes into the spare capacity of its first argument, which the parent (and
// every other child merged with the same parent value) still owns. Every
// append whose result is stored into a field of the receiver takes as its
// first argument the receiver's own slice or a fresh one, never a slice read
// from another parameter.
func mergeAppendOwnRule(r *Report, p *Prog, rule string) int {
	n := 0
	for _, f := range p.Funcs {
		if f.Pkg == nil || f.Blocks == nil || f.Synthetic != "" || f.Pkg.Pkg.Path() != modPrefix+"maven" {
			continue
		}
		if f.Signature.Recv() == nil || len(f.Params) < 2 {
			continue
		}
		recv := f.Params[0]
		var fromParam func(v ssa.Value, d int) *ssa.Parameter
		fromParam = func(v ssa.Value, d int) *ssa.Parameter {
			if d > 6 {
				return nil
			}
			switch x := v.(type) {
			case *ssa.Parameter:
				return x
			case *ssa.UnOp:
				if x.Op == token.MUL {
					return fromParam(x.X, d+1)
				}
			case *ssa.FieldAddr:
				return fromParam(x.X, d+1)
			case *ssa.Field:
				return fromParam(x.X, d+1)
			case *ssa.Slice:
				return fromParam(x.X, d+1)
			case *ssa.Alloc:
				// a spilled by-value parameter
				for _, ref := range *x.Referrers() {
					if st, ok := ref.(*ssa.Store); ok && st.Addr == x {
						if pr, ok := st.Val.(*ssa.Parameter); ok {
							return pr
						}
					}
				}
			}
			return nil
		}
		per := 0
		for _, b := range f.Blocks {
			for _, in := range b.Instrs {
				st, ok := in.(*ssa.Store)
				if !ok {
					continue
				}
				c, ok := st.Val.(*ssa.Call)
				if !ok {
					continue
				}
				bi, ok := c.Common().Value.(*ssa.Builtin)
				if !ok || bi.Name() != "append" || len(c.Common().Args) < 1 {
					continue
				}
				if fromParam(st.Addr, 0) != recv {
					continue
				}
				n++
				per++
				key := fmt.Sprintf("%s: list #%d stored in the receiver is appended to the receiver's own slice", fnKey(f), per)
				src := fromParam(c.Common().Args[0], 0)
				if src != nil && src != recv {
					r.bad(rule, key, p.pos(c.Pos()), fmt.Sprintf("the list kept in the receiver is built by appending to a slice of the parameter %s: append writes into that slice's spare capacity, which its owner and every other value merged with it share (merging one parent into two children lets the second overwrite the first child's own entries)", src.Name()))
				} else {
					r.ok(rule, key, p.pos(c.Pos()), "the first argument of append is the receiver's own slice or a fresh one")
				}
			}
		}
	}
	return n
}

// scopeAtRule (C18.m SCOPE-AT): npm names can begin with @ (the scope), so an
// index of "@" found in a name@version text is a separator only when it is not
// 0. Where package resolve (and the schema reader) split at an index of "@",
// the index is compared in a way that tells 0 from a hit: i > 0, i <= 0, or an
// explicit i == 0 case. A bare i >= 0 (or i < 0, i != -1) takes the scope's @
// for the separator: "npm:@scope/real" becomes a requirement on the package "".
func scopeAtRule(r *Report, p *Prog, rule string) int {
	n := 0
	for _, f := range p.Funcs {
		if f.Pkg == nil || f.Blocks == nil || f.Synthetic != "" {
			continue
		}
		if pp := f.Pkg.Pkg.Path(); pp != modPrefix+"resolve" && pp != modPrefix+"resolve/schema" && pp != modPrefix+"resolve/npm" {
			continue
		}
		per := 0
		for _, b := range f.Blocks {
			for _, in := range b.Instrs {
				c, ok := in.(*ssa.Call)
				if !ok {
					continue
				}
				name := staticCalleeName(c)
				if name != "strings.Index" && name != "strings.LastIndex" && name != "strings.IndexByte" && name != "strings.LastIndexByte" {
					continue
				}
				k, ok := c.Common().Args[1].(*ssa.Const)
				if !ok || k.Value == nil {
					continue
				}
				isAt := false
				switch k.Value.Kind() {
				case constant.String:
					isAt = constant.StringVal(k.Value) == "@"
				case constant.Int:
					v, _ := constant.Int64Val(k.Value)
					isAt = v == '@'
				}
				if !isAt {
					continue
				}
				n++
				per++
				key := fmt.Sprintf("%s: index of \"@\" #%d tells a leading @ from a separator", fnKey(f), per)
				tells, any := false, false
				var visit func(v ssa.Value, d int)
				visit = func(v ssa.Value, d int) {
					if d > 3 {
						return
					}
					for _, ref := range *v.Referrers() {
						switch x := ref.(type) {
						case *ssa.BinOp:
							var other ssa.Value = x.Y
							op := x.Op
							if x.Y == v {
								other = x.X
								// mirror the operator
								switch op {
								case token.LSS:
									op = token.GTR
								case token.GTR:
									op = token.LSS
								case token.LEQ:
									op = token.GEQ
								case token.GEQ:
									op = token.LEQ
								}
							}
							if x.Op == token.ADD || x.Op == token.SUB {
								continue
							}
							ck, ok := other.(*ssa.Const)
							if !ok || ck.Value == nil || ck.Value.Kind() != constant.Int {
								continue
							}
							cv, _ := constant.Int64Val(ck.Value)
							any = true
							switch {
							case cv == 0 && (op == token.GTR || op == token.LEQ || op == token.EQL || op == token.NEQ):
								tells = true
							case cv == 1 && (op == token.GEQ || op == token.LSS):
								tells = true
							}
						case *ssa.Phi:
							visit(x, d+1)
						}
					}
				}
				visit(c, 0)
				switch {
				case tells:
					r.ok(rule, key, p.pos(c.Pos()), "the index is compared in a way that tells 0 (the scope's @) from a hit")
				case !any:
					r.ok(rule, key, p.pos(c.Pos()), "the index is not tested here")
				default:
					r.bad(rule, key, p.pos(c.Pos()), "the index of \"@\" is accepted at position 0, where the @ is the scope of an npm name and not the name@version separator: the alias \"npm:@scope/real\" becomes a requirement on the package \"\" with the requirement \"scope/real\"")
				}
			}
		}
	}
	return n
}

// mergeTaggedRule (C09.n MERGE-TAGGED): a bound that carries prerelease tags
// admits the prereleases of its own numbers (span.contains). When canon folds
// one span into another the bound in the middle disappears, and with it what
// it admitted: [1.0.0-rc:2.0.0-rc] ∪ [2.0.0-rc:3.0.0-rc] = [1.0.0-rc:3.0.0-rc]
// no longer matches 2.0.0-rc, which both operands match. The step that folds a
// span away (the store that marks it merged) must therefore be behind a test of
// the length of a bound's tags; testing only that the tags are EQUAL lets
// equally tagged spans through.
func mergeTaggedRule(r *Report, p *Prog, rule string) int {
	f := p.lookupFn("semver.canon")
	if f == nil || f.Blocks == nil {
		r.bad(rule, "semver.canon", "", "function not found: anchor lost")
		return 0
	}
	tagLen := func(v ssa.Value) bool {
		call, ok := v.(*ssa.Call)
		if !ok {
			return false
		}
		bi, ok := call.Common().Value.(*ssa.Builtin)
		if !ok || bi.Name() != "len" {
			return false
		}
		u, ok := call.Common().Args[0].(*ssa.UnOp)
		if !ok || u.Op != token.MUL {
			return false
		}
		fa, ok := u.X.(*ssa.FieldAddr)
		if !ok {
			return false
		}
		pt, ok := fa.X.Type().Underlying().(*types.Pointer)
		if !ok {
			return false
		}
		st, ok := pt.Elem().Underlying().(*types.Struct)
		return ok && st.Field(fa.Field).Name() == "pre"
	}
	n := 0
	for _, b := range f.Blocks {
		for _, in := range b.Instrs {
			st, ok := in.(*ssa.Store)
			if !ok {
				continue
			}
			ia, ok := st.Addr.(*ssa.IndexAddr)
			if !ok {
				continue
			}
			k, ok := st.Val.(*ssa.Const)
			if !ok || k.Value == nil || k.Value.Kind() != constant.Bool || !constant.BoolVal(k.Value) {
				continue
			}
			_ = ia
			n++
			key := fmt.Sprintf("%s: fold #%d of a span into another is behind a test of the bounds' tags", fnKey(f), n)
			guarded := false
			for _, g := range f.Blocks {
				if len(g.Instrs) == 0 || g == b || !g.Dominates(b) {
					continue
				}
				if ifi, ok := g.Instrs[len(g.Instrs)-1].(*ssa.If); ok && condDerives(ifi.Cond, 0, tagLen) {
					guarded = true
				}
			}
			if guarded {
				r.ok(rule, key, p.pos(st.Pos()), "dominated by a branch on the number of prerelease tags of a bound")
			} else {
				r.bad(rule, key, p.pos(st.Pos()), "a span is folded into another without asking whether its bounds carry prerelease tags (only whether the tags are equal): the bound in the middle admitted the prereleases of its own numbers, and the merged span does not (\">=1.0.0-rc <=2.0.0-rc\" ∪ \">=2.0.0-rc <=3.0.0-rc\" no longer matches 2.0.0-rc)")
			}
		}
	}
	return n
}

// boolCaseRule (C15.j BOOL-CASE): the boolean fields of a POM (optional,
// activeByDefault, inherited, enabled) are strings with two writers: the XML
// decoder, which lower-cases a literal, and interpolate, which stores the
// value of a property as it was written. Maven reads them with
// Boolean.parseBoolean, which ignores case. The reader Boolean() must
// therefore not compare the text with a non-empty literal by ==, unless
// interpolate folds what it stores: <optional>${opt}</optional> with
// <opt>TRUE</opt> came out non-optional.
func boolCaseRule(r *Report, p *Prog, rule string) int {
	n := 0
	for _, f := range p.Funcs {
		if f.Pkg == nil || f.Blocks == nil || f.Synthetic != "" || f.Pkg.Pkg.Path() != modPrefix+"maven" {
			continue
		}
		if f.Name() != "Boolean" || f.Signature.Recv() == nil {
			continue
		}
		recvT := f.Signature.Recv().Type()
		// the sibling writer
		var interp *ssa.Function
		for _, g := range p.Funcs {
			if g.Pkg == f.Pkg && g.Name() == "interpolate" && g.Signature.Recv() != nil && types.Identical(g.Signature.Recv().Type(), recvT) {
				interp = g
			}
		}
		if interp == nil {
			continue
		}
		n++
		key := fmt.Sprintf("%s: reads the text whatever its case", fnKey(f))
		folds := false
		for _, b := range interp.Blocks {
			for _, in := range b.Instrs {
				if c, ok := in.(*ssa.Call); ok && (staticCalleeName(c) == "strings.ToLower") {
					folds = true
				}
			}
		}
		var lit string
		var at token.Pos
		for _, b := range f.Blocks {
			for _, in := range b.Instrs {
				bo, ok := in.(*ssa.BinOp)
				if !ok || (bo.Op != token.EQL && bo.Op != token.NEQ) {
					continue
				}
				for _, o := range []ssa.Value{bo.X, bo.Y} {
					if k, ok := o.(*ssa.Const); ok && k.Value != nil && k.Value.Kind() == constant.String && constant.StringVal(k.Value) != "" {
						lit, at = constant.StringVal(k.Value), bo.Pos()
					}
				}
			}
		}
		switch {
		case lit == "":
			r.ok(rule, key, p.pos(f.Pos()), "no comparison with a non-empty literal by ==")
		case folds:
			r.ok(rule, key, p.pos(at), "compared with a literal, and interpolate lower-cases what it stores")
		default:
			r.bad(rule, key, p.pos(at), fmt.Sprintf("the text is compared with %q by ==, but interpolate stores the value of a property as written (only the XML decoder lower-cases): a value TRUE that comes in through a property reads as false, where Maven's Boolean.parseBoolean ignores case", lit))
		}
	}
	return n
}

// letterRangeRule (C11.f LETTER-RANGE): the hand-written case folds and class
// tests of package semver compare a byte with the ends of 'A'..'Z', 'a'..'z' or
// '0'..'9'. A test that leaves out the end letter itself (c < 'Z', or the
// one-comparison form c-'A' < 'Z'-'A') folds A..Y only: a NuGet tag holding a Z
// then compares differently from its printed, lower-cased form, and the set
// parsed back from the text matches differently. Every comparison with an end of
// one of the three ranges is of the inclusive kind (>= lower end, <= upper end,
// or their negations), and a subtract-and-compare form spans exactly 26 (10).
func letterRangeRule(r *Report, p *Prog, rule string) int {
	lower := map[int64]int{'A': 26, 'a': 26, '0': 10}
	upper := map[int64]bool{'Z': true, 'z': true, '9': true}
	n := 0
	for _, f := range p.Funcs {
		if f.Pkg == nil || f.Blocks == nil || f.Synthetic != "" || f.Pkg.Pkg.Path() != modPrefix+"semver" {
			continue
		}
		per := 0
		for _, b := range f.Blocks {
			for _, in := range b.Instrs {
				bo, ok := in.(*ssa.BinOp)
				if !ok {
					continue
				}
				op := bo.Op
				if op != token.LSS && op != token.LEQ && op != token.GTR && op != token.GEQ {
					continue
				}
				x, y := bo.X, bo.Y
				kc, isK := y.(*ssa.Const)
				if !isK {
					// constant on the left: mirror
					if kl, ok := x.(*ssa.Const); ok {
						kc, isK = kl, true
						x = y
						switch op {
						case token.LSS:
							op = token.GTR
						case token.GTR:
							op = token.LSS
						case token.LEQ:
							op = token.GEQ
						case token.GEQ:
							op = token.LEQ
						}
					}
				}
				if !isK || kc.Value == nil || kc.Value.Kind() != constant.Int {
					continue
				}
				bt, ok := x.Type().Underlying().(*types.Basic)
				if !ok || bt.Info()&types.IsInteger == 0 || (bt.Kind() != types.Uint8 && bt.Kind() != types.Int32) {
					continue // bytes and runes only
				}
				k, _ := constant.Int64Val(kc.Value)
				// subtract-and-compare
				if sub, ok := x.(*ssa.BinOp); ok && sub.Op == token.SUB {
					if base, ok := sub.Y.(*ssa.Const); ok && base.Value != nil && base.Value.Kind() == constant.Int {
						bv, _ := constant.Int64Val(base.Value)
						if want, ok := lower[bv]; ok {
							n++
							per++
							key := fmt.Sprintf("%s: range test #%d spans the whole range", fnKey(f), per)
							width := int64(-1)
							switch op {
							case token.LSS, token.GEQ:
								width = k
							case token.LEQ, token.GTR:
								width = k + 1
							}
							if width == int64(want) {
								r.ok(rule, key, p.pos(bo.Pos()), fmt.Sprintf("%d values from %q", width, rune(bv)))
							} else {
								r.bad(rule, key, p.pos(bo.Pos()), fmt.Sprintf("the one-comparison range test starting at %q accepts %d values, not %d: the last letter of the range is left out (an upper-case Z in a NuGet tag is not folded, so the tag compares differently from its printed, lower-cased form)", rune(bv), width, want))
							}
						}
					}
					continue
				}
				_, isLower := lower[k]
				if !isLower && !upper[k] {
					continue
				}
				n++
				per++
				key := fmt.Sprintf("%s: range test #%d includes the end %q", fnKey(f), per, rune(k))
				good := (isLower && (op == token.GEQ || op == token.LSS)) || (upper[k] && (op == token.LEQ || op == token.GTR))
				if good {
					r.ok(rule, key, p.pos(bo.Pos()), "the comparison is of the inclusive kind")
				} else {
					r.bad(rule, key, p.pos(bo.Pos()), fmt.Sprintf("a byte is compared with the end %q of a letter or digit range in a way that leaves the end itself out: the range test misses that one character", rune(k)))
				}
			}
		}
	}
	return n
}

// constraintImpliesVersionsRule (C04.9 CONSTRAINT-IMPLIES-VERSIONS): a parsed
// marker comparison carries a semver constraint when it "appears to be a
// version comparison"; Eval then hands the LEFT operand's parsed version to
// Constraint.MatchVersion, which dereferences it. The invariant "constraint set
// implies both operands have a parsed version" is established in one place, the
// store of the constraint in parseMarkerExpr, which must be behind nil tests of
// the version of two different operands. With the left test gone,
// platform_release >= "9.0" parses, and Resolve panics when it evaluates it.
func constraintImpliesVersionsRule(r *Report, p *Prog, rule string) int {
	n := 0
	for _, f := range p.Funcs {
		if f.Pkg == nil || f.Blocks == nil || f.Synthetic != "" || f.Pkg.Pkg.Path() != modPrefix+"resolve/pypi" {
			continue
		}
		for _, b := range f.Blocks {
			for _, in := range b.Instrs {
				st, ok := in.(*ssa.Store)
				if !ok {
					continue
				}
				fa, ok := st.Addr.(*ssa.FieldAddr)
				if !ok {
					continue
				}
				pt, ok := fa.X.Type().Underlying().(*types.Pointer)
				if !ok || !strings.HasSuffix(pt.Elem().String(), "pypi.markerExpr") {
					continue
				}
				if pt.Elem().Underlying().(*types.Struct).Field(fa.Field).Name() != "constraint" {
					continue
				}
				if k, ok := st.Val.(*ssa.Const); ok && k.IsNil() {
					continue
				}
				n++
				key := fmt.Sprintf("%s: constraint #%d is stored only when both operands have a parsed version", fnKey(f), n)
				var bases []ssa.Value
				for _, g := range f.Blocks {
					if len(g.Instrs) == 0 || !(g.Dominates(b)) || g == b {
						continue
					}
					ifi, ok := g.Instrs[len(g.Instrs)-1].(*ssa.If)
					if !ok {
						continue
					}
					bo, ok := ifi.Cond.(*ssa.BinOp)
					if !ok || (bo.Op != token.NEQ && bo.Op != token.EQL) {
						continue
					}
					// the non-nil side must be the one leading to the store
					side := g.Succs[0]
					if bo.Op == token.EQL {
						side = g.Succs[1]
					}
					if !(side == b || side.Dominates(b)) {
						continue
					}
					var ptr ssa.Value
					if c, ok := bo.Y.(*ssa.Const); ok && c.IsNil() {
						ptr = bo.X
					} else if c, ok := bo.X.(*ssa.Const); ok && c.IsNil() {
						ptr = bo.Y
					}
					var base ssa.Value
					var fieldName string
					switch x := ptr.(type) {
					case *ssa.UnOp:
						if a, ok := x.X.(*ssa.FieldAddr); ok && x.Op == token.MUL {
							if pp, ok := a.X.Type().Underlying().(*types.Pointer); ok {
								if s, ok := pp.Elem().Underlying().(*types.Struct); ok {
									base, fieldName = a.X, s.Field(a.Field).Name()
								}
							}
						}
					case *ssa.Field:
						if s, ok := x.X.Type().Underlying().(*types.Struct); ok {
							base, fieldName = x.X, s.Field(x.Field).Name()
						}
					}
					if base == nil || fieldName != "version" {
						continue
					}
					dup := false
					for _, o := range bases {
						if o == base {
							dup = true
						}
					}
					if !dup {
						bases = append(bases, base)
					}
				}
				if len(bases) >= 2 {
					r.ok(rule, key, p.pos(st.Pos()), "behind non-nil tests of the parsed version of two operands")
				} else {
					r.bad(rule, key, p.pos(st.Pos()), fmt.Sprintf("the constraint of a marker comparison is stored behind a non-nil test of the parsed version of %d operand(s), not both: Eval hands the left operand's version to Constraint.MatchVersion whenever the constraint is set, so platform_release >= \"9.0\" (left side not a version) makes Resolve panic on a nil *semver.Version", len(bases)))
				}
			}
		}
	}
	return n
}

// clearOnAllPathsRule (C12.n TAGS-ALL-OR-NONE): opVersionToSpan builds the upper
// bound of a span from a copy of the operand; for the operators whose upper
// bound is a bumped version (^, ~, >, ...) the copy's prerelease tags are dropped
// with clearPre before the span is made, for the others they are kept. A call of
// newSpan that is reached by some paths on which the upper bound's tags were
// cleared and by others on which they were not is a contradiction: one of the
// two is wrong (with the clear moved under "if minor != 0", ^0.0.3-beta keeps
// the tag on its upper bound and collapses to the single version 0.0.3-beta).
func clearOnAllPathsRule(r *Report, p *Prog, rule string) int {
	f := p.lookupFn("semver.opVersionToSpan")
	if f == nil || f.Blocks == nil {
		r.bad(rule, "semver.opVersionToSpan", "", "function not found: anchor lost")
		return 0
	}
	type site struct {
		b   *ssa.BasicBlock
		idx int
		c   *ssa.Call
	}
	var clears, spans []site
	for _, b := range f.Blocks {
		for i, in := range b.Instrs {
			c, ok := in.(*ssa.Call)
			if !ok {
				continue
			}
			switch staticCalleeName(c) {
			case "(*semver.Version).clearPre":
				clears = append(clears, site{b, i, c})
			case "semver.newSpan":
				spans = append(spans, site{b, i, c})
			}
		}
	}
	// the entries of the operator cases: true successors of the tests of the
	// operator parameter against a constant
	// the switch starts after the upper bound is made (hi := lo.copy())
	var copyBlock *ssa.BasicBlock
	for _, b := range f.Blocks {
		for _, in := range b.Instrs {
			if c, ok := in.(*ssa.Call); ok && staticCalleeName(c) == "(*semver.Version).copy" && copyBlock == nil {
				copyBlock = b
			}
		}
	}
	if copyBlock == nil {
		r.bad(rule, fnKey(f)+": upper bound", p.pos(f.Pos()), "the copy that makes the upper bound was not found: anchor lost")
		return 0
	}
	var entries []*ssa.BasicBlock
	for _, b := range f.Blocks {
		if len(b.Instrs) == 0 || !(b == copyBlock || copyBlock.Dominates(b)) {
			continue
		}
		ifi, ok := b.Instrs[len(b.Instrs)-1].(*ssa.If)
		if !ok {
			continue
		}
		bo, ok := ifi.Cond.(*ssa.BinOp)
		if !ok || bo.Op != token.EQL {
			continue
		}
		if pr, ok := bo.X.(*ssa.Parameter); ok && pr == f.Params[0] {
			if _, ok := bo.Y.(*ssa.Const); ok {
				entries = append(entries, b.Succs[0])
			}
		}
	}
	if len(entries) < 5 {
		r.bad(rule, fnKey(f)+": operator cases", p.pos(f.Pos()), fmt.Sprintf("only %d cases of the operator switch were recognised: anchor lost", len(entries)))
		return 0
	}
	n := 0
	for ei, entry := range entries {
		for si, s := range spans {
			lo, hi := s.c.Common().Args[0], s.c.Common().Args[2]
			if lo == hi {
				continue
			}
			if !(entry == s.b || reaches(entry, s.b, nil)) {
				continue
			}
			cb := map[*ssa.BasicBlock]int{}
			for _, c := range clears {
				if a := c.c.Common().Args[0]; a == hi || sameVar(a, hi) {
					if old, ok := cb[c.b]; !ok || c.idx < old {
						cb[c.b] = c.idx
					}
				}
			}
			clearedHere := false
			if i, ok := cb[s.b]; ok && i < s.idx {
				clearedHere = true
			}
			without := false
			if !clearedHere {
				seen := map[*ssa.BasicBlock]bool{}
				var walk func(b *ssa.BasicBlock)
				walk = func(b *ssa.BasicBlock) {
					if seen[b] || without {
						return
					}
					seen[b] = true
					if b == s.b {
						without = true
						return
					}
					if _, ok := cb[b]; ok {
						return
					}
					for _, nx := range b.Succs {
						walk(nx)
					}
				}
				walk(entry)
			}
			with := clearedHere
			for b := range cb {
				if b != s.b && (b == entry || reaches(entry, b, nil)) && reaches(b, s.b, nil) {
					with = true
				}
			}
			if !with {
				continue
			}
			n++
			key := fmt.Sprintf("%s: operator case #%d, span #%d: the upper bound's tags are cleared on all paths or on none", fnKey(f), ei+1, si+1)
			if without {
				r.bad(rule, key, p.pos(s.c.Pos()), "within one operator, this span is made after clearPre on its upper bound along some paths and without it along others: for some operands the upper bound keeps the operand's prerelease tags (^0.0.3-beta becomes the single version 0.0.3-beta instead of [0.0.3-beta:0.0.3])")
			} else {
				r.ok(rule, key, p.pos(s.c.Pos()), "every path of this operator to the call clears the tags of the upper bound first")
			}
		}
	}
	return n
}
