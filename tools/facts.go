package main

// Guard facts: boolean conditions known to hold at a syntax node because of
// enclosing or preceding control flow (AST-level, conservative).

import (
	"go/ast"
	"go/token"
	"go/types"
	"strings"
)

type parentMap map[ast.Node]ast.Node

func buildParents(root ast.Node) parentMap {
	pm := parentMap{}
	var stack []ast.Node
	ast.Inspect(root, func(n ast.Node) bool {
		if n == nil {
			stack = stack[:len(stack)-1]
			return true
		}
		if len(stack) > 0 {
			pm[n] = stack[len(stack)-1]
		}
		stack = append(stack, n)
		return true
	})
	return pm
}

var negOp = map[token.Token]token.Token{
	token.LSS: token.GEQ, token.GEQ: token.LSS, token.GTR: token.LEQ, token.LEQ: token.GTR,
	token.EQL: token.NEQ, token.NEQ: token.EQL,
}

var impliedOps = map[token.Token][]token.Token{
	token.EQL: {token.GEQ, token.LEQ},
	token.LSS: {token.LEQ, token.NEQ},
	token.GTR: {token.GEQ, token.NEQ},
}

// condFacts splits a condition known to be true (or false) into atomic facts.
func condFacts(e ast.Expr, truth bool, out *[]ast.Expr, strs *[]string) {
	e = ast.Unparen(e)
	switch x := e.(type) {
	case *ast.BinaryExpr:
		if x.Op == token.LAND && truth {
			condFacts(x.X, true, out, strs)
			condFacts(x.Y, true, out, strs)
			return
		}
		if x.Op == token.LOR && !truth {
			condFacts(x.X, false, out, strs)
			condFacts(x.Y, false, out, strs)
			return
		}
		if x.Op == token.LAND || x.Op == token.LOR {
			// a disjunction gives no atomic fact; keep it whole
			s := types.ExprString(e)
			if !truth {
				s = "!(" + s + ")"
			}
			*out = append(*out, e)
			*strs = append(*strs, s)
			return
		}
		if n, ok := negOp[x.Op]; ok {
			op := x.Op
			if !truth {
				op = n
			}
			*out = append(*out, e)
			*strs = append(*strs, types.ExprString(x.X)+" "+op.String()+" "+types.ExprString(x.Y))
			// weaker facts implied by this one (a == b gives a >= b and a <= b, ...)
			for _, w := range impliedOps[op] {
				*out = append(*out, e)
				*strs = append(*strs, types.ExprString(x.X)+" "+w.String()+" "+types.ExprString(x.Y))
			}
			return
		}
	case *ast.UnaryExpr:
		if x.Op == token.NOT {
			condFacts(x.X, !truth, out, strs)
			return
		}
	}
	s := types.ExprString(e)
	if !truth {
		s = "!" + s
	}
	*out = append(*out, e)
	*strs = append(*strs, s)
}

// terminates reports whether a block always leaves the enclosing statement
// list: its last statement is return, continue, goto, panic or break.
func terminates(b *ast.BlockStmt, pm parentMap) bool {
	if b == nil || len(b.List) == 0 {
		return false
	}
	switch s := b.List[len(b.List)-1].(type) {
	case *ast.ReturnStmt:
		return true
	case *ast.BranchStmt:
		if s.Tok == token.CONTINUE || s.Tok == token.GOTO {
			return true
		}
		if s.Tok == token.BREAK {
			// break leaves the innermost for/switch/select (or the labelled
			// statement): the statements that follow the guard in the same
			// list are skipped either way
			return true
		}
	case *ast.ExprStmt:
		if call, ok := s.X.(*ast.CallExpr); ok {
			if id, ok := call.Fun.(*ast.Ident); ok && id.Name == "panic" {
				return true
			}
		}
	case *ast.IfStmt:
		if s.Else != nil {
			if eb, ok := s.Else.(*ast.BlockStmt); ok {
				return terminates(s.Body, pm) && terminates(eb, pm)
			}
		}
	}
	return false
}

type guardFact struct {
	text string
	end  token.Pos // position after which the fact is established
	expr ast.Expr
}

// guardFactsAt collects facts holding at node n inside function body fn.
func guardFactsAt(n ast.Node, pm parentMap) []guardFact {
	var facts []guardFact
	add := func(e ast.Expr, truth bool, end token.Pos) {
		var es []ast.Expr
		var ss []string
		condFacts(e, truth, &es, &ss)
		for i := range es {
			facts = append(facts, guardFact{ss[i], end, es[i]})
		}
	}
	child := n
	for p := pm[n]; p != nil; child, p = p, pm[p] {
		switch x := p.(type) {
		case *ast.FuncLit, *ast.FuncDecl:
			// facts of an enclosing function do not carry into a closure body
			// except those about variables never reassigned; stop here.
			return validFacts(facts, n, pm)
		case *ast.BinaryExpr:
			if x.Y == child {
				if x.Op == token.LAND {
					add(x.X, true, x.X.End())
				} else if x.Op == token.LOR {
					add(x.X, false, x.X.End())
				}
			}
		case *ast.IfStmt:
			if x.Body == child {
				add(x.Cond, true, x.Cond.End())
			} else if x.Else == child {
				add(x.Cond, false, x.Cond.End())
			}
		case *ast.ForStmt:
			if x.Body == child && x.Cond != nil {
				add(x.Cond, true, x.Cond.End())
			}
		case *ast.CaseClause:
			// switch { case cond: ... } — cond holds in the body; earlier cases are false
			if sw, ok := pm[pm[p]].(*ast.SwitchStmt); ok && sw.Tag == nil {
				inBody := false
				for _, st := range x.Body {
					if st == child {
						inBody = true
					}
				}
				if inBody {
					if len(x.List) == 1 {
						add(x.List[0], true, x.List[0].End())
					}
					for _, other := range sw.Body.List {
						oc := other.(*ast.CaseClause)
						if oc == x {
							break
						}
						for _, c := range oc.List {
							if len(oc.List) == 1 {
								add(c, false, c.End())
							}
						}
					}
				}
			}
		case *ast.BlockStmt:
			for _, st := range x.List {
				if st == child {
					break
				}
				collectTerminatingIf(st, pm, add)
			}
		}
		// statements listed in a case clause body
		if cc, ok := p.(*ast.CaseClause); ok {
			for _, st := range cc.Body {
				if st == child {
					break
				}
				collectTerminatingIf(st, pm, add)
			}
		}
	}
	return validFacts(facts, n, pm)
}

func collectTerminatingIf(st ast.Stmt, pm parentMap, add func(ast.Expr, bool, token.Pos)) {
	is, ok := st.(*ast.IfStmt)
	if !ok {
		return
	}
	for is != nil {
		if !terminates(is.Body, pm) {
			return
		}
		add(is.Cond, false, is.End())
		switch e := is.Else.(type) {
		case *ast.IfStmt:
			is = e
		default:
			return
		}
	}
}

// validFacts drops facts whose variables are assigned between the point the
// fact was established and the node (or anywhere in a loop that contains the
// node but not the guard).
func validFacts(facts []guardFact, n ast.Node, pm parentMap) []guardFact {
	// the enclosing function body
	var fnBody ast.Node
	for p := pm[n]; p != nil; p = pm[p] {
		if fl, ok := p.(*ast.FuncLit); ok {
			fnBody = fl.Body
			break
		}
		if fd, ok := p.(*ast.FuncDecl); ok {
			fnBody = fd.Body
			break
		}
	}
	if fnBody == nil {
		return nil
	}
	// loops containing n
	var loops []ast.Node
	for p := pm[n]; p != nil && p != fnBody; p = pm[p] {
		switch p.(type) {
		case *ast.ForStmt, *ast.RangeStmt:
			loops = append(loops, p)
		}
	}
	type asg struct {
		name string
		pos  token.Pos
	}
	var asgs []asg
	ast.Inspect(fnBody, func(x ast.Node) bool {
		switch s := x.(type) {
		case *ast.AssignStmt:
			for _, l := range s.Lhs {
				asgs = append(asgs, asg{types.ExprString(l), s.End()})
			}
		case *ast.IncDecStmt:
			asgs = append(asgs, asg{types.ExprString(s.X), s.End()})
		case *ast.RangeStmt:
			if s.Key != nil {
				asgs = append(asgs, asg{types.ExprString(s.Key), s.Pos()})
			}
			if s.Value != nil {
				asgs = append(asgs, asg{types.ExprString(s.Value), s.Pos()})
			}
		}
		return true
	})
	var out []guardFact
	for _, f := range facts {
		ok := true
		vars := map[string]bool{}
		ast.Inspect(f.expr, func(x ast.Node) bool {
			switch v := x.(type) {
			case *ast.Ident:
				vars[v.Name] = true
			case *ast.SelectorExpr:
				vars[types.ExprString(v)] = true
			}
			return true
		})
		for _, a := range asgs {
			hit := false
			for v := range vars {
				if a.name == v || strings.HasPrefix(v, a.name+".") {
					hit = true
				}
			}
			if !hit {
				continue
			}
			if a.pos > f.end && a.pos < n.Pos() {
				ok = false
			}
			for _, l := range loops {
				// loop contains n but was entered after the guard: any assignment inside it invalidates
				if l.Pos() > f.end && a.pos >= l.Pos() && a.pos <= l.End() {
					ok = false
				}
			}
		}
		if ok {
			out = append(out, f)
		}
	}
	return out
}
