package main

import (
	"fmt"
	"go/ast"
	"go/constant"
	"go/token"
	"go/types"
	"sort"
	"strings"

	"golang.org/x/tools/go/ssa"
)

// coverExclusions: fields that are representation, not identity/order, with the reason.
var coverExclusions = map[string]map[string]string{
	"semver.Version": {
		"str":          "original text; two spellings of one version must compare equal",
		"build":        "build metadata never changes the result (C01.b checks it is never read)",
		"buf":          "backing storage for num",
		"userNumCount": "how many numbers the user wrote; 1.0 and 1.0.0 are the same version",
		"isPrerelease": "derived from pre/ext, which are compared",
		"sys":          "both operands come from one system; compare panics-free uses the first operand's system by design",
	},
}

// operand predicates for a two-parameter comparator.
func paramOps(f *ssa.Function, i, j int) [2]func(ssa.Value) bool {
	a, b := ssa.Value(f.Params[i]), ssa.Value(f.Params[j])
	return [2]func(ssa.Value) bool{func(v ssa.Value) bool { return v == a }, func(v ssa.Value) bool { return v == b }}
}

// operand predicates for a sort callback func(i, j int) bool over a slice.
func indexOps(f *ssa.Function) [2]func(ssa.Value) bool {
	mk := func(k int) func(ssa.Value) bool {
		return func(v ssa.Value) bool {
			switch x := v.(type) {
			case *ssa.IndexAddr:
				return x.Index == ssa.Value(f.Params[k])
			case *ssa.Index:
				return x.Index == ssa.Value(f.Params[k])
			}
			return false
		}
	}
	return [2]func(ssa.Value) bool{mk(0), mk(1)}
}

func structOf(t types.Type) (*types.Struct, string) {
	if pt, ok := t.Underlying().(*types.Pointer); ok {
		t = pt.Elem()
	}
	st, _ := t.Underlying().(*types.Struct)
	return st, short(t.String())
}

// coverRule checks that a comparator reads every field of both operands.
func coverRule(r *Report, p *Prog, rule string, f *ssa.Function, st *types.Struct, tname string, ops [2]func(ssa.Value) bool, seen map[*ssa.Function]bool) {
	if seen[f] {
		return
	}
	seen[f] = true
	res := coverOf(p, f, st, ops)
	key := fnKey(f) + " over " + tname
	if res.delegated {
		r.ok(rule, key, p.pos(f.Pos()), "hands both whole operands to "+res.to+", which is checked as a comparator itself")
		// follow static delegation
		for _, b := range f.Blocks {
			for _, in := range b.Instrs {
				call, ok := in.(*ssa.Call)
				if !ok {
					continue
				}
				sc := call.Common().StaticCallee()
				if sc == nil || !p.inScope(sc) || len(sc.Params) != 2 || len(sc.Blocks) == 0 {
					continue
				}
				if st2, tn2 := structOf(sc.Params[0].Type()); st2 != nil && types.Identical(st2, st) && sameOperandType(sc.Params[0].Type(), sc.Params[1].Type()) {
					coverRule(r, p, rule, sc, st2, tn2, paramOps(sc, 0, 1), seen)
				}
			}
		}
		return
	}
	excl := coverExclusions[tname]
	var missing []string
	for _, fld := range res.fields {
		if _, ok := excl[fld]; ok {
			continue
		}
		for k := 0; k < 2; k++ {
			if !res.read[k][fld] {
				missing = append(missing, fmt.Sprintf("%s of operand %d", fld, k+1))
			}
		}
	}
	if len(missing) > 0 {
		r.bad(rule, key, p.pos(f.Pos()), "the comparator never reads "+strings.Join(missing, ", ")+": values differing only there compare equal, so the order of such values is left to the sort's input order")
		return
	}
	var ex []string
	for k := range excl {
		ex = append(ex, k)
	}
	sort.Strings(ex)
	how := fmt.Sprintf("reads all %d fields %v of both operands", len(res.fields), res.fields)
	if len(ex) > 0 {
		how += fmt.Sprintf(" except the reviewed representation fields %v", ex)
	}
	r.ok(rule, key, p.pos(f.Pos()), how)
}

// mutableGlobals returns the package-level variables written outside package
// initialisation (direct stores, or writes into memory they reference).
func mutableGlobals(p *Prog, e *Effect) map[*ssa.Global]string {
	out := map[*ssa.Global]string{}
	for _, f := range p.Funcs {
		if f.Name() == "init" || strings.HasPrefix(f.Name(), "init#") || (f.Parent() != nil && (f.Parent().Name() == "init" || strings.HasPrefix(f.Parent().Name(), "init#"))) {
			continue
		}
		// direct stores in this very function
		for _, b := range f.Blocks {
			for _, in := range b.Instrs {
				if st, ok := in.(*ssa.Store); ok {
					if g, ok := st.Addr.(*ssa.Global); ok && p.inScopeGlobal(g) {
						out[g] = "stored to in " + fnKey(f)
					}
				}
			}
		}
		for st, o := range e.sums[f].writes {
			if o.g == 0 || st.fn != f {
				continue
			}
			for i, g := range e.globals {
				if o.g&(1<<uint(i%64)) != 0 {
					if _, dup := out[g]; !dup {
						out[g] = "memory it references may be written by " + st.desc + " in " + fnKey(f)
					}
				}
			}
		}
	}
	return out
}

func cmpTrusted(r *Report) {
	r.Trusted = append(r.Trusted, "go/types, go/ssa; the EFFECT summaries (see C05) for purity; access paths are compared syntactically over SSA values")
}

func checkC01(r *Report) {
	p := loadResolve("", true)
	e := runEffect(p)
	cmpTrusted(r)
	r.Explain = "C01.d NO-WIDE-SUBTRACT: no comparator or sign helper of package semver takes the sign of a difference of two wide integers (it wraps for operands more than half the range apart). C01.d SIGN-SYMMETRIC: a three-way comparator of package semver whose non-constant results are all delegated comparisons returns +k as a constant exactly if it returns -k (one reviewed one-sided helper). Structural clauses of 'comparison is a total preorder', decided on the call closure of semver's comparison entry points. C01.a PURE/HISTORY: (*Version).Compare, System.Compare and every sort comparator over versions are write-free (no store to memory that outlives the call, no store to a package-level variable) and read no package-level variable that anything outside package initialisation writes, so a result cannot depend on earlier calls. C01.b NO-BUILD: no function in the closure of (*Version).Compare reads the field Version.build. C01.c PROJ-SYM: every direct comparison between the two operands (operators and two-argument calls) whose operands resolve to access paths uses the same projection on both sides (copy-paste asymmetry such as sgn(p.postNum, q.preNum) is reported). Not decided: transitivity, antisymmetry and congruence over all value triples."
	vcmp := p.lookupFn("(*semver.Version).Compare")
	scmp := p.lookupFn("(semver.System).Compare")
	if vcmp == nil || scmp == nil {
		r.bad("C01.a/PURE", "semver compare entry points", "", "(*semver.Version).Compare or (semver.System).Compare not found")
		return
	}
	closure := p.reachableFrom([]*ssa.Function{vcmp})
	r.floor("C01.a/PURE", "functions in the closure of (*semver.Version).Compare", len(closure), 12)
	// interface targets
	nExt := 0
	for f := range closure {
		if f.Name() == "compare" && f.Signature.Recv() != nil {
			nExt++
		}
	}
	r.floor("C01.a/PURE", "extension.compare implementations reached", nExt, 3)

	comps := []comparator{{fn: vcmp, kind: "method Compare"}, {fn: scmp, kind: "string comparison entry point"}}
	for _, c := range findComparators(p, p.Funcs) {
		if c.elem != nil && strings.HasSuffix(c.elem.String(), "resolve.Version") {
			comps = append(comps, c)
		}
	}
	mut := mutableGlobals(p, e)
	for _, c := range comps {
		pureRule(r, p, e, "C01.a/PURE", c)
		s := e.sums[c.fn]
		var bad []string
		for g := range s.rglobal {
			if why, ok := mut[g]; ok {
				bad = append(bad, short(g.String())+" ("+why+")")
			}
		}
		sort.Strings(bad)
		key := fnKey(c.fn) + ": globals read"
		if len(bad) > 0 {
			r.bad("C01.a/HISTORY", key, p.pos(c.fn.Pos()), "the comparison reads package-level state that is written outside package initialisation: "+strings.Join(bad, "; "))
		} else {
			var gs []string
			for g := range s.rglobal {
				gs = append(gs, short(g.String()))
			}
			sort.Strings(gs)
			r.ok("C01.a/HISTORY", key, p.pos(c.fn.Pos()), fmt.Sprintf("reads %d package-level variables %v, none written outside package initialisation", len(gs), gs))
		}
	}

	// C01.b
	var buildField *types.Var
	if tn, ok := p.pkg("semver").Types.Scope().Lookup("Version").(*types.TypeName); ok {
		if st, ok := tn.Type().Underlying().(*types.Struct); ok {
			for i := 0; i < st.NumFields(); i++ {
				if st.Field(i).Name() == "build" {
					buildField = st.Field(i)
				}
			}
		}
	}
	if buildField == nil {
		r.bad("C01.b/NO-BUILD", "semver.Version.build", "", "field semver.Version.build not found: anchor lost")
	} else {
		var readers []string
		for f := range closure {
			for _, b := range f.Blocks {
				for _, in := range b.Instrs {
					var fv *types.Var
					switch x := in.(type) {
					case *ssa.FieldAddr:
						fv = x.X.Type().Underlying().(*types.Pointer).Elem().Underlying().(*types.Struct).Field(x.Field)
					case *ssa.Field:
						fv = x.X.Type().Underlying().(*types.Struct).Field(x.Field)
					}
					if fv == buildField {
						readers = append(readers, fnKey(f)+"@"+p.pos(in.Pos()))
					}
				}
			}
		}
		sort.Strings(readers)
		for _, rd := range readers {
			i := strings.LastIndex(rd, "@")
			r.bad("C01.b/NO-BUILD", rd[:i]+": reads Version.build", rd[i+1:], "build metadata is read inside the comparison closure; it must never change the result")
		}
		if len(readers) == 0 {
			r.ok("C01.b/NO-BUILD", "closure of (*semver.Version).Compare", p.pos(vcmp.Pos()), fmt.Sprintf("none of the %d functions in the closure addresses or reads the field Version.build", len(closure)))
		}
	}

	// C01.c
	var fs []*ssa.Function
	for f := range closure {
		fs = append(fs, f)
	}
	for _, c := range comps[2:] {
		fs = append(fs, c.fn)
	}
	sort.Slice(fs, func(i, j int) bool { return fnKey(fs[i]) < fnKey(fs[j]) })
	checked, undec := 0, 0
	for _, f := range fs {
		res := projSym(f)
		checked += res.checked
		undec += res.undecided
		for i, b := range res.bad {
			r.bad("C01.c/PROJ-SYM", fmt.Sprintf("%s: %s of %s and %s", fnKey(f), b.what, b.a, b.b), p.pos(b.pos),
				fmt.Sprintf("the two operands are compared through different projections (%s vs %s); mirrored would be %s", b.a, b.b, swapRoots(b.a)))
			_ = i
		}
		if len(res.bad) == 0 && res.checked > 0 {
			r.ok("C01.c/PROJ-SYM", fnKey(f), p.pos(f.Pos()), fmt.Sprintf("%d direct operand comparisons, all mirrored; %d undecided (unresolvable access paths, skipped)", res.checked, res.undecided))
		}
	}
	r.floor("C01.c/PROJ-SYM", "direct operand comparisons with resolved access paths", checked, 25)
	r.Stats["projsym_checked"] = checked
	r.Stats["projsym_undecided"] = undec
	r.Stats["closure_functions"] = len(closure)
	noWideSubtractRule(r, p, "C01.d/NO-WIDE-SUBTRACT", threeWayFns(p, "semver"))
	mapOrderRule(r, p, "C01.d/MAP-ORDER", threeWayFns(p, "semver"))
	nSym := signSymmetryRule(r, p, "C01.d/SIGN-SYMMETRIC", threeWayFns(p, "semver"))
	r.floor("C01.d/SIGN-SYMMETRIC", "three-way comparators of package semver", nSym, 10)
	// e. LOOP-NONZERO: a return inside an element loop carries a non-zero sign
	nLR := loopReturnRule(r, p, "C01.e/LOOP-NONZERO", threeWayFns(p, "semver"))
	r.floor("C01.e/LOOP-NONZERO", "returns inside loops of the comparators of package semver", nLR, 15)
	// f. PARALLEL-REMAINDERS
	nPR := parallelRemainderRule(r, p, "C01.f/PARALLEL-REMAINDERS", threeWayFns(p, "semver"))
	r.floor("C01.f/PARALLEL-REMAINDERS", "pairs of loop-carried rests advanced by the same function in the comparators of package semver", nPR, 1)
	nCD := classDecidesRule(r, p, "C01.g/CLASS-DECIDES")
	r.floor("C01.g/CLASS-DECIDES", "two-string comparators of package semver that order the pairs of a class by a key of their own", nCD, 1)
}

// tiebreakRule (deny-list): the comparator's final return must not be a
// constant or a bare sign test of a semver Compare result.
func tiebreakRule(r *Report, p *Prog, rule string, c comparator) {
	key := fnKey(c.fn) + " (" + c.kind + ")"
	// (1) SSA: a return of `cmp < 0` (or >, <=, >=) where cmp is the result of
	// (*semver.Version).Compare, on a path where cmp has not been found non-zero.
	for _, b := range c.fn.Blocks {
		ret, ok := b.Instrs[len(b.Instrs)-1].(*ssa.Return)
		if !ok || len(ret.Results) != 1 {
			continue
		}
		bo, ok := ret.Results[0].(*ssa.BinOp)
		if !ok || (bo.Op != token.LSS && bo.Op != token.GTR && bo.Op != token.LEQ && bo.Op != token.GEQ) {
			continue
		}
		call, ok := bo.X.(*ssa.Call)
		if !ok || staticCalleeName(call) != "(*semver.Version).Compare" {
			continue
		}
		if k, ok := bo.Y.(*ssa.Const); !ok || k.Value == nil || k.Int64() != 0 {
			continue
		}
		// guarded by a zero test of the same result?
		guarded := false
		for _, g := range c.fn.Blocks {
			ifi, ok := g.Instrs[len(g.Instrs)-1].(*ssa.If)
			if !ok {
				continue
			}
			zt, ok := ifi.Cond.(*ssa.BinOp)
			if !ok || (zt.Op != token.EQL && zt.Op != token.NEQ) || zt.X != ssa.Value(call) {
				continue
			}
			if k, ok := zt.Y.(*ssa.Const); !ok || k.Value == nil || k.Int64() != 0 {
				continue
			}
			zeroSucc := g.Succs[0]
			if zt.Op == token.NEQ {
				zeroSucc = g.Succs[1]
			}
			if guardedBy(g, zeroSucc, b) {
				guarded = true
			}
		}
		if !guarded {
			r.bad(rule, key, p.pos(ret.Pos()), "the comparator returns a bare sign test of (*semver.Version).Compare where the result may be zero; Compare is a preorder that equates distinct strings (1.0, 1.0.0), so sort.Slice leaves their order to the input order")
			return
		}
	}
	// (2) syntax: a constant as the final fall-through return
	lit, ok := c.fn.Syntax().(*ast.FuncLit)
	var body *ast.BlockStmt
	if ok {
		body = lit.Body
	} else if fd, ok := c.fn.Syntax().(*ast.FuncDecl); ok {
		body = fd.Body
	}
	e := lastReturnExpr(body)
	if e == nil {
		r.ok(rule, key, p.pos(c.fn.Pos()), "no unguarded sign test of Compare is returned and the final statement is not a single-expression return")
		return
	}
	pk := p.pkgOfPos(e.Pos())
	if pk == nil {
		r.bad(rule, key, p.pos(e.Pos()), "cannot find type information for the comparator")
		return
	}
	if tv, ok := pk.TypesInfo.Types[e]; ok && tv.Value != nil {
		r.bad(rule, key, p.pos(e.Pos()), "the comparator's fall-through return is the constant "+tv.Value.String()+": distinct versions that reach it are treated as equal and keep their input order")
		return
	}
	r.ok(rule, key, p.pos(e.Pos()), "every returned sign test of (*semver.Version).Compare is guarded by a non-zero test, and the final return is not a constant: "+types.ExprString(e))
}

func checkC12(r *Report) {
	p := loadResolve("", true)
	e := runEffect(p)
	cmpTrusted(r)
	effectTrusted(r)
	r.Explain = "Structural clauses of 'requirement matching is order-insensitive'. C12.a PURE and C12.b TIEBREAK on every comparator that sorts []resolve.Version (the closures in SortVersions and sortNPMVersions): write-free, and the fall-through return is on no deny-listed form (constant; bare sign test of (*semver.Version).Compare), so semver-equal distinct strings get a total tie-break and the sorted order cannot depend on the input permutation. C12.c BORROWED-ARG: MatchRequirement documents that it may modify the list it is given; no caller passes it a slice owned by a client or cache. C12.d EXACT-TAG: for a non-range npm requirement a version is returned only under an equality test between the requirement text and the version string or one tag. Not decided: exactness of the match set for ranges and the latest-tag repositioning."
	var comps []comparator
	for _, c := range findComparators(p, p.Funcs) {
		// every in-scope comparator that orders []resolve.Version, wherever it lives
		// (the PyPI resolver sorts matches itself and intersects the result with the
		// client's list, which relies on both being in the same total order); test
		// helpers of the schema package are not part of the matching path
		if c.elem != nil && strings.HasSuffix(c.elem.String(), "deps.dev/util/resolve.Version") && !strings.Contains(p.pkgOfFn(c.fn).Pkg.Path(), "/schema") && !strings.Contains(p.pkgOfFn(c.fn).Pkg.Path(), "/internal/") {
			comps = append(comps, c)
		}
	}
	r.floor("C12.a/PURE", "comparators sorting []resolve.Version in package resolve", len(comps), 2)
	for _, c := range comps {
		pureRule(r, p, e, "C12.a/PURE", c)
		tiebreakRule(r, p, "C12.b/TIEBREAK", c)
	}
	n := 0
	cms := clientMethods(p)
	isClientMethod := map[*ssa.Function]bool{}
	for _, ms := range cms {
		for _, m := range ms {
			isClientMethod[m] = true
		}
	}
	for _, ac := range e.attrCalls {
		if !strings.HasSuffix(fullName(ac.callee), "util/resolve.MatchRequirement") || len(ac.args) < 2 {
			continue
		}
		n++
		key := fnKey(ac.fn) + ": MatchRequirement(versions)"
		d := ac.args[1].D
		switch {
		case d.p&bitSRC != 0:
			r.bad("C12.c/BORROWED-ARG", key, p.pos(ac.pos), "MatchRequirement may reorder its argument, and this caller passes a slice owned by a resolve.Client")
		case d.p&bitCACHE != 0:
			r.bad("C12.c/BORROWED-ARG", key, p.pos(ac.pos), "MatchRequirement may reorder its argument, and this caller passes a slice owned by an lru cache")
		case isClientMethod[ac.fn] && d.p&paramBits(0) != 0:
			r.bad("C12.c/BORROWED-ARG", key, p.pos(ac.pos), "MatchRequirement may reorder its argument, and this client method passes a slice stored in its receiver")
		default:
			r.ok("C12.c/BORROWED-ARG", key, p.pos(ac.pos), "the slice passed is fresh (not client, cache or receiver memory)")
		}
	}
	r.floor("C12.c/BORROWED-ARG", "call sites of MatchRequirement", n, 2)
	exactTagRule(r, p)
	tagListRule(r, p, "C12.f/TAG-LIST")
	nGE := guardBeforeEraseRule(r, p, "C12.i/GUARD-BEFORE-ERASE")
	r.floor("C12.i/GUARD-BEFORE-ERASE", "guards in package semver that refuse a version because of its prerelease tags", nGE, 1)
	syntheticBoundRule(r, p, "C12.j/SYNTHETIC-BOUND-INERT")
	nWG := wildcardGuardRule(r, p, "C12.l/WILDCARD-GUARD")
	r.floor("C12.l/WILDCARD-GUARD", "calls of the matcher from methods of Constraint", nWG, 2)
	nTA := clearOnAllPathsRule(r, p, "C12.n/TAGS-ALL-OR-NONE")
	r.floor("C12.n/TAGS-ALL-OR-NONE", "spans made by opVersionToSpan after clearing the upper bound's tags", nTA, 5)
	nUA := unboundedAboveRule(r, p, "C12.m/UNBOUNDED-ABOVE")
	r.floor("C12.m/UNBOUNDED-ABOVE", "decisions of the PEP 440 comparator taken before the numbers", nUA, 1)
	nOE := orderedExitRule(r, p, "C12.k/ORDERED-EXIT")
	r.floor("C12.k/ORDERED-EXIT", "loops over the spans of a set in package semver", nOE, 4)
	sortWholeRule(r, p, "C12.g/SORT-WHOLE")
	matchSortsRule(r, p, "C12.h/MATCH-SORTS")
	var matchFns []*ssa.Function
	for _, f := range pkgFuncs(p, "resolve") {
		if strings.HasSuffix(p.Fset.Position(f.Pos()).Filename, "/match.go") {
			matchFns = append(matchFns, f)
		}
	}
	n2 := sortSelfRule(r, p, "C12.e/SORT-SELF", matchFns)
	r.floor("C12.e/SORT-SELF", "sort.Slice calls in match.go", n2, 3)
}

// exactTagRule (C12.d): when an npm requirement is not a range, a version is
// selected only under an equality test between the requirement text and the
// version string or one tag. Every return of a singleton result in
// matchNPMRequirement must be dominated by the true edge of such a test.
func exactTagRule(r *Report, p *Prog) {
	rule := "C12.d/EXACT-TAG"
	f := p.lookupFn("resolve.matchNPMRequirement")
	if f == nil {
		r.bad(rule, "resolve.matchNPMRequirement", "", "function not found: anchor lost")
		return
	}
	req := ssa.Value(f.Params[0])
	fromReq := func(v ssa.Value) bool {
		return condDerives(v, 0, func(x ssa.Value) bool {
			switch y := x.(type) {
			case *ssa.Field:
				return y.X == req || fromParamCell(y.X, req)
			case *ssa.UnOp:
				if fa, ok := y.X.(*ssa.FieldAddr); ok {
					return fromParamCell(fa.X, req)
				}
			}
			return false
		})
	}
	isEqTest := func(c ssa.Value) bool {
		switch x := c.(type) {
		case *ssa.BinOp:
			return x.Op == token.EQL && (fromReq(x.X) || fromReq(x.Y))
		case *ssa.Call:
			n := staticCalleeName(x)
			if n == "slices.Contains" || n == "slices.Index" {
				for _, a := range x.Common().Args {
					if fromReq(a) {
						return true
					}
				}
			}
		case *ssa.Extract: // v, ok := set[req.Version]
			if l, ok := x.Tuple.(*ssa.Lookup); ok && x.Index == 1 {
				return fromReq(l.Index)
			}
		}
		return false
	}
	n := 0
	for _, b := range f.Blocks {
		ret, ok := b.Instrs[len(b.Instrs)-1].(*ssa.Return)
		if !ok || len(ret.Results) != 1 {
			continue
		}
		sl, ok := ret.Results[0].(*ssa.Slice)
		if !ok {
			continue
		}
		if al, ok := sl.X.(*ssa.Alloc); !ok || !strings.HasPrefix(al.Type().String(), "*[1]") {
			continue
		}
		n++
		key := fmt.Sprintf("%s: singleton result #%d", fnKey(f), n)
		guarded := false
		for _, d := range f.Blocks {
			ifi, ok := d.Instrs[len(d.Instrs)-1].(*ssa.If)
			if !ok || !isEqTest(ifi.Cond) {
				continue
			}
			if t := d.Succs[0]; t.Dominates(b) && len(t.Preds) == 1 {
				guarded = true
			}
		}
		if guarded {
			r.ok(rule, key, p.pos(ret.Pos()), "returned only under an equality test involving the requirement text")
		} else {
			r.bad(rule, key, p.pos(ret.Pos()), "a version is selected for a non-range requirement without an equality test between the requirement text and the version string or a tag: a requirement that merely resembles a tag would select it")
		}
	}
	r.floor(rule, "singleton results of matchNPMRequirement", n, 2)
}

// sortWholeRule: sortNPMVersions decides where the version tagged latest goes
// by looking at every element it is given ("a prerelease while releases
// exist"). It therefore has to be given the complete version list the caller
// received (or a copy of it), never a filtered part.
func sortWholeRule(r *Report, p *Prog, rule string) {
	target := p.lookupFn("resolve.sortNPMVersions")
	if target == nil {
		r.bad(rule, "resolve.sortNPMVersions", "", "function not found: anchor lost")
		return
	}
	whole := wholeOfParam
	n := 0
	perFn := map[*ssa.Function]int{}
	for _, f := range p.Funcs {
		if !p.inScope(f) {
			continue
		}
		for _, b := range f.Blocks {
			for _, in := range b.Instrs {
				c, ok := in.(*ssa.Call)
				if !ok || c.Call.StaticCallee() != target {
					continue
				}
				n++
				perFn[f]++
				key := fmt.Sprintf("%s: sortNPMVersions call #%d", fnKey(f), perFn[f])
				if ok, how := whole(c.Call.Args[0], 0); ok {
					r.ok(rule, key, p.pos(c.Pos()), "given "+how+", the complete list the caller received")
				} else {
					r.bad(rule, key, p.pos(c.Pos()), "sortNPMVersions is given a slice built inside this function, not the complete list it received: whether the version tagged latest is a prerelease 'while releases exist' is then judged on a part of the list, so its position depends on what was filtered out")
				}
			}
		}
	}
	r.floor(rule, "calls of sortNPMVersions", n, 2)
}

// tagListRule: the Tags attribute of a version is a comma-separated list of
// dist-tags. Every reader of that attribute value has to take it apart with
// strings.Split(value, ",") (or hand it on unchanged); a substring or prefix
// test on the raw value treats "latest-7" or "prelatest" as the tag "latest".
func tagListRule(r *Report, p *Prog, rule string) {
	var tagsVal constant.Value
	if vp := p.Pkgs[modPrefix+"resolve/version"]; vp != nil {
		if c, ok := vp.Types.Scope().Lookup("Tags").(*types.Const); ok {
			tagsVal = c.Val()
		}
	}
	if tagsVal == nil {
		r.bad(rule, "version.Tags", "", "constant resolve/version.Tags not found: anchor lost")
		return
	}
	n := 0
	for _, f := range p.Funcs {
		if !p.inScope(f) || strings.Contains(fnKey(f), "/internal/") {
			continue
		}
		for _, b := range f.Blocks {
			for _, in := range b.Instrs {
				call, ok := in.(*ssa.Call)
				if !ok || !strings.HasSuffix(staticCalleeName(call), ".GetAttr") {
					continue
				}
				args := call.Call.Args
				k, ok := args[len(args)-1].(*ssa.Const)
				if !ok || k.Value == nil || !strings.HasSuffix(k.Type().String(), "resolve/version.AttrKey") || !constant.Compare(k.Value, token.EQL, tagsVal) {
					continue
				}
				// a read of the tags inside a loop over the versions runs for EVERY
				// element: a `continue` ahead of it (for versions that do not
				// parse, say) hides the tag of exactly those versions
				if l := innermostLoop(naturalLoops(f), b); l != nil {
					every := true
					for bb := range l.body {
						for _, s := range bb.Succs {
							if s == l.header && !b.Dominates(bb) {
								every = false
							}
						}
					}
					lkey := fnKey(f) + ": the tags of every element of the loop are read"
					if every {
						r.ok(rule, lkey, p.pos(call.Pos()), "the read dominates every back edge of its loop")
					} else {
						r.bad(rule, lkey, p.pos(call.Pos()), "the loop goes on to the next element on a path that skips the read of the element's tags: a version that takes that path (one whose string does not parse) is never recognised as carrying the tag")
					}
				}
				// the string result
				var vals []ssa.Value
				if refs := call.Referrers(); refs != nil {
					for _, rf := range *refs {
						if ex, ok := rf.(*ssa.Extract); ok && ex.Index == 0 {
							vals = append(vals, ex)
						}
					}
				}
				seen := 0
				var checkUses func(v ssa.Value, via string, depth int)
				checkUses = func(v ssa.Value, via string, depth int) {
					if v.Referrers() == nil {
						return
					}
					for _, use := range *v.Referrers() {
						if _, ok := use.(*ssa.DebugRef); ok {
							continue
						}
						okUse, how := false, ""
						switch u := use.(type) {
						case *ssa.Call:
							name := staticCalleeName(u)
							switch {
							case name == "strings.Split" || name == "strings.SplitSeq":
								if sep, ok := u.Call.Args[len(u.Call.Args)-1].(*ssa.Const); ok && sep.Value != nil && sep.Value.Kind() == constant.String && constant.StringVal(sep.Value) == "," && u.Call.Args[0] == v {
									okUse, how = true, "taken apart with "+name+"(value, \",\")"
								}
							case name == "strings.FieldsFunc" && u.Call.Args[0] == v:
								okUse, how = true, "taken apart with strings.FieldsFunc"
							case strings.HasSuffix(name, ".SetAttr") || strings.HasSuffix(name, ".AddAttr"):
								okUse, how = true, "handed on unchanged to "+name
							case u.Call.StaticCallee() != nil && p.inScope(u.Call.StaticCallee()) && depth < 3 && u.Call.StaticCallee().Blocks != nil:
								// follow the value into the helper
								callee := u.Call.StaticCallee()
								for i, a := range u.Call.Args {
									if a == v && i < len(callee.Params) {
										checkUses(callee.Params[i], via+" -> "+fnKey(callee), depth+1)
									}
								}
								continue
							}
						case *ssa.BinOp:
							if c, ok := u.Y.(*ssa.Const); ok && c.Value != nil && c.Value.Kind() == constant.String && constant.StringVal(c.Value) == "" && (u.Op == token.EQL || u.Op == token.NEQ) {
								okUse, how = true, "emptiness test"
							}
						case *ssa.Store, *ssa.Phi, *ssa.MakeInterface, *ssa.Return:
							// handed on: formatting, returning or storing the raw list is not a tag test
							okUse, how = true, "handed on unchanged"
						}
						n++
						seen++
						key := fmt.Sprintf("%s: use #%d of the Tags attribute value", fnKey(f)+via, seen)
						if okUse {
							r.ok(rule, key, p.pos(use.Pos()), how)
						} else {
							r.bad(rule, key, p.pos(use.Pos()), "the raw comma-separated Tags value is tested or transformed without splitting it on \",\": a tag that merely contains another (latest-7, prelatest) is taken for it, so the wrong version is treated as the one tagged latest")
						}
					}
				}
				for _, v := range vals {
					checkUses(v, "", 0)
				}
			}
		}
	}
	r.floor(rule, "uses of a GetAttr(version.Tags) value", n, 2)
}

// fromParamCell: v is the parameter itself or a local cell holding it.
func fromParamCell(v, prm ssa.Value) bool {
	if v == prm {
		return true
	}
	if al, ok := v.(*ssa.Alloc); ok {
		return singleStore(al) == prm
	}
	return false
}

// wholeOfParam: v is a parameter of the enclosing function, or a whole copy of one.
func wholeOfParam(v ssa.Value, d int) (bool, string) {
	whole := wholeOfParam
	if d > 8 {
		return false, ""
	}
	switch x := v.(type) {
	case *ssa.Parameter:
		return true, "the parameter " + x.Name()
	case *ssa.UnOp:
		if al, ok := x.X.(*ssa.Alloc); ok && x.Op == token.MUL {
			if s := singleStore(al); s != nil {
				return whole(s, d+1)
			}
		}
	case *ssa.Slice:
		if x.Low == nil && x.High == nil && x.Max == nil {
			return whole(x.X, d+1)
		}
	case *ssa.Phi:
		how := ""
		for _, e := range x.Edges {
			ok, h := whole(e, d+1)
			if !ok {
				return false, ""
			}
			how = h
		}
		return len(x.Edges) > 0, how
	case *ssa.Call:
		name := staticCalleeName(x)
		if strings.HasPrefix(name, "slices.Clone") && len(x.Call.Args) == 1 {
			if ok, h := whole(x.Call.Args[0], d+1); ok {
				return true, "a copy of " + h
			}
		}
		if bi, ok := x.Call.Value.(*ssa.Builtin); ok && bi.Name() == "append" && len(x.Call.Args) == 2 {
			// append([]T(nil), w...) / append(w[:0:0], w...)
			base := x.Call.Args[0]
			emptyBase := false
			if c, ok := base.(*ssa.Const); ok && c.Value == nil {
				emptyBase = true
			}
			if emptyBase {
				if ok, h := whole(x.Call.Args[1], d+1); ok {
					return true, "a copy of " + h
				}
			}
		}
	}
	return false, ""
}

// matchSortsRule: see checkC12 (C12.h).
func matchSortsRule(r *Report, p *Prog, rule string) {
	mr := p.lookupFn("resolve.MatchRequirement")
	if mr == nil {
		r.bad(rule, "resolve.MatchRequirement", "", "function not found: anchor lost")
		return
	}
	seen := map[*ssa.Function]bool{}
	n := 0
	for _, b := range mr.Blocks {
		for _, in := range b.Instrs {
			c, ok := in.(*ssa.Call)
			if !ok {
				continue
			}
			m := c.Call.StaticCallee()
			if m == nil || seen[m] || !p.inScope(m) || m.Signature.Results().Len() != 1 || !strings.HasSuffix(m.Signature.Results().At(0).Type().String(), "[]deps.dev/util/resolve.Version") {
				continue
			}
			seen[m] = true
			n++
			key := fnKey(m) + ": sorts the list it matches against"
			// blocks with a sort of the whole parameter
			var sorts []*ssa.BasicBlock
			for _, mb := range m.Blocks {
				for _, mi := range mb.Instrs {
					sc, ok := mi.(*ssa.Call)
					if !ok {
						continue
					}
					name := staticCalleeName(sc)
					if (name == "resolve.SortVersions" || name == "resolve.sortNPMVersions") && len(sc.Call.Args) == 1 {
						if ok, _ := wholeOfParam(sc.Call.Args[0], 0); ok {
							sorts = append(sorts, mb)
						}
					}
				}
			}
			bad := ""
			for _, mb := range m.Blocks {
				ret, ok := mb.Instrs[len(mb.Instrs)-1].(*ssa.Return)
				if !ok || len(ret.Results) != 1 {
					continue
				}
				if k, ok := ret.Results[0].(*ssa.Const); ok && k.Value == nil {
					continue // nil: nothing matched
				}
				if sl, ok := ret.Results[0].(*ssa.Slice); ok {
					if al, ok := sl.X.(*ssa.Alloc); ok && strings.HasPrefix(al.Type().String(), "*[1]") {
						continue // a single version
					}
				}
				dominated := false
				for _, sb := range sorts {
					if sb == mb || sb.Dominates(mb) {
						dominated = true
					}
				}
				if !dominated && bad == "" {
					bad = p.pos(ret.Pos())
				}
			}
			if bad != "" {
				r.bad(rule, key, bad, "a list of matches is returned on a path that never sorted the versions it was given: the result comes back in the order of the input list, so it differs between permutations of the same list (the other matcher sorts first)")
			} else {
				r.ok(rule, key, p.pos(m.Pos()), "every return of more than one version is dominated by a sort of the complete parameter")
			}
		}
	}
	r.floor(rule, "matchers MatchRequirement dispatches to", n, 2)
}
