package main

// PATH engine: control-flow rules on go/ssa basic blocks (DESIGN.md §3.4).

import (
	"go/constant"
	"go/token"
	"go/types"
	"sort"
	"strings"

	"golang.org/x/tools/go/ssa"
)

// staticCalleeName returns the qualified (generic-origin) name of a call's
// static callee, or "" for dynamic calls.
func staticCalleeName(in ssa.Instruction) string {
	c, ok := in.(ssa.CallInstruction)
	if !ok {
		return ""
	}
	if f := c.Common().StaticCallee(); f != nil {
		return short(fullName(f))
	}
	return ""
}

// invokeName returns "Iface.Method" for interface calls.
func invokeName(in ssa.Instruction) string {
	c, ok := in.(ssa.CallInstruction)
	if !ok || !c.Common().IsInvoke() {
		return ""
	}
	return short(c.Common().Value.Type().String()) + "." + c.Common().Method.Name()
}

// callMatches reports whether the instruction is a call (static or interface)
// whose name is in names.
func callMatches(in ssa.Instruction, names map[string]bool) bool {
	if n := staticCalleeName(in); n != "" && names[n] {
		return true
	}
	if n := invokeName(in); n != "" && names[n] {
		return true
	}
	return false
}

func blockCalls(b *ssa.BasicBlock, names map[string]bool) ssa.Instruction {
	for _, in := range b.Instrs {
		if callMatches(in, names) {
			return in
		}
	}
	return nil
}

func nameSet(names ...string) map[string]bool {
	m := map[string]bool{}
	for _, n := range names {
		m[n] = true
	}
	return m
}

// loop is a natural loop.
type loop struct {
	header *ssa.BasicBlock
	body   map[*ssa.BasicBlock]bool
}

// naturalLoops computes the natural loops of f (merged per header).
func naturalLoops(f *ssa.Function) []*loop {
	byHeader := map[*ssa.BasicBlock]*loop{}
	for _, b := range f.Blocks {
		for _, s := range b.Succs {
			if !s.Dominates(b) {
				continue
			}
			// back edge b -> s
			l := byHeader[s]
			if l == nil {
				l = &loop{header: s, body: map[*ssa.BasicBlock]bool{s: true}}
				byHeader[s] = l
			}
			stack := []*ssa.BasicBlock{b}
			for len(stack) > 0 {
				x := stack[len(stack)-1]
				stack = stack[:len(stack)-1]
				if l.body[x] {
					continue
				}
				l.body[x] = true
				stack = append(stack, x.Preds...)
			}
		}
	}
	var out []*loop
	for _, l := range byHeader {
		out = append(out, l)
	}
	sort.Slice(out, func(i, j int) bool { return out[i].header.Index < out[j].header.Index })
	return out
}

// innermostLoop returns the smallest loop whose body contains b.
func innermostLoop(loops []*loop, b *ssa.BasicBlock) *loop {
	var best *loop
	for _, l := range loops {
		if l.body[b] && (best == nil || len(l.body) < len(best.body)) {
			best = l
		}
	}
	return best
}

// blockPos returns the first valid source position in a block.
func blockPos(p *Prog, b *ssa.BasicBlock) string {
	for _, in := range b.Instrs {
		if in.Pos() != token.NoPos {
			return p.pos(in.Pos())
		}
	}
	return "block " + b.Comment
}

func pathPositions(p *Prog, path []*ssa.BasicBlock) []string {
	var out []string
	last := ""
	for _, b := range path {
		s := blockPos(p, b)
		if s != last {
			out = append(out, s)
		}
		last = s
	}
	return out
}

// exemption describes a condition under which leaving the iteration without a
// marker is allowed; it is attached to the TRUE edge of the guarding branch.
type exemption struct {
	name  string
	match func(cond ssa.Value) bool
}

// condDerives walks a branch condition through extracts, unary/binary ops.
func condDerives(v ssa.Value, depth int, pred func(ssa.Value) bool) bool {
	if depth > 8 || v == nil {
		return false
	}
	if pred(v) {
		return true
	}
	switch x := v.(type) {
	case *ssa.Extract:
		return condDerives(x.Tuple, depth+1, pred)
	case *ssa.BinOp:
		return condDerives(x.X, depth+1, pred) || condDerives(x.Y, depth+1, pred)
	case *ssa.UnOp:
		return condDerives(x.X, depth+1, pred)
	case *ssa.Phi:
		for _, e := range x.Edges {
			if condDerives(e, depth+1, pred) {
				return true
			}
		}
	}
	return false
}

type loopAccountResult struct {
	accounted   int            // marker blocks reached
	exempted    map[string]int // by exemption name
	returns     int
	unaccounted [][]*ssa.BasicBlock // offending paths (to the header or out of the loop)
}

// loopAccount explores every path of one iteration of l: from the in-loop
// successors of the header until a marker block, a return, an exempt edge,
// the header again (next iteration) or an exit from the loop.
func loopAccount(l *loop, markers map[string]bool, exempt []exemption) loopAccountResult {
	res := loopAccountResult{exempted: map[string]int{}}
	type item struct {
		b    *ssa.BasicBlock
		path []*ssa.BasicBlock
	}
	seen := map[*ssa.BasicBlock]bool{}
	var stack []item
	push := func(from *ssa.BasicBlock, to *ssa.BasicBlock, path []*ssa.BasicBlock, edgeIdx int) {
		// exemptions are attached to the true edge (index 0) of an If
		if from != nil {
			if ifi, ok := from.Instrs[len(from.Instrs)-1].(*ssa.If); ok && edgeIdx == 0 {
				for _, ex := range exempt {
					if ex.match(ifi.Cond) {
						res.exempted[ex.name]++
						return
					}
				}
			}
		}
		np := append(append([]*ssa.BasicBlock{}, path...), to)
		if !l.body[to] {
			// leaving the loop is accounted only by a return statement that
			// aborts the resolution with an error
			if exitAborts(to, l) {
				res.returns++
				return
			}
		}
		if to == l.header || !l.body[to] {
			res.unaccounted = append(res.unaccounted, np)
			return
		}
		stack = append(stack, item{to, np})
	}
	for i, s := range l.header.Succs {
		if l.body[s] {
			push(l.header, s, []*ssa.BasicBlock{l.header}, i)
		}
	}
	for len(stack) > 0 {
		it := stack[len(stack)-1]
		stack = stack[:len(stack)-1]
		b := it.b
		if seen[b] {
			continue
		}
		seen[b] = true
		if blockCalls(b, markers) != nil {
			res.accounted++
			continue
		}
		last := b.Instrs[len(b.Instrs)-1]
		if _, ok := last.(*ssa.Return); ok {
			res.returns++
			continue
		}
		if _, ok := last.(*ssa.Panic); ok {
			continue
		}
		for i, s := range b.Succs {
			push(b, s, it.path, i)
		}
	}
	return res
}

// mustPassFrom checks that every path from instruction index (bi, ii) to any
// "end" (the given header, a loop exit, or a return) passes through a call
// accepted by ok. It returns an offending path or nil. Paths ending in a
// return with a non-nil error result are accepted (the resolution aborts).
func mustPassFrom(start *ssa.BasicBlock, startIdx int, stop map[*ssa.BasicBlock]bool, ok func(ssa.Instruction) bool, returnsOK bool) []*ssa.BasicBlock {
	for _, in := range start.Instrs[startIdx+1:] {
		if ok(in) {
			return nil
		}
	}
	type item struct {
		b    *ssa.BasicBlock
		path []*ssa.BasicBlock
	}
	seen := map[*ssa.BasicBlock]bool{}
	var stack []item
	for _, s := range start.Succs {
		stack = append(stack, item{s, []*ssa.BasicBlock{start, s}})
	}
	if len(start.Succs) == 0 {
		if _, isRet := start.Instrs[len(start.Instrs)-1].(*ssa.Return); isRet && !returnsOK {
			return []*ssa.BasicBlock{start}
		}
	}
	for len(stack) > 0 {
		it := stack[len(stack)-1]
		stack = stack[:len(stack)-1]
		b := it.b
		if stop[b] {
			return it.path
		}
		if seen[b] {
			continue
		}
		seen[b] = true
		passed := false
		for _, in := range b.Instrs {
			if ok(in) {
				passed = true
				break
			}
		}
		if passed {
			continue
		}
		last := b.Instrs[len(b.Instrs)-1]
		if _, isRet := last.(*ssa.Return); isRet {
			if !returnsOK {
				return it.path
			}
			continue
		}
		for _, s := range b.Succs {
			stack = append(stack, item{s, append(append([]*ssa.BasicBlock{}, it.path...), s)})
		}
	}
	return nil
}

// isConstString reports whether v is the given string constant.
func isConstString(v ssa.Value, s string) bool {
	c, ok := v.(*ssa.Const)
	return ok && c.Value != nil && c.Value.Kind() == constant.String && constant.StringVal(c.Value) == s
}

// isNilErrorReturn reports whether a return instruction returns a nil error
// as its last result (a "success" return).
func isSuccessReturn(r *ssa.Return) bool {
	if len(r.Results) == 0 {
		return true
	}
	last := r.Results[len(r.Results)-1]
	if !types.Identical(last.Type(), types.Universe.Lookup("error").Type()) {
		return true
	}
	c, ok := last.(*ssa.Const)
	return ok && c.IsNil()
}

// fieldOfAddr returns the struct field designated by an address, if any.
func fieldOfAddr(v ssa.Value) (*types.Var, ssa.Value) {
	if fa, ok := v.(*ssa.FieldAddr); ok {
		st := fa.X.Type().Underlying().(*types.Pointer).Elem().Underlying().(*types.Struct)
		return st.Field(fa.Field), fa.X
	}
	return nil, nil
}

func hasSuffixAny(s string, suf ...string) bool {
	for _, x := range suf {
		if strings.HasSuffix(s, x) {
			return true
		}
	}
	return false
}

// exitAborts reports whether every path from b (a block outside loop l) ends
// in a return with a non-nil error or a panic without doing anything but
// straight-line/branching code: the shape of a `return ..., err` statement
// written inside the loop body. A `break` (which continues normal processing)
// reaches a success return or an enclosing loop and is rejected.
func exitAborts(b *ssa.BasicBlock, l *loop) bool {
	seen := map[*ssa.BasicBlock]bool{}
	stack := []*ssa.BasicBlock{b}
	for len(stack) > 0 {
		x := stack[len(stack)-1]
		stack = stack[:len(stack)-1]
		if seen[x] {
			continue
		}
		seen[x] = true
		if len(seen) > 64 || l.body[x] {
			return false
		}
		switch last := x.Instrs[len(x.Instrs)-1].(type) {
		case *ssa.Return:
			if isSuccessReturn(last) {
				return false
			}
			continue
		case *ssa.Panic:
			continue
		}
		for _, s := range x.Succs {
			if s.Dominates(x) { // back edge of an enclosing loop
				return false
			}
			stack = append(stack, s)
		}
	}
	return true
}
