package main

// A hand-written parser for the proto3 subset used by api/v3*/api.proto. It
// produces a descriptorpb.FileDescriptorProto following protoc's rules for
// name resolution, json names, map entries and proto3 optional, so that it can
// be compared with the descriptor protoc embedded in the generated Go code.

import (
	"fmt"
	"os"
	"strconv"
	"strings"
	"unicode"

	"google.golang.org/genproto/googleapis/api/annotations"
	"google.golang.org/protobuf/proto"
	"google.golang.org/protobuf/types/descriptorpb"
)

type ptok struct {
	kind byte // 'i' ident, 'n' number, 's' string, 'p' punctuation, 0 eof
	text string
	line int
}

type pparser struct {
	file string
	toks []ptok
	i    int
	err  error
}

func plex(file, src string) ([]ptok, error) {
	var toks []ptok
	line := 1
	for i := 0; i < len(src); {
		c := src[i]
		switch {
		case c == '\n':
			line++
			i++
		case c == ' ' || c == '\t' || c == '\r':
			i++
		case c == '/' && i+1 < len(src) && src[i+1] == '/':
			for i < len(src) && src[i] != '\n' {
				i++
			}
		case c == '/' && i+1 < len(src) && src[i+1] == '*':
			j := strings.Index(src[i+2:], "*/")
			if j < 0 {
				return nil, fmt.Errorf("%s:%d: unterminated comment", file, line)
			}
			line += strings.Count(src[i:i+2+j+2], "\n")
			i += 2 + j + 2
		case c == '"' || c == '\'':
			j := i + 1
			var sb strings.Builder
			for j < len(src) && src[j] != c {
				if src[j] == '\\' && j+1 < len(src) {
					j++
					switch src[j] {
					case 'n':
						sb.WriteByte('\n')
					case 't':
						sb.WriteByte('\t')
					default:
						sb.WriteByte(src[j])
					}
					j++
					continue
				}
				if src[j] == '\n' {
					return nil, fmt.Errorf("%s:%d: newline in string", file, line)
				}
				sb.WriteByte(src[j])
				j++
			}
			if j >= len(src) {
				return nil, fmt.Errorf("%s:%d: unterminated string", file, line)
			}
			toks = append(toks, ptok{'s', sb.String(), line})
			i = j + 1
		case c == '_' || unicode.IsLetter(rune(c)):
			j := i
			for j < len(src) && (src[j] == '_' || src[j] == '.' || unicode.IsLetter(rune(src[j])) || unicode.IsDigit(rune(src[j]))) {
				j++
			}
			toks = append(toks, ptok{'i', src[i:j], line})
			i = j
		case unicode.IsDigit(rune(c)) || (c == '-' && i+1 < len(src) && unicode.IsDigit(rune(src[i+1]))):
			j := i + 1
			for j < len(src) && (unicode.IsDigit(rune(src[j])) || unicode.IsLetter(rune(src[j])) || src[j] == '.') {
				j++
			}
			toks = append(toks, ptok{'n', src[i:j], line})
			i = j
		case c == '.':
			// leading-dot type name
			j := i + 1
			for j < len(src) && (src[j] == '_' || src[j] == '.' || unicode.IsLetter(rune(src[j])) || unicode.IsDigit(rune(src[j]))) {
				j++
			}
			toks = append(toks, ptok{'i', src[i:j], line})
			i = j
		default:
			toks = append(toks, ptok{'p', string(c), line})
			i++
		}
	}
	toks = append(toks, ptok{0, "", line})
	return toks, nil
}

func (p *pparser) peek() ptok { return p.toks[p.i] }
func (p *pparser) next() ptok {
	t := p.toks[p.i]
	if p.i < len(p.toks)-1 {
		p.i++
	}
	return t
}
func (p *pparser) fail(t ptok, format string, a ...any) {
	if p.err == nil {
		p.err = fmt.Errorf("%s:%d: %s", p.file, t.line, fmt.Sprintf(format, a...))
	}
}
func (p *pparser) expect(text string) ptok {
	t := p.next()
	if t.text != text || t.kind == 's' {
		p.fail(t, "expected %q, found %q", text, t.text)
	}
	return t
}
func (p *pparser) accept(text string) bool {
	if t := p.peek(); t.text == text && t.kind != 's' {
		p.next()
		return true
	}
	return false
}
func (p *pparser) ident() string {
	t := p.next()
	if t.kind != 'i' {
		p.fail(t, "expected identifier, found %q", t.text)
	}
	return t.text
}
func (p *pparser) str() string {
	t := p.next()
	if t.kind != 's' {
		p.fail(t, "expected string, found %q", t.text)
	}
	s := t.text
	for p.peek().kind == 's' { // adjacent string literals concatenate
		s += p.next().text
	}
	return s
}
func (p *pparser) int32() int32 {
	t := p.next()
	n, err := strconv.ParseInt(t.text, 0, 32)
	if t.kind != 'n' || err != nil {
		p.fail(t, "expected integer, found %q", t.text)
	}
	return int32(n)
}

// pending type references are resolved after the whole file is read.
type pref struct {
	scope string // fully-qualified scope of the reference, e.g. ".pkg.Msg"
	name  string
	set   func(full string, isEnum bool)
	line  int
}

type pfile struct {
	fd    *descriptorpb.FileDescriptorProto
	refs  []pref
	types map[string]bool // full name -> isEnum
}

var scalarTypes = map[string]descriptorpb.FieldDescriptorProto_Type{
	"double": descriptorpb.FieldDescriptorProto_TYPE_DOUBLE, "float": descriptorpb.FieldDescriptorProto_TYPE_FLOAT,
	"int64": descriptorpb.FieldDescriptorProto_TYPE_INT64, "uint64": descriptorpb.FieldDescriptorProto_TYPE_UINT64,
	"int32": descriptorpb.FieldDescriptorProto_TYPE_INT32, "fixed64": descriptorpb.FieldDescriptorProto_TYPE_FIXED64,
	"fixed32": descriptorpb.FieldDescriptorProto_TYPE_FIXED32, "bool": descriptorpb.FieldDescriptorProto_TYPE_BOOL,
	"string": descriptorpb.FieldDescriptorProto_TYPE_STRING, "bytes": descriptorpb.FieldDescriptorProto_TYPE_BYTES,
	"uint32": descriptorpb.FieldDescriptorProto_TYPE_UINT32, "sfixed32": descriptorpb.FieldDescriptorProto_TYPE_SFIXED32,
	"sfixed64": descriptorpb.FieldDescriptorProto_TYPE_SFIXED64, "sint32": descriptorpb.FieldDescriptorProto_TYPE_SINT32,
	"sint64": descriptorpb.FieldDescriptorProto_TYPE_SINT64,
}

// external types known without reading the imported files.
var wellKnown = map[string]bool{
	".google.protobuf.Timestamp": false, ".google.protobuf.Duration": false, ".google.protobuf.Empty": false,
	".google.protobuf.Any": false, ".google.protobuf.Struct": false, ".google.protobuf.Value": false,
	".google.protobuf.FieldMask": false,
}

func jsonName(s string) string {
	var b strings.Builder
	up := false
	for _, c := range s {
		if c == '_' {
			up = true
			continue
		}
		if up {
			b.WriteRune(unicode.ToUpper(c))
			up = false
		} else {
			b.WriteRune(c)
		}
	}
	return b.String()
}

func parseProtoFile(path string) (*descriptorpb.FileDescriptorProto, error) {
	src, err := os.ReadFile(path)
	if err != nil {
		return nil, err
	}
	toks, err := plex(path, string(src))
	if err != nil {
		return nil, err
	}
	p := &pparser{file: path, toks: toks}
	pf := &pfile{fd: &descriptorpb.FileDescriptorProto{Name: proto.String("api.proto")}, types: map[string]bool{}}
	for k, v := range wellKnown {
		pf.types[k] = v
	}
	fd := pf.fd
	for p.err == nil && p.peek().kind != 0 {
		t := p.next()
		switch t.text {
		case ";":
		case "syntax":
			p.expect("=")
			fd.Syntax = proto.String(p.str())
			p.expect(";")
		case "package":
			fd.Package = proto.String(p.ident())
			p.expect(";")
		case "import":
			if p.accept("public") || p.accept("weak") {
				p.fail(t, "public/weak imports are not supported by this checker")
			}
			fd.Dependency = append(fd.Dependency, p.str())
			p.expect(";")
		case "option":
			name := p.optionName()
			p.expect("=")
			if name == "go_package" {
				if fd.Options == nil {
					fd.Options = &descriptorpb.FileOptions{}
				}
				fd.Options.GoPackage = proto.String(p.str())
			} else {
				p.fail(t, "file option %s is not supported by this checker", name)
			}
			p.expect(";")
		case "message":
			fd.MessageType = append(fd.MessageType, p.message(pf, "."+fd.GetPackage()))
		case "enum":
			fd.EnumType = append(fd.EnumType, p.enum(pf, "."+fd.GetPackage()))
		case "service":
			fd.Service = append(fd.Service, p.service(pf, "."+fd.GetPackage()))
		default:
			p.fail(t, "unexpected %q at top level", t.text)
		}
	}
	if p.err != nil {
		return nil, p.err
	}
	if fd.GetSyntax() != "proto3" {
		return nil, fmt.Errorf("%s: only proto3 is supported", path)
	}
	// Resolve type references with protoc's innermost-scope-first rule.
	for _, r := range pf.refs {
		full, isEnum, ok := pf.resolve(r.scope, r.name)
		if !ok {
			return nil, fmt.Errorf("%s:%d: cannot resolve type %q in %s", path, r.line, r.name, r.scope)
		}
		r.set(full, isEnum)
	}
	return fd, nil
}

func (pf *pfile) resolve(scope, name string) (string, bool, bool) {
	if strings.HasPrefix(name, ".") {
		e, ok := pf.types[name]
		return name, e, ok
	}
	first := name
	if i := strings.Index(name, "."); i >= 0 {
		first = name[:i]
	}
	for {
		cand := scope + "." + first
		// protoc: find the first component in the innermost scope, then the
		// rest must resolve from there.
		if pf.hasPrefixType(cand) {
			full := scope + "." + name
			if e, ok := pf.types[full]; ok {
				return full, e, true
			}
			return "", false, false
		}
		if scope == "" {
			break
		}
		i := strings.LastIndex(scope, ".")
		if i < 0 {
			scope = ""
		} else {
			scope = scope[:i]
		}
	}
	return "", false, false
}

func (pf *pfile) hasPrefixType(cand string) bool {
	if _, ok := pf.types[cand]; ok {
		return true
	}
	for k := range pf.types {
		if strings.HasPrefix(k, cand+".") {
			return true
		}
	}
	return false
}

func (p *pparser) optionName() string {
	if p.accept("(") {
		n := p.ident()
		p.expect(")")
		name := "(" + n + ")"
		for p.peek().kind == 'i' && strings.HasPrefix(p.peek().text, ".") {
			name += p.next().text
		}
		return name
	}
	return p.ident()
}

func (p *pparser) constant() string {
	t := p.next()
	if t.kind == 's' {
		s := t.text
		for p.peek().kind == 's' {
			s += p.next().text
		}
		return s
	}
	return t.text
}

func (p *pparser) message(pf *pfile, scope string) *descriptorpb.DescriptorProto {
	name := p.ident()
	full := scope + "." + name
	pf.types[full] = false
	m := &descriptorpb.DescriptorProto{Name: proto.String(name)}
	p.expect("{")
	var synthetic []*descriptorpb.OneofDescriptorProto // proto3 optional oneofs go last
	for p.err == nil && !p.accept("}") {
		t := p.peek()
		switch t.text {
		case ";":
			p.next()
		case "message":
			p.next()
			m.NestedType = append(m.NestedType, p.message(pf, full))
		case "enum":
			p.next()
			m.EnumType = append(m.EnumType, p.enum(pf, full))
		case "oneof":
			p.next()
			on := p.ident()
			idx := int32(len(m.OneofDecl))
			m.OneofDecl = append(m.OneofDecl, &descriptorpb.OneofDescriptorProto{Name: proto.String(on)})
			p.expect("{")
			for p.err == nil && !p.accept("}") {
				if p.accept(";") {
					continue
				}
				f := p.field(pf, full, m, false)
				if f != nil {
					f.OneofIndex = proto.Int32(idx)
				}
			}
		case "reserved":
			p.next()
			for p.err == nil && !p.accept(";") {
				tt := p.next()
				if tt.kind == 's' {
					m.ReservedName = append(m.ReservedName, tt.text)
				} else if tt.kind == 'n' {
					lo, _ := strconv.Atoi(tt.text)
					hi := lo
					if p.accept("to") {
						h := p.next()
						if h.text == "max" {
							hi = 536870911
						} else {
							hi, _ = strconv.Atoi(h.text)
						}
					}
					m.ReservedRange = append(m.ReservedRange, &descriptorpb.DescriptorProto_ReservedRange{Start: proto.Int32(int32(lo)), End: proto.Int32(int32(hi + 1))})
				} else if tt.text != "," {
					p.fail(tt, "unexpected %q in reserved", tt.text)
				}
			}
		case "option":
			p.fail(t, "message options are not supported by this checker")
		case "extensions", "extend", "group":
			p.fail(t, "%s is not valid proto3 / not supported", t.text)
		case "optional":
			p.next()
			f := p.field(pf, full, m, false)
			if f != nil {
				f.Proto3Optional = proto.Bool(true)
				synthetic = append(synthetic, &descriptorpb.OneofDescriptorProto{Name: proto.String("_" + f.GetName())})
				f.OneofIndex = proto.Int32(-int32(len(synthetic))) // patched below
			}
		case "repeated":
			p.next()
			p.field(pf, full, m, true)
		default:
			p.field(pf, full, m, false)
		}
	}
	for _, f := range m.Field {
		if f.OneofIndex != nil && f.GetOneofIndex() < 0 {
			k := -f.GetOneofIndex() - 1
			f.OneofIndex = proto.Int32(int32(len(m.OneofDecl)) + k)
		}
	}
	m.OneofDecl = append(m.OneofDecl, synthetic...)
	return m
}

func camel(s string) string {
	var b strings.Builder
	up := true
	for _, c := range s {
		if c == '_' {
			up = true
			continue
		}
		if up {
			b.WriteRune(unicode.ToUpper(c))
			up = false
		} else {
			b.WriteRune(c)
		}
	}
	return b.String()
}

func (p *pparser) field(pf *pfile, scope string, m *descriptorpb.DescriptorProto, repeated bool) *descriptorpb.FieldDescriptorProto {
	t := p.peek()
	f := &descriptorpb.FieldDescriptorProto{Label: descriptorpb.FieldDescriptorProto_LABEL_OPTIONAL.Enum()}
	if repeated {
		f.Label = descriptorpb.FieldDescriptorProto_LABEL_REPEATED.Enum()
	}
	if t.text == "map" && p.toks[p.i+1].text == "<" {
		p.next()
		p.expect("<")
		kt := p.ident()
		p.expect(",")
		vt := p.ident()
		p.expect(">")
		name := p.ident()
		p.expect("=")
		num := p.int32()
		p.fieldOptions(f)
		p.expect(";")
		entry := &descriptorpb.DescriptorProto{Name: proto.String(camel(name) + "Entry"), Options: &descriptorpb.MessageOptions{MapEntry: proto.Bool(true)}}
		kf := &descriptorpb.FieldDescriptorProto{Name: proto.String("key"), JsonName: proto.String("key"), Number: proto.Int32(1), Label: descriptorpb.FieldDescriptorProto_LABEL_OPTIONAL.Enum()}
		vf := &descriptorpb.FieldDescriptorProto{Name: proto.String("value"), JsonName: proto.String("value"), Number: proto.Int32(2), Label: descriptorpb.FieldDescriptorProto_LABEL_OPTIONAL.Enum()}
		p.setType(pf, scope, kf, kt, t.line)
		p.setType(pf, scope, vf, vt, t.line)
		entry.Field = []*descriptorpb.FieldDescriptorProto{kf, vf}
		m.NestedType = append(m.NestedType, entry)
		pf.types[scope+"."+entry.GetName()] = false
		f.Name = proto.String(name)
		f.JsonName = proto.String(jsonName(name))
		f.Number = proto.Int32(num)
		f.Label = descriptorpb.FieldDescriptorProto_LABEL_REPEATED.Enum()
		f.Type = descriptorpb.FieldDescriptorProto_TYPE_MESSAGE.Enum()
		f.TypeName = proto.String(scope + "." + entry.GetName())
		m.Field = append(m.Field, f)
		return f
	}
	tn := p.ident()
	name := p.ident()
	p.expect("=")
	num := p.int32()
	p.fieldOptions(f)
	p.expect(";")
	f.Name = proto.String(name)
	f.JsonName = proto.String(jsonName(name))
	f.Number = proto.Int32(num)
	p.setType(pf, scope, f, tn, t.line)
	m.Field = append(m.Field, f)
	return f
}

func (p *pparser) setType(pf *pfile, scope string, f *descriptorpb.FieldDescriptorProto, tn string, line int) {
	if st, ok := scalarTypes[tn]; ok {
		f.Type = st.Enum()
		return
	}
	pf.refs = append(pf.refs, pref{scope: scope, name: tn, line: line, set: func(full string, isEnum bool) {
		f.TypeName = proto.String(full)
		if isEnum {
			f.Type = descriptorpb.FieldDescriptorProto_TYPE_ENUM.Enum()
		} else {
			f.Type = descriptorpb.FieldDescriptorProto_TYPE_MESSAGE.Enum()
		}
	}})
}

func (p *pparser) fieldOptions(f *descriptorpb.FieldDescriptorProto) {
	if !p.accept("[") {
		return
	}
	for p.err == nil {
		t := p.peek()
		name := p.optionName()
		p.expect("=")
		val := p.constant()
		switch name {
		case "deprecated":
			if f.Options == nil {
				f.Options = &descriptorpb.FieldOptions{}
			}
			f.Options.Deprecated = proto.Bool(val == "true")
		case "json_name":
			f.JsonName = proto.String(val)
		case "packed":
			if f.Options == nil {
				f.Options = &descriptorpb.FieldOptions{}
			}
			f.Options.Packed = proto.Bool(val == "true")
		default:
			p.fail(t, "field option %s is not supported by this checker", name)
		}
		if p.accept("]") {
			return
		}
		p.expect(",")
	}
}

func (p *pparser) enum(pf *pfile, scope string) *descriptorpb.EnumDescriptorProto {
	name := p.ident()
	pf.types[scope+"."+name] = true
	e := &descriptorpb.EnumDescriptorProto{Name: proto.String(name)}
	p.expect("{")
	for p.err == nil && !p.accept("}") {
		t := p.peek()
		switch t.text {
		case ";":
			p.next()
		case "option":
			p.next()
			on := p.optionName()
			p.expect("=")
			v := p.constant()
			if on == "allow_alias" {
				if e.Options == nil {
					e.Options = &descriptorpb.EnumOptions{}
				}
				e.Options.AllowAlias = proto.Bool(v == "true")
			} else {
				p.fail(t, "enum option %s is not supported by this checker", on)
			}
			p.expect(";")
		case "reserved":
			p.fail(t, "reserved in enums is not supported by this checker")
		default:
			vn := p.ident()
			p.expect("=")
			num := p.int32()
			v := &descriptorpb.EnumValueDescriptorProto{Name: proto.String(vn), Number: proto.Int32(num)}
			if p.accept("[") {
				on := p.optionName()
				p.expect("=")
				val := p.constant()
				if on == "deprecated" {
					v.Options = &descriptorpb.EnumValueOptions{Deprecated: proto.Bool(val == "true")}
				} else {
					p.fail(t, "enum value option %s is not supported by this checker", on)
				}
				p.expect("]")
			}
			p.expect(";")
			e.Value = append(e.Value, v)
		}
	}
	return e
}

func (p *pparser) service(pf *pfile, scope string) *descriptorpb.ServiceDescriptorProto {
	s := &descriptorpb.ServiceDescriptorProto{Name: proto.String(p.ident())}
	p.expect("{")
	for p.err == nil && !p.accept("}") {
		t := p.next()
		switch t.text {
		case ";":
		case "rpc":
			m := &descriptorpb.MethodDescriptorProto{Name: proto.String(p.ident())}
			p.expect("(")
			if p.accept("stream") {
				m.ClientStreaming = proto.Bool(true)
			}
			in := p.ident()
			p.expect(")")
			p.expect("returns")
			p.expect("(")
			if p.accept("stream") {
				m.ServerStreaming = proto.Bool(true)
			}
			out := p.ident()
			p.expect(")")
			pf.refs = append(pf.refs, pref{scope: scope, name: in, line: t.line, set: func(full string, _ bool) { m.InputType = proto.String(full) }})
			pf.refs = append(pf.refs, pref{scope: scope, name: out, line: t.line, set: func(full string, _ bool) { m.OutputType = proto.String(full) }})
			if p.accept("{") {
				for p.err == nil && !p.accept("}") {
					if p.accept(";") {
						continue
					}
					ot := p.expect("option")
					on := p.optionName()
					p.expect("=")
					if on != "(google.api.http)" {
						p.fail(ot, "method option %s is not supported by this checker", on)
						break
					}
					rule := p.httpRule()
					if m.Options == nil {
						m.Options = &descriptorpb.MethodOptions{}
					}
					proto.SetExtension(m.Options, annotations.E_Http, rule)
					p.expect(";")
				}
			} else {
				p.expect(";")
			}
			s.Method = append(s.Method, m)
		default:
			p.fail(t, "unexpected %q in service", t.text)
		}
	}
	return s
}

// httpRule parses the aggregate value of option (google.api.http).
func (p *pparser) httpRule() *annotations.HttpRule {
	r := &annotations.HttpRule{}
	p.expect("{")
	for p.err == nil && !p.accept("}") {
		t := p.next()
		if t.text == "," || t.text == ";" {
			continue
		}
		key := t.text
		if key == "additional_bindings" {
			p.accept(":")
			r.AdditionalBindings = append(r.AdditionalBindings, p.httpRule())
			continue
		}
		if key == "custom" {
			p.accept(":")
			p.expect("{")
			c := &annotations.CustomHttpPattern{}
			for p.err == nil && !p.accept("}") {
				k := p.ident()
				p.expect(":")
				v := p.str()
				if k == "kind" {
					c.Kind = v
				} else if k == "path" {
					c.Path = v
				}
			}
			r.Pattern = &annotations.HttpRule_Custom{Custom: c}
			continue
		}
		p.expect(":")
		v := p.str()
		switch key {
		case "get":
			r.Pattern = &annotations.HttpRule_Get{Get: v}
		case "put":
			r.Pattern = &annotations.HttpRule_Put{Put: v}
		case "post":
			r.Pattern = &annotations.HttpRule_Post{Post: v}
		case "delete":
			r.Pattern = &annotations.HttpRule_Delete{Delete: v}
		case "patch":
			r.Pattern = &annotations.HttpRule_Patch{Patch: v}
		case "body":
			r.Body = v
		case "response_body":
			r.ResponseBody = v
		case "selector":
			r.Selector = v
		default:
			p.fail(t, "unknown http rule key %q", key)
		}
	}
	return r
}
