package main

// NIL-SPAN (part of C04): in package semver an empty span carries nil min/max
// versions. A *Version loaded from a span's min/max field may only be
// dereferenced where a dominating test has excluded the empty span (rank) or nil.

import (
	"fmt"
	"go/constant"
	"go/token"
	"go/types"
	"sort"
	"strings"

	"golang.org/x/tools/go/ssa"
)

// reaches reports whether block `from` can reach block `to` in the CFG.
func reaches(from, to, avoid *ssa.BasicBlock) bool {
	seen := map[*ssa.BasicBlock]bool{avoid: true}
	stack := []*ssa.BasicBlock{from}
	for len(stack) > 0 {
		b := stack[len(stack)-1]
		stack = stack[:len(stack)-1]
		if b == to {
			return true
		}
		if seen[b] {
			continue
		}
		seen[b] = true
		stack = append(stack, b.Succs...)
	}
	return false
}

// guardedBy reports whether block use is protected by a branch in block g:
// g dominates use and the "bad" successor of g cannot reach use.
func guardedBy(g *ssa.BasicBlock, badSucc *ssa.BasicBlock, use *ssa.BasicBlock) bool {
	if g == use {
		return false
	}
	// a later loop iteration passes g again, so paths through g do not count
	return g.Dominates(use) && !reaches(badSucc, use, g)
}

// nilChecked: use block protected by a nil test of value v.
func nilChecked(f *ssa.Function, v ssa.Value, use *ssa.BasicBlock) bool {
	for _, b := range f.Blocks {
		ifi, ok := b.Instrs[len(b.Instrs)-1].(*ssa.If)
		if !ok {
			continue
		}
		bo, ok := ifi.Cond.(*ssa.BinOp)
		if !ok || (bo.Op != token.EQL && bo.Op != token.NEQ) {
			continue
		}
		var other ssa.Value
		if sameLoad(bo.X, v) {
			other = bo.Y
		} else if sameLoad(bo.Y, v) {
			other = bo.X
		} else {
			continue
		}
		c, ok := other.(*ssa.Const)
		if !ok || !c.IsNil() {
			continue
		}
		nilSucc := b.Succs[0]
		if bo.Op == token.NEQ {
			nilSucc = b.Succs[1]
		}
		if guardedBy(b, nilSucc, use) {
			return true
		}
	}
	return false
}

// sameLoad: the same SSA value, or two loads of the same min/max field of the same span.
func sameLoad(a, b ssa.Value) bool {
	if a == b {
		return true
	}
	ra, fa, ok1 := spanFieldLoad(a)
	rb, fb, ok2 := spanFieldLoad(b)
	return ok1 && ok2 && fa == fb && sameRoot(ra, rb)
}

type nilAnalysis struct {
	p      *Prog
	fns    []*ssa.Function
	derefs map[*ssa.Function]map[int]bool // params dereferenced without a dominating nil test
}

func isVersionPtr(t types.Type) bool {
	pt, ok := t.(*types.Pointer)
	return ok && strings.HasSuffix(pt.Elem().String(), "util/semver.Version")
}

// derefUses lists the blocks where v is dereferenced (directly or by a callee).
func (n *nilAnalysis) derefUses(v ssa.Value) []ssa.Instruction {
	var out []ssa.Instruction
	refs := v.Referrers()
	if refs == nil {
		return nil
	}
	for _, ref := range *refs {
		switch x := ref.(type) {
		case *ssa.FieldAddr:
			if x.X == v {
				out = append(out, x)
			}
		case *ssa.UnOp:
			if x.Op == token.MUL && x.X == v {
				out = append(out, x)
			}
		case ssa.CallInstruction:
			com := x.Common()
			sc := com.StaticCallee()
			if sc == nil {
				continue
			}
			for i, a := range com.Args {
				if a == v && n.derefs[sc][i] {
					out = append(out, x)
				}
			}
		case *ssa.Phi:
			out = append(out, n.derefUses(x)...)
		}
	}
	return out
}

func newNilAnalysis(p *Prog) *nilAnalysis {
	n := &nilAnalysis{p: p, derefs: map[*ssa.Function]map[int]bool{}}
	for _, f := range p.Funcs {
		if p.pkgOfFn(f).Pkg.Path() == modPrefix+"semver" {
			n.fns = append(n.fns, f)
			n.derefs[f] = map[int]bool{}
		}
	}
	for changed := true; changed; {
		changed = false
		for _, f := range n.fns {
			for i, prm := range f.Params {
				if n.derefs[f][i] || !isVersionPtr(prm.Type()) {
					continue
				}
				for _, u := range n.derefUses(prm) {
					if !nilChecked(f, prm, u.Block()) {
						n.derefs[f][i] = true
						changed = true
						break
					}
				}
			}
		}
	}
	return n
}

// spanRoot returns the value identifying the span a min/max pointer was loaded from.
func spanFieldLoad(v ssa.Value) (root ssa.Value, field string, ok bool) {
	switch x := v.(type) {
	case *ssa.UnOp:
		if x.Op != token.MUL {
			return nil, "", false
		}
		fa, isFA := x.X.(*ssa.FieldAddr)
		if !isFA {
			return nil, "", false
		}
		st, isS := fa.X.Type().Underlying().(*types.Pointer).Elem().Underlying().(*types.Struct)
		if !isS || !strings.HasSuffix(fa.X.Type().Underlying().(*types.Pointer).Elem().String(), "semver.span") {
			return nil, "", false
		}
		name := st.Field(fa.Field).Name()
		if name != "min" && name != "max" {
			return nil, "", false
		}
		return fa.X, name, true
	case *ssa.Field:
		st, isS := x.X.Type().Underlying().(*types.Struct)
		if !isS || !strings.HasSuffix(x.X.Type().String(), "semver.span") {
			return nil, "", false
		}
		name := st.Field(x.Field).Name()
		if name != "min" && name != "max" {
			return nil, "", false
		}
		return x.X, name, true
	}
	return nil, "", false
}

// rankGuarded: use block protected by a test `S.rank == empty` (or != / switch)
// on the same span root.
func rankGuarded(f *ssa.Function, root ssa.Value, use *ssa.BasicBlock) bool {
	isRankOf := func(v ssa.Value) bool {
		switch x := v.(type) {
		case *ssa.UnOp:
			if fa, ok := x.X.(*ssa.FieldAddr); ok && x.Op == token.MUL {
				st := fa.X.Type().Underlying().(*types.Pointer).Elem().Underlying().(*types.Struct)
				return st.Field(fa.Field).Name() == "rank" && sameRoot(fa.X, root)
			}
		case *ssa.Field:
			st := x.X.Type().Underlying().(*types.Struct)
			return st.Field(x.Field).Name() == "rank" && sameRoot(x.X, root)
		}
		return false
	}
	for _, b := range f.Blocks {
		ifi, ok := b.Instrs[len(b.Instrs)-1].(*ssa.If)
		if !ok {
			continue
		}
		bo, ok := ifi.Cond.(*ssa.BinOp)
		if !ok || (bo.Op != token.EQL && bo.Op != token.NEQ) {
			continue
		}
		var other ssa.Value
		if isRankOf(bo.X) {
			other = bo.Y
		} else if isRankOf(bo.Y) {
			other = bo.X
		} else {
			continue
		}
		c, ok := other.(*ssa.Const)
		if !ok || c.Value == nil || c.Value.Kind() != constant.Int {
			continue
		}
		// the constant `empty` is the zero rank in this package; accept any rank test whose
		// equal-side successor cannot reach the use when comparing with empty (0)
		isZero := true
		if v, _ := constant.Int64Val(c.Value); v != 0 {
			isZero = false
		}
		// rank == empty: the equal side is the bad one; rank == <non-empty kind>: the unequal side is
		badSucc := b.Succs[0]
		if (bo.Op == token.NEQ) == isZero {
			badSucc = b.Succs[1]
		}
		if guardedBy(b, badSucc, use) {
			return true
		}
	}
	return false
}

func sameRoot(a, b ssa.Value) bool {
	if a == b {
		return true
	}
	// two loads of the same cell / two field projections of the same struct value
	ua, ok1 := a.(*ssa.UnOp)
	ub, ok2 := b.(*ssa.UnOp)
	if ok1 && ok2 && ua.X == ub.X {
		return true
	}
	return false
}

type nilFinding struct {
	fn    *ssa.Function
	use   ssa.Instruction
	field string
}

// nilSpanRule returns, per load of span.min/max that is dereferenced, whether it is protected.
func nilSpanRule(p *Prog) (ok, bad []nilFinding) {
	n := newNilAnalysis(p)
	for _, f := range n.fns {
		for _, b := range f.Blocks {
			for _, in := range b.Instrs {
				v, isVal := in.(ssa.Value)
				if !isVal || !isVersionPtr(v.Type()) {
					continue
				}
				root, field, isLoad := spanFieldLoad(v)
				if !isLoad {
					continue
				}
				for _, u := range n.derefUses(v) {
					fd := nilFinding{f, u, field}
					if nilChecked(f, v, u.Block()) || rankGuarded(f, root, u.Block()) {
						ok = append(ok, fd)
					} else {
						bad = append(bad, fd)
					}
				}
			}
		}
	}
	sortF := func(s []nilFinding) {
		sort.Slice(s, func(i, j int) bool { return s[i].use.Pos() < s[j].use.Pos() })
	}
	sortF(ok)
	sortF(bad)
	return
}

// errNilRule (C04.8 ERR-NIL): a function that returns (*T, error) and has a
// `return nil, err` path promises a usable pointer only when the error is nil.
// A caller that does not look at the error and then dereferences the pointer
// (calls a method on it, reads a field) panics on exactly the inputs for which
// the callee failed, e.g. a requirement string that does not parse. For every
// in-scope call of such a function whose error result is unused or never
// tested: the pointer result is not dereferenced.
func errNilRule(r *Report, p *Prog, rule string) int {
	// callees that can return (nil, non-nil error)
	mayReturnNil := map[*ssa.Function]bool{}
	for _, f := range p.Funcs {
		if f.Blocks == nil || f.Signature.Results().Len() != 2 {
			continue
		}
		if _, isPtr := f.Signature.Results().At(0).Type().Underlying().(*types.Pointer); !isPtr {
			continue
		}
		if f.Signature.Results().At(1).Type().String() != "error" {
			continue
		}
		for _, b := range f.Blocks {
			if ret, ok := b.Instrs[len(b.Instrs)-1].(*ssa.Return); ok && len(ret.Results) == 2 {
				if c, ok := ret.Results[0].(*ssa.Const); ok && c.IsNil() {
					mayReturnNil[f] = true
				}
			}
		}
	}
	// ... and callees that hand on the pointer of such a callee
	for changed := true; changed; {
		changed = false
		for _, f := range p.Funcs {
			if mayReturnNil[f] || f.Blocks == nil || f.Signature.Results().Len() != 2 {
				continue
			}
			for _, b := range f.Blocks {
				ret, ok := b.Instrs[len(b.Instrs)-1].(*ssa.Return)
				if !ok || len(ret.Results) != 2 {
					continue
				}
				if ex, ok := ret.Results[0].(*ssa.Extract); ok && ex.Index == 0 {
					if c, ok := ex.Tuple.(*ssa.Call); ok && c.Common().StaticCallee() != nil && mayReturnNil[c.Common().StaticCallee()] {
						mayReturnNil[f] = true
						changed = true
					}
				}
			}
		}
	}
	n := 0
	for _, f := range p.Funcs {
		if !p.inScope(f) || f.Blocks == nil || f.Synthetic != "" {
			continue
		}
		per := 0
		for _, b := range f.Blocks {
			for _, in := range b.Instrs {
				c, ok := in.(*ssa.Call)
				if !ok {
					continue
				}
				sc := c.Common().StaticCallee()
				if sc == nil || !mayReturnNil[sc] || c.Referrers() == nil {
					continue
				}
				var ptr, errv *ssa.Extract
				for _, ref := range *c.Referrers() {
					if ex, ok := ref.(*ssa.Extract); ok {
						if ex.Index == 0 {
							ptr = ex
						} else {
							errv = ex
						}
					}
				}
				if ptr == nil {
					continue
				}
				errUsed := false
				if errv != nil && errv.Referrers() != nil {
					for _, u := range *errv.Referrers() {
						if _, dbg := u.(*ssa.DebugRef); !dbg {
							errUsed = true
						}
					}
				}
				if errUsed {
					continue // the error is looked at; which branch dereferences is C04.1-7's and the tests' business
				}
				n++
				per++
				key := fmt.Sprintf("%s: result of %s #%d, whose error is discarded, is not dereferenced", fnKey(f), fnKey(sc), per)
				var deref ssa.Instruction
				seenV := map[ssa.Value]bool{}
				var look func(v ssa.Value, d int)
				look = func(v ssa.Value, d int) {
					if deref != nil || d > 6 || seenV[v] || v.Referrers() == nil {
						return
					}
					seenV[v] = true
					for _, u := range *v.Referrers() {
						switch x := u.(type) {
						case *ssa.FieldAddr:
							if x.X == v {
								deref = x
							}
						case *ssa.UnOp:
							if x.X == v {
								if _, isCell := v.(*ssa.Alloc); isCell {
									look(x, d+1) // a load of the variable: follow the loaded pointer
								} else if _, isFV := v.(*ssa.FreeVar); isFV {
									look(x, d+1)
								} else {
									deref = x
								}
							}
						case *ssa.Call:
							if len(x.Common().Args) > 0 && x.Common().Args[0] == v && x.Common().StaticCallee() != nil && x.Common().StaticCallee().Signature.Recv() != nil {
								deref = x
							}
						case *ssa.Store:
							// the pointer is kept in a local variable (a captured one lives in a cell)
							if x.Val == v {
								if al, ok := x.Addr.(*ssa.Alloc); ok {
									look(al, d+1)
								}
							}
						case *ssa.MakeClosure:
							if fnc, ok := x.Fn.(*ssa.Function); ok {
								for i, bnd := range x.Bindings {
									if bnd == v && i < len(fnc.FreeVars) {
										look(fnc.FreeVars[i], d+1)
									}
								}
							}
						case *ssa.Phi:
							look(x, d+1)
						}
					}
				}
				look(ptr, 0)
				if deref != nil {
					r.bad(rule, key, p.pos(deref.Pos()), fnKey(sc)+" returns a nil pointer together with its error, the error is discarded here, and the pointer is dereferenced: the input for which the callee fails (a requirement that does not parse) makes this panic instead of returning an error")
				} else {
					r.ok(rule, key, p.pos(c.Pos()), "the pointer is only passed on or compared")
				}
			}
		}
	}
	return n
}
