package main

// Rules added after the third round of independently seeded changes.

import (
	"fmt"
	"go/token"
	"go/types"
	"sort"
	"strings"

	"golang.org/x/tools/go/ssa"
)

// keyCoverRule (C14.e): a lookup method reads every leaf component of the key
// it is given (a whole-struct use — map index, ==, call argument — reads all).
func keyCoverRule(r *Report, p *Prog, rule string, fnName string, paramIdx int) {
	f := p.lookupFn(fnName)
	if f == nil {
		r.bad(rule, fnName, "", "function not found: anchor lost")
		return
	}
	prm := f.Params[paramIdx]
	st, ok := prm.Type().Underlying().(*types.Struct)
	if !ok {
		r.bad(rule, fnName, p.pos(f.Pos()), "key parameter is not a struct")
		return
	}
	leaves := structLeaves(st)
	read := map[string]bool{}
	leafReads(p, prm, leaves, read)
	var missing []string
	for _, l := range leaves {
		if !read[l] {
			missing = append(missing, l)
		}
	}
	key := fnKey(f) + ": reads every component of its key"
	if len(missing) > 0 {
		r.bad(rule, key, p.pos(f.Pos()), fmt.Sprintf("the lookup never reads %v of the key it is given: keys that differ only there are reported as the same entry, so something never added can be reported as found", missing))
	} else {
		r.ok(rule, key, p.pos(f.Pos()), fmt.Sprintf("all leaf components %v are read (whole-key comparisons and map indexing read all of them)", leaves))
	}
}

// structLeaves lists the leaf field paths of a struct type.
func structLeaves(st *types.Struct) []string {
	var leaves []string
	var walk func(prefix string, s *types.Struct)
	walk = func(prefix string, s *types.Struct) {
		for i := 0; i < s.NumFields(); i++ {
			fl := s.Field(i)
			if sub, ok := fl.Type().Underlying().(*types.Struct); ok {
				walk(prefix+fl.Name()+".", sub)
			} else {
				leaves = append(leaves, prefix+fl.Name())
			}
		}
	}
	walk("", st)
	return leaves
}

// leafReads marks in read the leaves of the struct value (or pointer to
// struct, or cell holding it) v that the enclosing function reads. A
// whole-struct use (==, map index, argument of an in-scope call) reads all.
func leafReads(p *Prog, v0 ssa.Value, leaves []string, read map[string]bool) {
	markAll := func(prefix string) {
		for _, l := range leaves {
			if strings.HasPrefix(l, prefix) {
				read[l] = true
			}
		}
	}
	var visit func(v ssa.Value, prefix string, depth int)
	visit = func(v ssa.Value, prefix string, depth int) {
		if depth > 10 {
			return
		}
		refs := v.Referrers()
		if refs == nil {
			return
		}
		for _, ref := range *refs {
			switch x := ref.(type) {
			case *ssa.Field:
				if x.X == v {
					name := x.X.Type().Underlying().(*types.Struct).Field(x.Field).Name()
					if _, isS := x.Type().Underlying().(*types.Struct); isS {
						visit(x, prefix+name+".", depth+1)
					} else {
						// a leaf value: any use counts as a read
						if x.Referrers() != nil && len(*x.Referrers()) > 0 {
							read[prefix+name] = true
						}
					}
				}
			case *ssa.FieldAddr:
				if x.X == v {
					stt := x.X.Type().Underlying().(*types.Pointer).Elem().Underlying().(*types.Struct)
					name := stt.Field(x.Field).Name()
					if _, isS := stt.Field(x.Field).Type().Underlying().(*types.Struct); isS {
						visit(x, prefix+name+".", depth+1)
					} else if x.Referrers() != nil {
						for _, r2 := range *x.Referrers() {
							if u, ok := r2.(*ssa.UnOp); ok && u.Op == token.MUL && u.Referrers() != nil && len(*u.Referrers()) > 0 {
								read[prefix+name] = true
							}
						}
					}
				}
			case *ssa.UnOp: // load of a cell / pointer to struct
				if x.Op == token.MUL && x.X == v {
					visit(x, prefix, depth+1)
				}
			case *ssa.Store:
				if x.Val == v {
					if al, ok := x.Addr.(*ssa.Alloc); ok {
						visit(al, prefix, depth+1)
					}
				}
			case *ssa.BinOp:
				if x.Op == token.EQL || x.Op == token.NEQ {
					markAll(prefix)
				}
			case *ssa.Lookup:
				if x.Index == v {
					markAll(prefix)
				}
			case *ssa.MapUpdate:
				if x.Key == v {
					markAll(prefix)
				}
			case ssa.CallInstruction:
				// passing the (sub)key to an in-scope function reads it; formatting it for an
				// error message (MakeInterface -> fmt) does not go through here
				if sc := x.Common().StaticCallee(); sc != nil && p.inScope(sc) {
					markAll(prefix)
				}
			case *ssa.Phi:
				visit(x, prefix, depth+1)
			}
		}
	}
	visit(v0, "", 0)
}

// loopAccountPred is loopAccount with an arbitrary marker predicate on blocks.
func loopAccountPred(l *loop, marker func(*ssa.BasicBlock) bool) [][]*ssa.BasicBlock {
	type item struct {
		b    *ssa.BasicBlock
		path []*ssa.BasicBlock
	}
	var bad [][]*ssa.BasicBlock
	seen := map[*ssa.BasicBlock]bool{}
	var stack []item
	for _, s := range l.header.Succs {
		if l.body[s] {
			stack = append(stack, item{s, []*ssa.BasicBlock{l.header, s}})
		}
	}
	if marker(l.header) {
		return nil
	}
	for len(stack) > 0 {
		it := stack[len(stack)-1]
		stack = stack[:len(stack)-1]
		if seen[it.b] {
			continue
		}
		seen[it.b] = true
		if marker(it.b) {
			continue
		}
		if _, ok := it.b.Instrs[len(it.b.Instrs)-1].(*ssa.Return); ok {
			continue
		}
		for _, s := range it.b.Succs {
			np := append(append([]*ssa.BasicBlock{}, it.path...), s)
			if s == l.header {
				bad = append(bad, np)
				continue
			}
			if !l.body[s] {
				continue // leaves the loop (return / after loop)
			}
			stack = append(stack, item{s, np})
		}
	}
	return bad
}

// dupeAdjacentRule (C13.d): the duplicate scan compares every adjacent pair.
func dupeAdjacentRule(r *Report, p *Prog, rule string) {
	f := p.lookupFn("(*resolve.orderedNodes).hasDupe")
	if f == nil {
		r.bad(rule, "(*resolve.orderedNodes).hasDupe", "", "function not found: anchor lost")
		return
	}
	key := fnKey(f) + ": every adjacent pair is compared"
	loops := naturalLoops(f)
	if len(loops) == 0 {
		r.bad(rule, key, p.pos(f.Pos()), "no scanning loop found")
		return
	}
	idxOf := func(v ssa.Value) ssa.Value {
		// element loaded from Nodes[idx]
		for d := 0; d < 4 && v != nil; d++ {
			switch x := v.(type) {
			case *ssa.UnOp:
				v = x.X
			case *ssa.IndexAddr:
				return x.Index
			case *ssa.Index:
				return x.Index
			default:
				return nil
			}
		}
		return nil
	}
	isAdjacentCompare := func(b *ssa.BasicBlock) bool {
		for _, in := range b.Instrs {
			c, ok := in.(*ssa.Call)
			if !ok || staticCalleeName(c) != "(resolve.Node).Compare" || len(c.Common().Args) != 2 {
				continue
			}
			i0, i1 := idxOf(c.Common().Args[0]), idxOf(c.Common().Args[1])
			if i0 == nil || i1 == nil {
				continue
			}
			isPrev := func(a, b ssa.Value) bool {
				bo, ok := a.(*ssa.BinOp)
				if !ok || bo.Op != token.SUB || bo.X != b {
					return false
				}
				k, ok := bo.Y.(*ssa.Const)
				return ok && k.Value != nil && k.Int64() == 1
			}
			if isPrev(i0, i1) || isPrev(i1, i0) {
				return true
			}
		}
		return false
	}
	for _, l := range loops {
		found := false
		for b := range l.body {
			if isAdjacentCompare(b) {
				found = true
			}
		}
		if !found {
			continue
		}
		if bad := loopAccountPred(l, isAdjacentCompare); len(bad) > 0 {
			pp := pathPositions(p, bad[0])
			r.bad(rule, key, pp[len(pp)-1], "an iteration of the duplicate scan can finish without comparing Nodes[i-1] with Nodes[i]: equal adjacent nodes go unnoticed for some positions, so whether a duplicate is reported depends on where the sort left it", pp...)
		} else {
			r.ok(rule, key, blockPos(p, l.header), "every iteration compares Nodes[i-1] with Nodes[i] (or returns)")
		}
		return
	}
	r.bad(rule, key, p.pos(f.Pos()), "the scan no longer compares adjacent nodes Nodes[i-1] and Nodes[i]")
}

// inheritedSetRule (C07.f): the exclusion set stored in a traversal node is
// never written in place (children inherit it by reference).
func inheritedSetRule(r *Report, p *Prog, e *Effect, rule string) {
	isNodeField := func(v ssa.Value) *types.Var {
		fv := nearestField(v)
		if fv == nil {
			return nil
		}
		if k := fieldOwnerKey(p, fv); strings.HasPrefix(k, "resolve/maven.version.") {
			return fv
		}
		return nil
	}
	n := 0
	for _, f := range pkgFuncs(p, "resolve/maven") {
		for _, b := range f.Blocks {
			for _, in := range b.Instrs {
				switch x := in.(type) {
				case *ssa.MapUpdate:
					n++
					if fv := isNodeField(x.Map); fv != nil {
						r.bad(rule, fnKey(f)+": map update of version."+fv.Name(), p.pos(x.Pos()), "the set stored in a traversal node is written in place; the children and siblings that inherited it by reference see the change")
					}
				case *ssa.Call:
					sc := x.Common().StaticCallee()
					if sc == nil || e.sums[sc] == nil {
						continue
					}
					for k, a := range x.Common().Args {
						if k >= maxParam {
							break
						}
						if _, isMap := a.Type().Underlying().(*types.Map); !isMap {
							continue
						}
						writes := false
						for _, o := range e.sums[sc].writes {
							if o.p&(1<<uint(2*k)) != 0 {
								writes = true
							}
						}
						if !writes {
							continue
						}
						n++
						key := fmt.Sprintf("%s: %s writes its map argument #%d", fnKey(f), sc.Name(), k)
						if fv := isNodeField(a); fv != nil {
							r.bad(rule, key, p.pos(x.Pos()), "the map handed to "+sc.Name()+" for writing is the set stored in a traversal node (version."+fv.Name()+"), which parent, siblings and their sub-trees share: exclusions declared on one dependency leak to paths that do not declare them")
						} else {
							r.ok(rule, key, p.pos(x.Pos()), "the written map is not a set stored in a traversal node (it is the dependency's own freshly parsed set)")
						}
					}
				}
			}
		}
	}
	r.floor(rule, "map writes and map-writing calls in the Maven resolver", n, 3)
}

// sortSelfRule: the less callback of sort.Slice indexes the slice being sorted.
func sortSelfRule(r *Report, p *Prog, rule string, fns []*ssa.Function) int {
	n := 0
	for _, f := range fns {
		for _, b := range f.Blocks {
			for _, in := range b.Instrs {
				call, ok := in.(*ssa.Call)
				if !ok {
					continue
				}
				name := staticCalleeName(call)
				if name != "sort.Slice" && name != "sort.SliceStable" {
					continue
				}
				mc, ok := call.Common().Args[1].(*ssa.MakeClosure)
				if !ok {
					continue
				}
				n++
				fn := mc.Fn.(*ssa.Function)
				sorted := unwrapIface(call.Common().Args[0])
				// names for the captured variables, shared by both contexts
				outer := &pathCtx{fn: f, roots: map[ssa.Value]string{}, memo: map[ssa.Value]string{}}
				inner := &pathCtx{fn: fn, roots: map[ssa.Value]string{}, memo: map[ssa.Value]string{}}
				for k, bnd := range mc.Bindings {
					nm := fmt.Sprintf("$b%d", k)
					outer.roots[bnd] = nm
					inner.roots[fn.FreeVars[k]] = nm
				}
				want := strings.TrimPrefix(outer.path(sorted), "&")
				key := fmt.Sprintf("%s: sort.Slice callback indexes the sorted slice", fnKey(fn))
				if want == "" {
					r.ok(rule, key, p.pos(call.Pos()), "the sorted slice is not expressible over the captured variables (undecided, skipped)")
					continue
				}
				var foreign []string
				for _, fb := range fn.Blocks {
					for _, fi := range fb.Instrs {
						var base, idx ssa.Value
						switch x := fi.(type) {
						case *ssa.IndexAddr:
							base, idx = x.X, x.Index
						case *ssa.Index:
							base, idx = x.X, x.Index
						default:
							continue
						}
						if idx != ssa.Value(fn.Params[0]) && idx != ssa.Value(fn.Params[1]) {
							continue
						}
						got := strings.TrimPrefix(inner.path(base), "&")
						if got != "" && got != want {
							foreign = append(foreign, got)
						}
					}
				}
				if len(foreign) > 0 {
					sort.Strings(foreign)
					r.bad(rule, key, p.pos(call.Pos()), fmt.Sprintf("the callback compares elements of %s while sort.Slice permutes %s: as soon as one swap happens the comparisons no longer describe the slice being sorted", foreign[0], want))
				} else {
					r.ok(rule, key, p.pos(call.Pos()), "the callback indexes "+want+", the slice being sorted")
				}
			}
		}
	}
	return n
}

// errPropagatedRule: the error returned by a given call inside fn reaches a
// return of fn (it is not swallowed).
func errPropagated(f *ssa.Function, calleeSuffix string) (found bool, propagated bool, pos token.Pos) {
	for _, b := range f.Blocks {
		for _, in := range b.Instrs {
			c, ok := in.(*ssa.Call)
			if !ok || !strings.HasSuffix(staticCalleeName(c), calleeSuffix) {
				continue
			}
			found = true
			pos = c.Pos()
			res := c.Common().Signature().Results()
			var errVal ssa.Value
			for _, ref := range *c.Referrers() {
				if ex, ok := ref.(*ssa.Extract); ok && ex.Index == res.Len()-1 {
					errVal = ex
				}
			}
			if errVal == nil {
				return
			}
			var reaches func(v ssa.Value, d int) bool
			reaches = func(v ssa.Value, d int) bool {
				if d > 6 || v.Referrers() == nil {
					return false
				}
				for _, ref := range *v.Referrers() {
					switch x := ref.(type) {
					case *ssa.Return:
						return true
					case *ssa.Store:
						if x.Val != v {
							continue
						}
						// stored into a local (a spilled variable, or the argument array of a variadic call)
						if al, ok := rootRef(x.Addr).(*ssa.Alloc); ok {
							for _, r2 := range *al.Referrers() {
								switch u := r2.(type) {
								case *ssa.UnOp:
									if reaches(u, d+1) {
										return true
									}
								case *ssa.Slice:
									if reaches(u, d+1) {
										return true
									}
								}
							}
						}
					case *ssa.Call: // wrapped, e.g. fmt.Errorf("...%w", err)
						if reaches(x, d+1) {
							return true
						}
					case *ssa.MakeInterface, *ssa.ChangeInterface, *ssa.ChangeType, *ssa.Phi, *ssa.Slice, *ssa.IndexAddr:
						if reaches(x.(ssa.Value), d+1) {
							return true
						}
					}
				}
				return false
			}
			propagated = reaches(errVal, 0)
			return
		}
	}
	return
}
