package main

import (
	"go/types"
	"strings"

	"golang.org/x/tools/go/ssa"
)

// argMapsCopiedRule (C14.i ARG-MAPS-COPIED): the values AddVersion is given are
// structs that carry maps (Version.AttrSet; the Type of every requirement).
// Copying the struct, or the slice of structs, still shares those maps with the
// caller: a later SetAttr/AddAttr on the caller's variable rewrites what the
// client reports for a version added earlier. Decided:
//
//	(A) every path from the entry to a store of the version into the client's
//	    list passes a store of AttrSet.Clone() back into the version;
//	(B) the slice stored as the version's requirements has the Type of every
//	    element replaced by a Clone() result, unconditionally, in a loop that
//	    runs before the store.
//
// No "only when non-empty" shortcut is accepted: Empty()/IsRegular() look at
// the length of the map, and a set that is empty but already owns a map (the
// Clone of an empty set used to be one) would stay shared.
func argMapsCopiedRule(r *Report, p *Prog, rule string) {
	f := p.lookupFn("(*resolve.LocalClient).AddVersion")
	if f == nil {
		r.bad(rule, "(*resolve.LocalClient).AddVersion", "", "function not found: anchor lost")
		return
	}
	// the spilled parameter v
	var vAlloc *ssa.Alloc
	for _, in := range f.Blocks[0].Instrs {
		if st, ok := in.(*ssa.Store); ok {
			if prm, ok := st.Val.(*ssa.Parameter); ok && strings.HasSuffix(prm.Type().String(), "resolve.Version") {
				vAlloc, _ = st.Addr.(*ssa.Alloc)
			}
		}
	}
	keyA := fnKey(f) + ": the attribute map of the added version is not shared with the caller"
	keyB := fnKey(f) + ": the attribute maps of the stored requirements are not shared with the caller"
	if vAlloc == nil {
		r.bad(rule, keyA, p.pos(f.Pos()), "the Version parameter is not spilled to a local (anchor lost): cannot follow its attribute set")
	} else {
		isAttrAddr := func(v ssa.Value) bool {
			fa, ok := v.(*ssa.FieldAddr)
			if !ok || fa.X != ssa.Value(vAlloc) {
				return false
			}
			st := fa.X.Type().Underlying().(*types.Pointer).Elem().Underlying().(*types.Struct)
			return st.Field(fa.Field).Name() == "AttrSet"
		}
		isCloneStore := func(in ssa.Instruction) bool {
			st, ok := in.(*ssa.Store)
			if !ok || !isAttrAddr(st.Addr) {
				return false
			}
			c, ok := st.Val.(*ssa.Call)
			return ok && c.Common().StaticCallee() != nil && c.Common().StaticCallee().Name() == "Clone"
		}
		isRetain := func(in ssa.Instruction) bool {
			st, ok := in.(*ssa.Store)
			if !ok {
				return false
			}
			ld, ok := st.Val.(*ssa.UnOp)
			if !ok || ld.X != ssa.Value(vAlloc) {
				return false
			}
			_, toIndex := st.Addr.(*ssa.IndexAddr)
			return toIndex
		}
		type st struct {
			b    *ssa.BasicBlock
			pass bool
		}
		seen := map[st]bool{}
		var offending ssa.Instruction
		retains := 0
		var walk func(b *ssa.BasicBlock, pass bool)
		walk = func(b *ssa.BasicBlock, pass bool) {
			if offending != nil || seen[st{b, pass}] {
				return
			}
			seen[st{b, pass}] = true
			for _, in := range b.Instrs {
				if isCloneStore(in) {
					pass = true
				}
				if isRetain(in) {
					retains++
					if !pass {
						offending = in
						return
					}
				}
			}
			for _, s := range b.Succs {
				walk(s, pass)
			}
		}
		walk(f.Blocks[0], false)
		switch {
		case offending != nil:
			r.bad(rule, keyA, p.pos(offending.Pos()), "the version is stored in the client's list on a path on which its attribute set was not cloned: the stored Version shares the map inside AttrSet with the caller's variable, so a later SetAttr there changes what Version, Versions and MatchingVersions report for this version")
		case retains == 0:
			r.bad(rule, keyA, p.pos(f.Pos()), "no store of the version into the client's list found: anchor lost")
		default:
			r.ok(rule, keyA, p.pos(f.Pos()), "every store of the version follows AttrSet.Clone()")
		}
	}
	// (B)
	var upd *ssa.MapUpdate
	for _, b := range f.Blocks {
		for _, in := range b.Instrs {
			if mu, ok := in.(*ssa.MapUpdate); ok && strings.HasSuffix(mu.Value.Type().String(), "[]deps.dev/util/resolve.RequirementVersion") {
				upd = mu
			}
		}
	}
	if upd == nil {
		r.bad(rule, keyB, p.pos(f.Pos()), "no store of a requirement slice into the client found: anchor lost")
		return
	}
	loops := naturalLoops(f)
	cloned := false
	for _, b := range f.Blocks {
		for _, in := range b.Instrs {
			st, ok := in.(*ssa.Store)
			if !ok {
				continue
			}
			fa, ok := st.Addr.(*ssa.FieldAddr)
			if !ok {
				continue
			}
			ia, ok := fa.X.(*ssa.IndexAddr)
			if !ok || ia.X != upd.Value {
				continue
			}
			c, ok := st.Val.(*ssa.Call)
			if !ok || c.Common().StaticCallee() == nil || c.Common().StaticCallee().Name() != "Clone" {
				continue
			}
			if l := innermostLoop(loops, b); l != nil && l.header.Dominates(upd.Block()) {
				// unconditional in the loop: the store dominates every back edge
				every := true
				for bb := range l.body {
					for _, s := range bb.Succs {
						if s == l.header && !b.Dominates(bb) {
							every = false
						}
					}
				}
				if every {
					cloned = true
				}
			}
		}
	}
	if cloned {
		r.ok(rule, keyB, p.pos(upd.Pos()), "the Type of every element of the stored slice is replaced by a Clone() in a loop that precedes the store")
	} else {
		r.bad(rule, keyB, p.pos(upd.Pos()), "the requirement slice is copied, but a copy of a RequirementVersion still shares the map inside its Type with the caller's element: a later AddAttr on the caller's slice changes what Requirements reports for this version")
	}
}
