package main

import (
	"fmt"
	"go/constant"
	"go/types"

	"golang.org/x/tools/go/ssa"
)

// unitOpenRule (C03/UNIT-OPEN): span.contains answers for a span of rank unit
// without looking at the open flags, and Set.Intersect takes care never to
// build a span from touching ends of which one is open. The constructor every
// other producer goes through, newSpan, must therefore not return a unit span
// for equal bounds unless it has found both ends closed: [a,a) and (a,a] hold
// nothing, yet as a unit they match a (Maven "(,0)" matched 0).
//
// Decided on newSpan: every path from the true edge of min.equal(max) to a
// store of rank = unit has taken the false edge of a test of minOpen and of a
// test of maxOpen. The alternative repair, contains consulting the flags in
// its unit case, is accepted too.
func unitOpenRule(r *Report, p *Prog, rule string) {
	f := p.lookupFn("semver.newSpan")
	cf := p.lookupFn("(semver.span).contains")
	key := "semver.newSpan: unit span only for closed ends"
	if f == nil || cf == nil {
		r.bad(rule, key, "", "newSpan or span.contains not found: anchor lost")
		return
	}
	pk := p.pkg("semver")
	uc, _ := pk.Types.Scope().Lookup("unit").(*types.Const)
	if uc == nil {
		r.bad(rule, key, p.pos(f.Pos()), "constant unit not found: anchor lost")
		return
	}
	unitVal, _ := constant.Int64Val(uc.Val())
	isUnitConst := func(v ssa.Value) bool {
		c, ok := v.(*ssa.Const)
		if !ok || c.Value == nil || !types.Identical(c.Type(), uc.Type()) {
			return false
		}
		x, _ := constant.Int64Val(c.Value)
		return x == unitVal
	}
	fieldName := func(fa *ssa.FieldAddr) string {
		st, ok := fa.X.Type().Underlying().(*types.Pointer).Elem().Underlying().(*types.Struct)
		if !ok {
			return ""
		}
		return st.Field(fa.Field).Name()
	}
	// (a) does contains consult the flags in its unit case?
	containsReadsFlags := func() bool {
		// blocks reachable from the unit case before a return: find the block
		// entered on rank == unit
		for _, b := range cf.Blocks {
			ifi, ok := b.Instrs[len(b.Instrs)-1].(*ssa.If)
			if !ok {
				continue
			}
			bo, ok := ifi.Cond.(*ssa.BinOp)
			if !ok || !(isUnitConst(bo.X) || isUnitConst(bo.Y)) {
				continue
			}
			seen := map[*ssa.BasicBlock]bool{}
			minO, maxO := false, false
			var walk func(bb *ssa.BasicBlock)
			walk = func(bb *ssa.BasicBlock) {
				if seen[bb] {
					return
				}
				seen[bb] = true
				for _, in := range bb.Instrs {
					switch x := in.(type) {
					case *ssa.FieldAddr:
						switch fieldName(x) {
						case "minOpen":
							minO = true
						case "maxOpen":
							maxO = true
						}
					case *ssa.Field:
						if st, ok := x.X.Type().Underlying().(*types.Struct); ok {
							switch st.Field(x.Field).Name() {
							case "minOpen":
								minO = true
							case "maxOpen":
								maxO = true
							}
						}
					}
				}
				for _, s := range bb.Succs {
					walk(s)
				}
			}
			walk(b.Succs[0])
			return minO && maxO
		}
		return false
	}
	// (b) newSpan
	var minOpen, maxOpen *ssa.Parameter
	for _, prm := range f.Params {
		switch prm.Name() {
		case "minOpen":
			minOpen = prm
		case "maxOpen":
			maxOpen = prm
		}
	}
	if minOpen == nil || maxOpen == nil {
		r.bad(rule, key, p.pos(f.Pos()), "parameters minOpen/maxOpen not found: anchor lost")
		return
	}
	var start *ssa.BasicBlock
	for _, b := range f.Blocks {
		ifi, ok := b.Instrs[len(b.Instrs)-1].(*ssa.If)
		if !ok {
			continue
		}
		c, ok := ifi.Cond.(*ssa.Call)
		if !ok {
			continue
		}
		if sc := c.Common().StaticCallee(); sc != nil && sc.Name() == "equal" && len(c.Common().Args) == 2 {
			start = b.Succs[0]
		}
	}
	if start == nil {
		r.bad(rule, key, p.pos(f.Pos()), "the test min.equal(max) was not found in newSpan: anchor lost")
		return
	}
	type st struct {
		b    *ssa.BasicBlock
		from *ssa.BasicBlock
		mask int
	}
	seen := map[st]bool{}
	var offending ssa.Instruction
	nUnit := 0
	var walk func(b, from *ssa.BasicBlock, mask int)
	walk = func(b, from *ssa.BasicBlock, mask int) {
		if offending != nil || seen[st{b, from, mask}] {
			return
		}
		seen[st{b, from, mask}] = true
		for _, in := range b.Instrs {
			if s, ok := in.(*ssa.Store); ok && isUnitConst(s.Val) {
				if fa, ok := s.Addr.(*ssa.FieldAddr); ok && fieldName(fa) == "rank" {
					nUnit++
					if mask != 3 {
						offending = in
						return
					}
				}
			}
		}
		if ifi, ok := b.Instrs[len(b.Instrs)-1].(*ssa.If); ok {
			cond := ifi.Cond
			// a condition merged by a phi of this block (a || b written as a value):
			// take the operand that belongs to the edge we came in on
			if ph, ok := cond.(*ssa.Phi); ok && ph.Block() == b && from != nil {
				for k, pr := range b.Preds {
					if pr == from {
						cond = ph.Edges[k]
					}
				}
			}
			if c, ok := cond.(*ssa.Const); ok && c.Value != nil && c.Value.Kind() == constant.Bool {
				if constant.BoolVal(c.Value) {
					walk(b.Succs[0], b, mask)
				} else {
					walk(b.Succs[1], b, mask)
				}
				return
			}
			bit := 0
			if cond == ssa.Value(minOpen) {
				bit = 1
			} else if cond == ssa.Value(maxOpen) {
				bit = 2
			}
			walk(b.Succs[0], b, mask)
			walk(b.Succs[1], b, mask|bit)
			return
		}
		for _, s := range b.Succs {
			walk(s, b, mask)
		}
	}
	walk(start, nil, 0)
	switch {
	case offending == nil && nUnit > 0:
		r.ok(rule, key, p.pos(f.Pos()), fmt.Sprintf("every path from min.equal(max) to the unit span has found minOpen and maxOpen false (%d unit stores)", nUnit))
	case offending == nil:
		r.ok(rule, key, p.pos(f.Pos()), "newSpan builds no unit span on the equal-bounds path")
	case containsReadsFlags():
		r.ok(rule, key, p.pos(f.Pos()), "newSpan may return a half-open unit span, and span.contains consults both open flags in its unit case")
	default:
		r.bad(rule, key, p.pos(offending.Pos()), "newSpan returns a unit span for equal bounds without having found both ends closed, and span.contains ignores the open flags of a unit span: [a,a) and (a,a] hold nothing but match a")
	}
}
