package main

// PROTO engine (C17): complete comparison of api/v3 and api/v3alpha at the
// level of descriptors, of the .proto sources against the generated Go code,
// and of the resolver's system identifiers against the API enum.

import (
	"fmt"
	"go/ast"
	"go/constant"
	"go/parser"
	"go/token"
	"go/types"
	"path/filepath"
	"reflect"
	"sort"
	"strconv"
	"strings"

	"google.golang.org/genproto/googleapis/api/annotations"
	"google.golang.org/protobuf/proto"
	"google.golang.org/protobuf/types/descriptorpb"
)

// flatDesc flattens a file descriptor into path -> attribute string.
// withOrder adds declaration indexes (needed for .proto == .pb.go, not for
// wire compatibility).
func flatDesc(fd *descriptorpb.FileDescriptorProto, withOrder bool) map[string]string {
	out := map[string]string{}
	ord := func(i int) string {
		if withOrder {
			return fmt.Sprintf(" idx=%d", i)
		}
		return ""
	}
	out["file"] = fmt.Sprintf("package=%s syntax=%s", fd.GetPackage(), fd.GetSyntax())
	if withOrder {
		out["file"] += fmt.Sprintf(" name=%s deps=%v go_package=%s", fd.GetName(), fd.GetDependency(), fd.GetOptions().GetGoPackage())
	}
	var enum func(prefix string, i int, e *descriptorpb.EnumDescriptorProto)
	enum = func(prefix string, i int, e *descriptorpb.EnumDescriptorProto) {
		path := prefix + "enum:" + e.GetName()
		out[path] = fmt.Sprintf("alias=%v", e.GetOptions().GetAllowAlias()) + ord(i)
		for j, v := range e.Value {
			out[path+"/value:"+v.GetName()] = fmt.Sprintf("number=%d deprecated=%v", v.GetNumber(), v.GetOptions().GetDeprecated()) + ord(j)
		}
	}
	var msg func(prefix string, i int, m *descriptorpb.DescriptorProto)
	msg = func(prefix string, i int, m *descriptorpb.DescriptorProto) {
		path := prefix + "message:" + m.GetName()
		out[path] = fmt.Sprintf("map_entry=%v", m.GetOptions().GetMapEntry()) + ord(i)
		if withOrder {
			out[path] += fmt.Sprintf(" reserved=%v %v", m.GetReservedName(), m.GetReservedRange())
		}
		for j, o := range m.OneofDecl {
			out[path+"/oneof:"+o.GetName()] = "oneof" + ord(j)
		}
		for j, f := range m.Field {
			oneof := ""
			if f.OneofIndex != nil && int(f.GetOneofIndex()) < len(m.OneofDecl) {
				oneof = m.OneofDecl[f.GetOneofIndex()].GetName()
			}
			s := fmt.Sprintf("number=%d type=%s label=%s type_name=%s oneof=%s proto3_optional=%v packed=%v",
				f.GetNumber(), f.GetType(), f.GetLabel(), f.GetTypeName(), oneof, f.GetProto3Optional(), f.GetOptions().GetPacked())
			if withOrder {
				s += fmt.Sprintf(" json_name=%s deprecated=%v", f.GetJsonName(), f.GetOptions().GetDeprecated())
			}
			out[path+"/field:"+f.GetName()] = s + ord(j)
		}
		for j, n := range m.NestedType {
			msg(path+"/", j, n)
		}
		for j, e := range m.EnumType {
			enum(path+"/", j, e)
		}
	}
	for i, m := range fd.MessageType {
		msg("", i, m)
	}
	for i, e := range fd.EnumType {
		enum("", i, e)
	}
	for i, s := range fd.Service {
		path := "service:" + s.GetName()
		out[path] = "service" + ord(i)
		for j, m := range s.Method {
			h := ""
			if m.Options != nil && proto.HasExtension(m.Options, annotations.E_Http) {
				h = httpString(proto.GetExtension(m.Options, annotations.E_Http).(*annotations.HttpRule))
			}
			out[path+"/rpc:"+m.GetName()] = fmt.Sprintf("input=%s output=%s client_streaming=%v server_streaming=%v http={%s}",
				m.GetInputType(), m.GetOutputType(), m.GetClientStreaming(), m.GetServerStreaming(), h) + ord(j)
		}
	}
	return out
}

func httpString(r *annotations.HttpRule) string {
	if r == nil {
		return ""
	}
	verb, path := "", ""
	switch p := r.Pattern.(type) {
	case *annotations.HttpRule_Get:
		verb, path = "GET", p.Get
	case *annotations.HttpRule_Put:
		verb, path = "PUT", p.Put
	case *annotations.HttpRule_Post:
		verb, path = "POST", p.Post
	case *annotations.HttpRule_Delete:
		verb, path = "DELETE", p.Delete
	case *annotations.HttpRule_Patch:
		verb, path = "PATCH", p.Patch
	case *annotations.HttpRule_Custom:
		verb, path = "CUSTOM:"+p.Custom.GetKind(), p.Custom.GetPath()
	}
	s := fmt.Sprintf("%s %s body=%q response_body=%q selector=%q", verb, path, r.Body, r.ResponseBody, r.Selector)
	for _, a := range r.AdditionalBindings {
		s += " additional{" + httpString(a) + "}"
	}
	return s
}

// rawDescFromGo folds the []byte literal file_api_proto_rawDesc out of the
// syntax tree of api.pb.go and decodes it. No code from /repo runs.
func rawDescFromGo(file *ast.File) (*descriptorpb.FileDescriptorProto, error) {
	var raw []byte
	found := false
	var ferr error
	ast.Inspect(file, func(n ast.Node) bool {
		vs, ok := n.(*ast.ValueSpec)
		if !ok || len(vs.Names) != 1 || !strings.HasSuffix(vs.Names[0].Name, "_rawDesc") || len(vs.Values) != 1 {
			return true
		}
		switch v := vs.Values[0].(type) {
		case *ast.CompositeLit:
			found = true
			for _, e := range v.Elts {
				bl, ok := e.(*ast.BasicLit)
				if !ok {
					ferr = fmt.Errorf("non-literal element in raw descriptor")
					return false
				}
				x, err := strconv.ParseUint(bl.Value, 0, 8)
				if err != nil {
					ferr = err
					return false
				}
				raw = append(raw, byte(x))
			}
		case *ast.BasicLit: // newer protoc-gen-go: a string constant
			if v.Kind == token.STRING {
				s, err := strconv.Unquote(v.Value)
				if err != nil {
					ferr = err
					return false
				}
				found = true
				raw = []byte(s)
			}
		case *ast.BinaryExpr, *ast.CallExpr:
			// string concatenation or conversion of constant strings
			var sb strings.Builder
			okAll := true
			ast.Inspect(v, func(m ast.Node) bool {
				if bl, ok := m.(*ast.BasicLit); ok && bl.Kind == token.STRING {
					s, err := strconv.Unquote(bl.Value)
					if err != nil {
						okAll = false
					}
					sb.WriteString(s)
				}
				return true
			})
			if okAll && sb.Len() > 0 {
				found = true
				raw = []byte(sb.String())
			}
		}
		return false
	})
	if ferr != nil {
		return nil, ferr
	}
	if !found {
		return nil, fmt.Errorf("raw descriptor literal not found")
	}
	fd := &descriptorpb.FileDescriptorProto{}
	if err := proto.Unmarshal(raw, fd); err != nil {
		return nil, fmt.Errorf("raw descriptor does not decode: %v", err)
	}
	return fd, nil
}

type apiVersion struct {
	name      string // "v3", "v3alpha"
	dir       string
	protoDesc *descriptorpb.FileDescriptorProto
	goDesc    *descriptorpb.FileDescriptorProto
	fset      *token.FileSet
	pbFile    *ast.File
	grpcFile  *ast.File
}

func loadAPIVersion(name string) (*apiVersion, error) {
	v := &apiVersion{name: name, dir: filepath.Join(repoRoot, "api", name), fset: token.NewFileSet()}
	var err error
	if v.protoDesc, err = parseProtoFile(filepath.Join(v.dir, "api.proto")); err != nil {
		return nil, err
	}
	if v.pbFile, err = parser.ParseFile(v.fset, filepath.Join(v.dir, "api.pb.go"), nil, 0); err != nil {
		return nil, err
	}
	if v.grpcFile, err = parser.ParseFile(v.fset, filepath.Join(v.dir, "api_grpc.pb.go"), nil, 0); err != nil {
		return nil, err
	}
	if v.goDesc, err = rawDescFromGo(v.pbFile); err != nil {
		return nil, fmt.Errorf("%s/api.pb.go: %v", name, err)
	}
	return v, nil
}

func sortedKeys[V any](m map[string]V) []string {
	ks := make([]string, 0, len(m))
	for k := range m {
		ks = append(ks, k)
	}
	sort.Strings(ks)
	return ks
}

// checkC17 runs all PROTO rules.
func checkC17(r *Report) {
	r.Level = "translation_validation"
	r.Explain = "Static translation validation of the API artefacts: a proto3 parser written for this checker turns api/v3/api.proto and api/v3alpha/api.proto into descriptors; the descriptor protoc embedded in each api.pb.go is folded out of the Go syntax tree (a byte literal) and decoded, never executed. Rules: SUPERSET (every v3 descriptor element exists identically in v3alpha, HTTP bindings equal up to the version prefix), GEN-DESC (.proto == embedded descriptor, both directions, including order), GEN-GO (struct fields/tags, enum constants and name/value maps of api.pb.go == descriptor), GEN-GRPC (full-method constants, client and server interface method sets, ServiceDesc == service, and the bodies of the generated handlers and client stubs name their own method, message types and constant), SYSTEM-ID (constant-folded resolve.System identifiers == System enum numbers of /repo/api/v3/api.proto). Every element is enumerated, so the comparison is exhaustive."
	r.Trusted = []string{"go/parser, go/types, go/constant", "google.golang.org/protobuf v1.36.6 wire decoder and descriptorpb", "the proto3 parser in /verif/tools/protoparse.go (cross-checked against protoc's own output by rule GEN-DESC)"}
	r.Assume = []string{"wire compatibility is decided at the descriptor level (names, numbers, types, labels, oneof membership, streaming, HTTP rule); the behaviour of the server is out of scope"}
	var vs []*apiVersion
	for _, n := range []string{"v3", "v3alpha"} {
		v, err := loadAPIVersion(n)
		if err != nil {
			r.bad("C17/LOAD", "api/"+n, "api/"+n, "cannot read the API artefacts: "+err.Error())
			return
		}
		vs = append(vs, v)
	}
	v3, va := vs[0], vs[1]
	r.Programs = 0

	// SUPERSET on both representations (parsed proto and embedded descriptor).
	for _, pair := range []struct {
		what string
		a, b *descriptorpb.FileDescriptorProto
	}{{"proto", v3.protoDesc, va.protoDesc}, {"pb.go", v3.goDesc, va.goDesc}} {
		r.Programs++
		fa, fb := flatDesc(pair.a, false), flatDesc(pair.b, false)
		norm := func(s, ver string) string {
			s = strings.ReplaceAll(s, "deps_dev."+ver, "deps_dev.V")
			return strings.ReplaceAll(s, " /"+ver+"/", " /V/")
		}
		n := 0
		for _, k := range sortedKeys(fa) {
			n++
			r.Compared++
			key := pair.what + ":" + k
			want := norm(fa[k], "v3")
			got, ok := fb[k]
			switch {
			case !ok:
				r.bad("C17/SUPERSET", key, "api/v3alpha/api."+pair.what, "present in v3 but missing from v3alpha (v3: "+fa[k]+")")
			case norm(got, "v3alpha") != want:
				r.bad("C17/SUPERSET", key, "api/v3alpha/api."+pair.what, "differs: v3 has {"+fa[k]+"}, v3alpha has {"+got+"}")
			default:
				r.ok("C17/SUPERSET", key, "api/v3alpha/api."+pair.what, "identical in v3alpha: "+want)
			}
		}
		r.floor("C17/SUPERSET", "v3 descriptor elements ("+pair.what+")", n, 250)
	}

	for _, v := range vs {
		// GEN-DESC: .proto == embedded descriptor.
		r.Programs++
		fp, fg := flatDesc(v.protoDesc, true), flatDesc(v.goDesc, true)
		n := 0
		for _, k := range sortedKeys(fp) {
			n++
			r.Compared++
			key := v.name + ":" + k
			if g, ok := fg[k]; !ok {
				r.bad("C17/GEN-DESC", key, "api/"+v.name+"/api.pb.go", "declared in api.proto but absent from the descriptor embedded in api.pb.go")
			} else if g != fp[k] {
				r.bad("C17/GEN-DESC", key, "api/"+v.name+"/api.pb.go", "api.proto says {"+fp[k]+"}, api.pb.go embeds {"+g+"}")
			} else {
				r.ok("C17/GEN-DESC", key, "api/"+v.name+"/api.pb.go", "equal: "+g)
			}
		}
		for _, k := range sortedKeys(fg) {
			if _, ok := fp[k]; !ok {
				r.Compared++
				r.bad("C17/GEN-DESC", v.name+":"+k, "api/"+v.name+"/api.pb.go", "present in the descriptor embedded in api.pb.go but not declared in api.proto")
			}
		}
		min := 250
		if v.name == "v3alpha" {
			min = 330
		}
		r.floor("C17/GEN-DESC", v.name+" descriptor elements", n, min)
		checkGenGo(r, v)
		checkGenGRPC(r, v)
	}
	checkSystemIDs(r, v3)
	// the generated names of the resolver's identifiers cover every identifier
	nS := stringerCurrentRule(r, loadResolve("", false), "C17/STRINGER-CURRENT", "resolve", "System", "VersionType")
	r.floor("C17/STRINGER-CURRENT", "constants of resolve.System and resolve.VersionType", nS, 6)
	r.Stats["artefact_pairs_compared"] = r.Programs
}

// goName mirrors protoc-gen-go's GoCamelCase.
func goCamel(s string) string {
	var b []byte
	for i := 0; i < len(s); i++ {
		c := s[i]
		switch {
		case c == '.' && i+1 < len(s) && isLower(s[i+1]):
		case c == '.':
			b = append(b, '_')
		case c == '_' && (i == 0 || s[i-1] == '.'):
			b = append(b, 'X')
		case c == '_' && i+1 < len(s) && isLower(s[i+1]):
		case isDigit(c):
			b = append(b, c)
		default:
			if isLower(c) {
				c -= 'a' - 'A'
			}
			b = append(b, c)
			for ; i+1 < len(s) && isLower(s[i+1]); i++ {
				b = append(b, s[i+1])
			}
		}
	}
	return string(b)
}
func isLower(c byte) bool { return 'a' <= c && c <= 'z' }
func isDigit(c byte) bool { return '0' <= c && c <= '9' }

var wireOf = map[descriptorpb.FieldDescriptorProto_Type]string{
	descriptorpb.FieldDescriptorProto_TYPE_DOUBLE: "fixed64", descriptorpb.FieldDescriptorProto_TYPE_FLOAT: "fixed32",
	descriptorpb.FieldDescriptorProto_TYPE_INT64: "varint", descriptorpb.FieldDescriptorProto_TYPE_UINT64: "varint",
	descriptorpb.FieldDescriptorProto_TYPE_INT32: "varint", descriptorpb.FieldDescriptorProto_TYPE_FIXED64: "fixed64",
	descriptorpb.FieldDescriptorProto_TYPE_FIXED32: "fixed32", descriptorpb.FieldDescriptorProto_TYPE_BOOL: "varint",
	descriptorpb.FieldDescriptorProto_TYPE_STRING: "bytes", descriptorpb.FieldDescriptorProto_TYPE_MESSAGE: "bytes",
	descriptorpb.FieldDescriptorProto_TYPE_BYTES: "bytes", descriptorpb.FieldDescriptorProto_TYPE_UINT32: "varint",
	descriptorpb.FieldDescriptorProto_TYPE_ENUM: "varint", descriptorpb.FieldDescriptorProto_TYPE_SFIXED32: "fixed32",
	descriptorpb.FieldDescriptorProto_TYPE_SFIXED64: "fixed64", descriptorpb.FieldDescriptorProto_TYPE_SINT32: "zigzag32",
	descriptorpb.FieldDescriptorProto_TYPE_SINT64: "zigzag64", descriptorpb.FieldDescriptorProto_TYPE_GROUP: "group",
}

var goScalar = map[descriptorpb.FieldDescriptorProto_Type]string{
	descriptorpb.FieldDescriptorProto_TYPE_DOUBLE: "float64", descriptorpb.FieldDescriptorProto_TYPE_FLOAT: "float32",
	descriptorpb.FieldDescriptorProto_TYPE_INT64: "int64", descriptorpb.FieldDescriptorProto_TYPE_UINT64: "uint64",
	descriptorpb.FieldDescriptorProto_TYPE_INT32: "int32", descriptorpb.FieldDescriptorProto_TYPE_FIXED64: "uint64",
	descriptorpb.FieldDescriptorProto_TYPE_FIXED32: "uint32", descriptorpb.FieldDescriptorProto_TYPE_BOOL: "bool",
	descriptorpb.FieldDescriptorProto_TYPE_STRING: "string", descriptorpb.FieldDescriptorProto_TYPE_BYTES: "[]byte",
	descriptorpb.FieldDescriptorProto_TYPE_UINT32: "uint32", descriptorpb.FieldDescriptorProto_TYPE_SFIXED32: "int32",
	descriptorpb.FieldDescriptorProto_TYPE_SFIXED64: "int64", descriptorpb.FieldDescriptorProto_TYPE_SINT32: "int32",
	descriptorpb.FieldDescriptorProto_TYPE_SINT64: "int64",
}

// goTypeName maps a fully-qualified proto type to the Go identifier
// protoc-gen-go gives it inside the package, or pkg.Name for well-known types.
func goTypeName(pkg, full string) string {
	if strings.HasPrefix(full, "."+pkg+".") {
		return strings.ReplaceAll(goCamelKeepDots(strings.TrimPrefix(full, "."+pkg+".")), ".", "_")
	}
	switch full {
	case ".google.protobuf.Timestamp":
		return "timestamppb.Timestamp"
	case ".google.protobuf.Duration":
		return "durationpb.Duration"
	}
	return full
}

func goCamelKeepDots(s string) string {
	parts := strings.Split(s, ".")
	for i, p := range parts {
		parts[i] = goCamel(p)
	}
	return strings.Join(parts, ".")
}

// checkGenGo compares struct declarations and enum constants of api.pb.go
// with the descriptor.
func checkGenGo(r *Report, v *apiVersion) {
	r.Programs++
	pkg := v.goDesc.GetPackage()
	structs := map[string]*ast.StructType{}
	consts := map[string]string{}              // name -> "Type = value"
	enumMaps := map[string]map[string]string{} // X_name / X_value -> key -> value (as source text)
	constPos := map[string]token.Pos{}
	for _, d := range v.pbFile.Decls {
		gd, ok := d.(*ast.GenDecl)
		if !ok {
			continue
		}
		for _, s := range gd.Specs {
			switch s := s.(type) {
			case *ast.TypeSpec:
				if st, ok := s.Type.(*ast.StructType); ok {
					structs[s.Name.Name] = st
				}
			case *ast.ValueSpec:
				if gd.Tok == token.VAR && len(s.Names) == 1 && len(s.Values) == 1 {
					if cl, ok := s.Values[0].(*ast.CompositeLit); ok {
						if _, isMap := cl.Type.(*ast.MapType); isMap {
							m := map[string]string{}
							for _, e := range cl.Elts {
								if kv, ok := e.(*ast.KeyValueExpr); ok {
									m[types.ExprString(kv.Key)] = types.ExprString(kv.Value)
								}
							}
							enumMaps[s.Names[0].Name] = m
						}
					}
				}
				if gd.Tok == token.CONST && len(s.Names) == 1 && len(s.Values) == 1 && s.Type != nil {
					if bl, ok := s.Values[0].(*ast.BasicLit); ok {
						consts[s.Names[0].Name] = types.ExprString(s.Type) + " = " + bl.Value
						constPos[s.Names[0].Name] = s.Pos()
					}
				}
			}
		}
	}
	file := "api/" + v.name + "/api.pb.go"
	nField, nEnum := 0, 0
	var walkMsg func(prefix string, m *descriptorpb.DescriptorProto)
	var walkEnum func(prefix string, e *descriptorpb.EnumDescriptorProto)
	walkEnum = func(prefix string, e *descriptorpb.EnumDescriptorProto) {
		tname := prefix + goCamel(e.GetName())
		vprefix := tname + "_"
		if prefix != "" {
			vprefix = prefix // nested enum values are prefixed by the parent message
		}
		{
			r.Compared++
			wantN, wantV := map[string]string{}, map[string]string{}
			for _, val := range e.Value {
				if _, dup := wantN[strconv.Itoa(int(val.GetNumber()))]; !dup {
					wantN[strconv.Itoa(int(val.GetNumber()))] = strconv.Quote(val.GetName())
				}
				wantV[strconv.Quote(val.GetName())] = strconv.Itoa(int(val.GetNumber()))
			}
			key := v.name + ":enum maps " + tname
			if !reflect.DeepEqual(enumMaps[tname+"_name"], wantN) || !reflect.DeepEqual(enumMaps[tname+"_value"], wantV) {
				r.bad("C17/GEN-GO", key, file, fmt.Sprintf("%s_name/%s_value are %v / %v, descriptor implies %v / %v", tname, tname, enumMaps[tname+"_name"], enumMaps[tname+"_value"], wantN, wantV))
			} else {
				r.ok("C17/GEN-GO", key, file, fmt.Sprintf("%d names and values agree", len(wantV)))
			}
		}
		for _, val := range e.Value {
			nEnum++
			r.Compared++
			cname := vprefix + val.GetName()
			key := v.name + ":const " + cname
			want := fmt.Sprintf("%s = %d", tname, val.GetNumber())
			if got, ok := consts[cname]; !ok {
				r.bad("C17/GEN-GO", key, file, "enum value "+val.GetName()+" has no Go constant "+cname)
			} else if got != want {
				r.bad("C17/GEN-GO", key, relPos(v.fset.Position(constPos[cname])), "Go constant is {"+got+"}, descriptor says {"+want+"}")
			} else {
				r.ok("C17/GEN-GO", key, relPos(v.fset.Position(constPos[cname])), want)
			}
		}
	}
	walkMsg = func(prefix string, m *descriptorpb.DescriptorProto) {
		if m.GetOptions().GetMapEntry() {
			return
		}
		sname := prefix + goCamel(m.GetName())
		st := structs[sname]
		if st == nil {
			r.bad("C17/GEN-GO", v.name+":struct "+sname, file, "message has no Go struct")
			return
		}
		tags := map[string]string{} // proto field name -> tag
		gotype := map[string]string{}
		goname := map[string]string{}
		tagPos := map[string]token.Pos{}
		for _, f := range st.Fields.List {
			if f.Tag == nil {
				continue
			}
			raw, _ := strconv.Unquote(f.Tag.Value)
			pt := reflect.StructTag(raw).Get("protobuf")
			if pt == "" {
				continue
			}
			name := ""
			for _, part := range strings.Split(pt, ",") {
				if strings.HasPrefix(part, "name=") {
					name = strings.TrimPrefix(part, "name=")
				}
			}
			tags[name] = pt
			gotype[name] = types.ExprString(f.Type)
			if len(f.Names) == 1 {
				goname[name] = f.Names[0].Name
			}
			tagPos[name] = f.Pos()
		}
		seen := map[string]bool{}
		for _, f := range m.Field {
			nField++
			r.Compared++
			seen[f.GetName()] = true
			key := v.name + ":field " + sname + "." + f.GetName()
			if f.OneofIndex != nil && !f.GetProto3Optional() {
				// real oneof members live in wrapper structs; compare the wrapper.
				w := structs[sname+"_"+goCamel(f.GetName())]
				if w == nil {
					r.bad("C17/GEN-GO", key, file, "oneof member has no wrapper struct")
				} else {
					r.ok("C17/GEN-GO", key, file, "oneof wrapper struct present")
				}
				continue
			}
			tag, ok := tags[f.GetName()]
			if !ok {
				r.bad("C17/GEN-GO", key, file, "field has no Go struct field with a protobuf tag")
				continue
			}
			label := "opt"
			if f.GetLabel() == descriptorpb.FieldDescriptorProto_LABEL_REPEATED {
				label = "rep"
			}
			want := []string{wireOf[f.GetType()], strconv.Itoa(int(f.GetNumber())), label, "name=" + f.GetName()}
			if f.GetJsonName() != f.GetName() {
				want = append(want, "json="+f.GetJsonName())
			}
			if label == "rep" && f.GetType() != descriptorpb.FieldDescriptorProto_TYPE_STRING && f.GetType() != descriptorpb.FieldDescriptorProto_TYPE_BYTES &&
				f.GetType() != descriptorpb.FieldDescriptorProto_TYPE_MESSAGE && (f.Options == nil || f.Options.Packed == nil || f.GetOptions().GetPacked()) {
				want = append(want, "packed")
			}
			want = append(want, "proto3")
			if f.GetType() == descriptorpb.FieldDescriptorProto_TYPE_ENUM {
				want = append(want, "enum="+strings.TrimPrefix(f.GetTypeName(), "."))
			}
			if f.GetProto3Optional() {
				want = append(want, "oneof")
			}
			// Go type
			var gt string
			switch f.GetType() {
			case descriptorpb.FieldDescriptorProto_TYPE_MESSAGE:
				gt = "*" + goTypeName(pkg, f.GetTypeName())
			case descriptorpb.FieldDescriptorProto_TYPE_ENUM:
				gt = goTypeName(pkg, f.GetTypeName())
			default:
				gt = goScalar[f.GetType()]
			}
			if label == "rep" {
				gt = "[]" + gt
			} else if f.GetProto3Optional() && f.GetType() != descriptorpb.FieldDescriptorProto_TYPE_MESSAGE && f.GetType() != descriptorpb.FieldDescriptorProto_TYPE_BYTES {
				gt = "*" + gt
			}
			isMap := false
			if f.GetType() == descriptorpb.FieldDescriptorProto_TYPE_MESSAGE {
				for _, n := range m.NestedType {
					if n.GetOptions().GetMapEntry() && strings.HasSuffix(f.GetTypeName(), "."+n.GetName()) {
						isMap = true
					}
				}
			}
			pos := relPos(v.fset.Position(tagPos[f.GetName()]))
			wantTag := strings.Join(want, ",")
			switch {
			case tag != wantTag:
				r.bad("C17/GEN-GO", key, pos, "struct tag is {"+tag+"}, descriptor implies {"+wantTag+"}")
			case !isMap && gotype[f.GetName()] != gt:
				r.bad("C17/GEN-GO", key, pos, "Go field type is "+gotype[f.GetName()]+", descriptor implies "+gt)
			case goname[f.GetName()] != goCamel(f.GetName()):
				r.bad("C17/GEN-GO", key, pos, "Go field name is "+goname[f.GetName()]+", expected "+goCamel(f.GetName()))
			default:
				r.ok("C17/GEN-GO", key, pos, "tag {"+tag+"} type "+gotype[f.GetName()])
			}
		}
		for name := range tags {
			if !seen[name] {
				r.bad("C17/GEN-GO", v.name+":field "+sname+"."+name, relPos(v.fset.Position(tagPos[name])), "Go struct has a protobuf field the descriptor does not declare")
			}
		}
		for _, n := range m.NestedType {
			walkMsg(sname+"_", n)
		}
		for _, e := range m.EnumType {
			walkEnum(sname+"_", e)
		}
	}
	for _, m := range v.goDesc.MessageType {
		walkMsg("", m)
	}
	for _, e := range v.goDesc.EnumType {
		walkEnum("", e)
	}
	r.floor("C17/GEN-GO", v.name+" message fields", nField, 150)
	r.floor("C17/GEN-GO", v.name+" enum constants", nEnum, 25)
}

// checkGenGRPC compares api_grpc.pb.go with the service descriptor.
func checkGenGRPC(r *Report, v *apiVersion) {
	r.Programs++
	file := "api/" + v.name + "/api_grpc.pb.go"
	if len(v.goDesc.Service) != 1 {
		r.bad("C17/GEN-GRPC", v.name+":services", file, fmt.Sprintf("expected exactly one service, found %d", len(v.goDesc.Service)))
		return
	}
	svc := v.goDesc.Service[0]
	pkg := v.goDesc.GetPackage()
	sname := svc.GetName()
	strConsts := map[string]string{}
	ifaces := map[string]map[string]string{} // interface -> method -> signature
	var descLit *ast.CompositeLit
	for _, d := range v.grpcFile.Decls {
		gd, ok := d.(*ast.GenDecl)
		if !ok {
			continue
		}
		for _, s := range gd.Specs {
			switch s := s.(type) {
			case *ast.ValueSpec:
				for i, n := range s.Names {
					if i < len(s.Values) {
						if bl, ok := s.Values[i].(*ast.BasicLit); ok && bl.Kind == token.STRING {
							strConsts[n.Name], _ = strconv.Unquote(bl.Value)
						}
						if cl, ok := s.Values[i].(*ast.CompositeLit); ok && n.Name == sname+"_ServiceDesc" {
							descLit = cl
						}
					}
				}
			case *ast.TypeSpec:
				if it, ok := s.Type.(*ast.InterfaceType); ok {
					ms := map[string]string{}
					for _, m := range it.Methods.List {
						if ft, ok := m.Type.(*ast.FuncType); ok && len(m.Names) == 1 {
							ms[m.Names[0].Name] = types.ExprString(ft)
						}
					}
					ifaces[s.Name.Name] = ms
				}
			}
		}
	}
	// ServiceDesc literal
	descMethods := map[string]string{}
	descName, descMeta := "", ""
	if descLit != nil {
		for _, e := range descLit.Elts {
			kv, ok := e.(*ast.KeyValueExpr)
			if !ok {
				continue
			}
			switch types.ExprString(kv.Key) {
			case "ServiceName":
				if bl, ok := kv.Value.(*ast.BasicLit); ok {
					descName, _ = strconv.Unquote(bl.Value)
				}
			case "Metadata":
				if bl, ok := kv.Value.(*ast.BasicLit); ok {
					descMeta, _ = strconv.Unquote(bl.Value)
				}
			case "Methods":
				if cl, ok := kv.Value.(*ast.CompositeLit); ok {
					for _, me := range cl.Elts {
						ml, ok := me.(*ast.CompositeLit)
						if !ok {
							continue
						}
						mn, h := "", ""
						for _, f := range ml.Elts {
							if kv, ok := f.(*ast.KeyValueExpr); ok {
								switch types.ExprString(kv.Key) {
								case "MethodName":
									if bl, ok := kv.Value.(*ast.BasicLit); ok {
										mn, _ = strconv.Unquote(bl.Value)
									}
								case "Handler":
									h = types.ExprString(kv.Value)
								}
							}
						}
						descMethods[mn] = h
					}
				}
			}
		}
	}
	r.Compared++
	if want := pkg + "." + sname; descName != want || descMeta != "api.proto" {
		r.bad("C17/GEN-GRPC", v.name+":ServiceDesc", file, fmt.Sprintf("ServiceDesc has ServiceName %q Metadata %q, expected %q and \"api.proto\"", descName, descMeta, want))
	} else {
		r.ok("C17/GEN-GRPC", v.name+":ServiceDesc", file, "ServiceName "+descName)
	}
	client, server := ifaces[sname+"Client"], ifaces[sname+"Server"]
	n := 0
	for _, m := range svc.Method {
		n++
		r.Compared++
		key := v.name + ":rpc " + m.GetName()
		in, out := goTypeName(pkg, m.GetInputType()), goTypeName(pkg, m.GetOutputType())
		var probs []string
		if got, want := strConsts[sname+"_"+m.GetName()+"_FullMethodName"], "/"+pkg+"."+sname+"/"+m.GetName(); got != want {
			probs = append(probs, fmt.Sprintf("full-method constant is %q, expected %q", got, want))
		}
		if m.GetClientStreaming() || m.GetServerStreaming() {
			probs = append(probs, "streaming methods are not modelled by this checker")
		}
		if got, want := client[m.GetName()], fmt.Sprintf("func(ctx context.Context, in *%s, opts ...grpc.CallOption) (*%s, error)", in, out); got != want {
			probs = append(probs, fmt.Sprintf("client method is {%s}, expected {%s}", got, want))
		}
		if got, want := server[m.GetName()], fmt.Sprintf("func(context.Context, *%s) (*%s, error)", in, out); got != want {
			probs = append(probs, fmt.Sprintf("server method is {%s}, expected {%s}", got, want))
		}
		if got, want := descMethods[m.GetName()], "_"+sname+"_"+m.GetName()+"_Handler"; got != want {
			probs = append(probs, fmt.Sprintf("ServiceDesc handler is %q, expected %q", got, want))
		}
		// the generated glue itself: handler and client stub refer to this rpc only
		probs = append(probs, grpcGlueProblems(v.grpcFile, sname, m.GetName(), in, out)...)
		if len(probs) > 0 {
			r.bad("C17/GEN-GRPC", key, file, strings.Join(probs, "; "))
		} else {
			r.ok("C17/GEN-GRPC", key, file, "constant, client, server and ServiceDesc entries agree: "+in+" -> "+out)
		}
	}
	rpcs := map[string]bool{}
	for _, m := range svc.Method {
		rpcs[m.GetName()] = true
	}
	for name := range descMethods {
		if !rpcs[name] {
			r.bad("C17/GEN-GRPC", v.name+":rpc "+name, file, "ServiceDesc lists a method the service does not declare")
		}
	}
	for name := range client {
		if !rpcs[name] {
			r.bad("C17/GEN-GRPC", v.name+":rpc "+name, file, "client interface has a method the service does not declare")
		}
	}
	for name := range server {
		if !rpcs[name] && !strings.HasPrefix(name, "mustEmbed") {
			r.bad("C17/GEN-GRPC", v.name+":rpc "+name, file, "server interface has a method the service does not declare")
		}
	}
	min := 8
	if v.name == "v3alpha" {
		min = 16
	}
	r.floor("C17/GEN-GRPC", v.name+" rpcs", n, min)
}

// checkSystemIDs compares resolve's System constants (folded by go/types)
// with the System enum of /repo/api/v3/api.proto. util/resolve compiles
// against the module-cache copy of deps.dev/api/v3, so this is a real check.
func checkSystemIDs(r *Report, v3 *apiVersion) {
	r.Programs++
	p := loadResolve("", false)
	pk := p.pkg("resolve")
	var sysEnum *descriptorpb.EnumDescriptorProto
	for _, e := range v3.protoDesc.EnumType {
		if e.GetName() == "System" {
			sysEnum = e
		}
	}
	if sysEnum == nil {
		r.bad("C17/SYSTEM-ID", "enum System", "api/v3/api.proto", "enum System not found")
		return
	}
	nums := map[string]int64{}
	for _, v := range sysEnum.Value {
		nums[v.GetName()] = int64(v.GetNumber())
	}
	sysType := pk.Types.Scope().Lookup("System")
	if sysType == nil {
		r.bad("C17/SYSTEM-ID", "resolve.System", "util/resolve/resolve.go", "type resolve.System not found")
		return
	}
	// resolve.X must equal the proto value named like the pb constant it is defined from.
	n := 0
	for _, name := range pk.Types.Scope().Names() {
		c, ok := pk.Types.Scope().Lookup(name).(*types.Const)
		if !ok || !types.Identical(c.Type(), sysType.Type()) {
			continue
		}
		n++
		r.Compared++
		val, _ := constant.Int64Val(c.Val())
		// find the defining expression to learn which API constant it names
		api := ""
		for _, f := range pk.Syntax {
			ast.Inspect(f, func(nd ast.Node) bool {
				vs, ok := nd.(*ast.ValueSpec)
				if !ok {
					return true
				}
				for i, nm := range vs.Names {
					if pk.TypesInfo.Defs[nm] == c && i < len(vs.Values) {
						ast.Inspect(vs.Values[i], func(m ast.Node) bool {
							if sel, ok := m.(*ast.SelectorExpr); ok && strings.HasPrefix(sel.Sel.Name, "System_") {
								api = strings.TrimPrefix(sel.Sel.Name, "System_")
							}
							return true
						})
					}
				}
				return true
			})
		}
		key := "const resolve." + name
		pos := p.pos(c.Pos())
		if api == "" {
			r.bad("C17/SYSTEM-ID", key, pos, "constant is not defined from an API System_* constant")
			continue
		}
		want, ok := nums[api]
		if !ok {
			r.bad("C17/SYSTEM-ID", key, pos, "defined from System_"+api+", which /repo/api/v3/api.proto does not declare")
		} else if want != val {
			r.bad("C17/SYSTEM-ID", key, pos, fmt.Sprintf("resolve.%s = %d but api/v3/api.proto has %s = %d", name, val, api, want))
		} else {
			r.ok("C17/SYSTEM-ID", key, pos, fmt.Sprintf("= %d = System.%s in api/v3/api.proto", val, api))
		}
	}
	r.floor("C17/SYSTEM-ID", "resolve.System constants", n, 4)
}

// grpcGlueProblems inspects the bodies protoc-gen-go-grpc emits for one rpc:
// the server handler _S_M_Handler (decodes into *In, calls srv.(SServer).M on
// both the direct and the interceptor path, asserts req.(*In), names
// S_M_FullMethodName) and the client stub (c *sClient) M (allocates *Out,
// invokes S_M_FullMethodName). A body that mentions another rpc's method,
// request type or constant is reported.
func grpcGlueProblems(file *ast.File, sname, method, in, out string) []string {
	var probs []string
	fullConst := sname + "_" + method + "_FullMethodName"
	var handler, stub *ast.FuncDecl
	for _, d := range file.Decls {
		fd, ok := d.(*ast.FuncDecl)
		if !ok || fd.Body == nil {
			continue
		}
		if fd.Recv == nil && fd.Name.Name == "_"+sname+"_"+method+"_Handler" {
			handler = fd
		}
		if fd.Recv != nil && fd.Name.Name == method && len(fd.Recv.List) == 1 {
			if strings.HasSuffix(types.ExprString(fd.Recv.List[0].Type), "Client") || strings.HasSuffix(types.ExprString(fd.Recv.List[0].Type), "Client)") {
				stub = fd
			}
		}
	}
	inspect := func(fd *ast.FuncDecl, what string, wantNew string) {
		ast.Inspect(fd.Body, func(n ast.Node) bool {
			switch x := n.(type) {
			case *ast.SelectorExpr:
				// srv.(SServer).X(...)
				if ta, ok := x.X.(*ast.TypeAssertExpr); ok && types.ExprString(ta.Type) == sname+"Server" && x.Sel.Name != method {
					probs = append(probs, fmt.Sprintf("%s calls %sServer.%s instead of %s", what, sname, x.Sel.Name, method))
				}
			case *ast.TypeAssertExpr:
				if se, ok := x.Type.(*ast.StarExpr); ok {
					if tn := types.ExprString(se.X); tn != in && tn != out {
						probs = append(probs, fmt.Sprintf("%s asserts *%s, expected *%s", what, tn, in))
					}
				}
			case *ast.CallExpr:
				if id, ok := x.Fun.(*ast.Ident); ok && id.Name == "new" && len(x.Args) == 1 {
					if tn := types.ExprString(x.Args[0]); tn != wantNew {
						probs = append(probs, fmt.Sprintf("%s allocates %s, expected %s", what, tn, wantNew))
					}
				}
			case *ast.Ident:
				if strings.HasPrefix(x.Name, sname+"_") && strings.HasSuffix(x.Name, "_FullMethodName") && x.Name != fullConst {
					probs = append(probs, fmt.Sprintf("%s names %s, expected %s", what, x.Name, fullConst))
				}
			}
			return true
		})
	}
	if handler == nil {
		probs = append(probs, "server handler function not found")
	} else {
		inspect(handler, "the server handler", in)
		nCalls := 0
		ast.Inspect(handler.Body, func(n ast.Node) bool {
			if se, ok := n.(*ast.SelectorExpr); ok {
				if ta, ok := se.X.(*ast.TypeAssertExpr); ok && types.ExprString(ta.Type) == sname+"Server" && se.Sel.Name == method {
					nCalls++
				}
			}
			return true
		})
		if nCalls < 2 {
			probs = append(probs, fmt.Sprintf("the server handler calls %s on %d of its 2 paths (direct and interceptor)", method, nCalls))
		}
	}
	if stub == nil {
		probs = append(probs, "client stub not found")
	} else {
		inspect(stub, "the client stub", out)
	}
	return probs
}
