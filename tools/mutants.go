package main

// runSensitivity is the thorough-tier sensitivity suite; filled in later.
func runSensitivity(r *Report) {}
