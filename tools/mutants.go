package main

// Thorough tier: the same rules under GOARCH=386 and the sensitivity suite
// (seeded mutants applied to a scratch copy of the current tree, each checked
// in a separate process).

import (
	"encoding/json"
	"fmt"
	"os"
	"os/exec"
	"path/filepath"
	"sort"
	"strings"
)

type mutant struct {
	Name string `json:"name"`
	File string `json:"file"`
	Old  string `json:"old"`
	New  string `json:"new"`
	More []struct {
		Old string `json:"old"`
		New string `json:"new"`
	} `json:"more"` // further replacements in the same file (e.g. an import that becomes unused)
	ReplaceAll bool     `json:"replace_all"` // replace every occurrence of Old (benign renames)
	Props      []string `json:"props"`       // benign refactorings: the properties whose checks must stay silent
	Expect     string   `json:"expect_rule"` // substring of the rule id expected in the report
	Arch       string   `json:"arch"`        // GOARCH under which the rules are run on the mutated tree (default: the host's)
	Note       string   `json:"note"`
}

type mutantResult struct {
	Name     string `json:"name"`
	Status   string `json:"status"` // detected | MISSED | not-applicable | does-not-build
	Reported string `json:"reported,omitempty"`
}

// archOverride makes loadResolve use a different GOARCH (thorough tier).
var archOverride string

func runSensitivity(r *Report) {
	// (a) GOARCH=386 pass of the same rules
	if r.Property != "C17" {
		archOverride = "386"
		progCache = map[string]*Prog{}
		r386 := newReport(r.Property, r.Tier)
		checkers[r.Property](r386)
		archOverride = ""
		progCache = map[string]*Prog{}
		n := 0
		for _, o := range r386.Obls {
			o.Key = "[GOARCH=386] " + o.Key
			r.Obls = append(r.Obls, o)
			n++
		}
		for _, f := range r386.Floors {
			f.What = "[GOARCH=386] " + f.What
			r.Floors = append(r.Floors, f)
		}
		r.Stats["goarch_386_obligations"] = n
	}
	// (b) sensitivity suite
	dir := filepath.Join(verifDir(), "mutants", r.Property)
	files, _ := filepath.Glob(filepath.Join(dir, "*.json"))
	sort.Strings(files)
	if len(files) == 0 {
		return
	}
	tmp, err := os.MkdirTemp("", "depscheck-mut-")
	if err != nil {
		r.note("sensitivity suite skipped: %v", err)
		return
	}
	defer os.RemoveAll(tmp)
	scratch := filepath.Join(tmp, "repo")
	if out, err := exec.Command("cp", "-r", repoRoot, scratch).CombinedOutput(); err != nil {
		r.note("sensitivity suite skipped: cannot copy the tree: %v %s", err, out)
		return
	}
	os.RemoveAll(filepath.Join(scratch, ".git"))
	exe, _ := os.Executable()
	var results []mutantResult
	applied, detected, na := 0, 0, 0
	for _, mf := range files {
		var m mutant
		b, err := os.ReadFile(mf)
		if err != nil || json.Unmarshal(b, &m) != nil {
			r.note("unreadable mutant %s", mf)
			continue
		}
		if m.Name == "" {
			m.Name = strings.TrimSuffix(filepath.Base(mf), ".json")
		}
		target := filepath.Join(scratch, m.File)
		orig, err := os.ReadFile(filepath.Join(repoRoot, m.File))
		if err != nil || strings.Count(string(orig), m.Old) != 1 {
			na++
			results = append(results, mutantResult{m.Name, "not-applicable", "the text to replace does not occur exactly once on this tree"})
			continue
		}
		mutated := strings.Replace(string(orig), m.Old, m.New, 1)
		for _, e := range m.More {
			mutated = strings.Replace(mutated, e.Old, e.New, 1)
		}
		os.WriteFile(target, []byte(mutated), 0o644)
		cmd := exec.Command(exe, "check", "-property", r.Property, "-tier", "quick", "-repo", scratch, "-no-evidence")
		cmd.Env = append(os.Environ(), "VERIF_DIR="+verifDir())
		if m.Arch != "" {
			cmd.Env = append(cmd.Env, "DEPSCHECK_ARCH="+m.Arch)
		}
		out, _ := cmd.CombinedOutput()
		os.WriteFile(target, orig, 0o644)
		text := string(out)
		switch {
		case strings.Contains(text, "does not load/type-check"):
			results = append(results, mutantResult{m.Name, "does-not-build", ""})
		case strings.Contains(text, "VIOLATION property="+r.Property) && (m.Expect == "" || strings.Contains(text, "["+m.Expect) || strings.Contains(text, m.Expect)):
			applied++
			detected++
			first := ""
			for _, ln := range strings.Split(text, "\n") {
				if strings.Contains(ln, "[C") && strings.Contains(ln, "]") {
					first = ln
					break
				}
			}
			if len(first) > 300 {
				first = first[:300]
			}
			results = append(results, mutantResult{m.Name, "detected", first})
		default:
			applied++
			results = append(results, mutantResult{m.Name, "MISSED", ""})
			fmt.Printf("SENSITIVITY: the checker for %s no longer detects seeded mutant %s (%s)\n", r.Property, m.Name, m.Note)
		}
	}
	// behaviour-preserving refactorings: the check must stay silent on them
	benign, _ := filepath.Glob(filepath.Join(verifDir(), "mutants", "benign", "*.json"))
	sort.Strings(benign)
	falseAlarms := 0
	nBenign := 0
	for _, mf := range benign {
		var m mutant
		b, err := os.ReadFile(mf)
		if err != nil || json.Unmarshal(b, &m) != nil {
			continue
		}
		want := false
		for _, pr := range m.Props {
			if pr == r.Property {
				want = true
			}
		}
		if !want {
			continue
		}
		name := "benign/" + strings.TrimSuffix(filepath.Base(mf), ".json")
		target := filepath.Join(scratch, m.File)
		orig, err := os.ReadFile(filepath.Join(repoRoot, m.File))
		if err != nil || strings.Count(string(orig), m.Old) < 1 || (!m.ReplaceAll && strings.Count(string(orig), m.Old) != 1) {
			results = append(results, mutantResult{name, "not-applicable", ""})
			continue
		}
		cnt := 1
		if m.ReplaceAll {
			cnt = -1
		}
		mutated := strings.Replace(string(orig), m.Old, m.New, cnt)
		for _, e := range m.More {
			mutated = strings.Replace(mutated, e.Old, e.New, cnt)
		}
		os.WriteFile(target, []byte(mutated), 0o644)
		cmd := exec.Command(exe, "check", "-property", r.Property, "-tier", "quick", "-repo", scratch, "-no-evidence")
		cmd.Env = append(os.Environ(), "VERIF_DIR="+verifDir())
		out, _ := cmd.CombinedOutput()
		os.WriteFile(target, orig, 0o644)
		nBenign++
		switch {
		case strings.Contains(string(out), "does not load/type-check"):
			results = append(results, mutantResult{name, "does-not-build", ""})
		case strings.Contains(string(out), "VIOLATION property="):
			falseAlarms++
			first := ""
			for _, ln := range strings.Split(string(out), "\n") {
				if strings.Contains(ln, "[C") {
					first = ln
					break
				}
			}
			results = append(results, mutantResult{name, "FALSE-ALARM", first})
			fmt.Printf("SENSITIVITY: the checker for %s raises an alarm on behaviour-preserving refactoring %s: %s\n", r.Property, name, first)
		default:
			results = append(results, mutantResult{name, "silent (as it must)", ""})
		}
	}
	r.Stats["benign_refactorings_tried"] = nBenign
	r.Stats["benign_refactorings_alarmed"] = falseAlarms
	// independently written seeded changes (sub-agents) that this property's check is expected to catch
	seeds, _ := filepath.Glob(filepath.Join(verifDir(), "seeded", "*", "meta.json"))
	sort.Strings(seeds)
	for _, mf := range seeds {
		var meta struct {
			ID        string `json:"id"`
			Prop      string `json:"breaks_property"`
			Detected  string `json:"detected_by"`
			OwnSilent bool   `json:"own_checks_silent"` // detected by another property's check only
		}
		b, err := os.ReadFile(mf)
		if err != nil || json.Unmarshal(b, &meta) != nil || strings.HasPrefix(meta.Detected, "NOT DETECTED") || strings.HasPrefix(meta.Detected, "not-applicable") {
			continue
		}
		named := strings.Contains(meta.Detected, r.Property+".") || strings.Contains(meta.Detected, r.Property+"/")
		if !named && (meta.Prop != r.Property || meta.OwnSilent) {
			continue
		}
		patch := filepath.Join(filepath.Dir(mf), "patch.diff")
		ap := exec.Command("patch", "-p1", "--no-backup-if-mismatch", "-s", "-i", patch)
		ap.Dir = scratch
		if out, err := ap.CombinedOutput(); err != nil {
			na++
			results = append(results, mutantResult{"seeded/" + meta.ID, "not-applicable", "patch does not apply: " + strings.TrimSpace(string(out))})
			exec.Command("cp", "-r", repoRoot+"/util", repoRoot+"/api", scratch).Run()
			continue
		}
		cmd := exec.Command(exe, "check", "-property", r.Property, "-tier", "quick", "-repo", scratch, "-no-evidence")
		cmd.Env = append(os.Environ(), "VERIF_DIR="+verifDir())
		out, _ := cmd.CombinedOutput()
		rv := exec.Command("patch", "-R", "-p1", "--no-backup-if-mismatch", "-s", "-i", patch)
		rv.Dir = scratch
		rv.Run()
		if strings.Contains(string(out), "does not load/type-check") {
			// a later fix in /repo changed the context (an import the patch removes is used again):
			// the change as written no longer compiles on this tree
			na++
			results = append(results, mutantResult{"seeded/" + meta.ID, "does-not-build", "the patched tree no longer type-checks on the current /repo"})
			continue
		}
		applied++
		if strings.Contains(string(out), "VIOLATION property="+r.Property) {
			detected++
			first := ""
			for _, ln := range strings.Split(string(out), "\n") {
				if strings.Contains(ln, "[C") && strings.Contains(ln, "]") {
					first = strings.ReplaceAll(ln, scratch+"/", "")
					break
				}
			}
			if len(first) > 300 {
				first = first[:300]
			}
			results = append(results, mutantResult{"seeded/" + meta.ID, "detected", first})
		} else {
			results = append(results, mutantResult{"seeded/" + meta.ID, "MISSED", ""})
			fmt.Printf("SENSITIVITY: the checker for %s no longer detects seeded change %s\n", r.Property, meta.ID)
		}
	}
	r.Stats["mutants_applied"] = applied
	r.Stats["mutants_detected"] = detected
	r.Stats["mutants_not_applicable"] = na
	r.Stats["mutant_results"] = results
}
