package main

import (
	"fmt"
	"go/constant"
	"go/token"
	"go/types"
	"strings"

	"golang.org/x/tools/go/ssa"
)

// compareAfterCompleteRule (C03/COMPARE-AFTER-COMPLETE): a partially written
// bound ("2.0", "1.x", "*") stands for the top or the bottom of its range, and
// is turned into a full version by Version.fill / Version.setTail. Comparing
// the bound BEFORE that completion compares the wrong version: "2.0" still
// counts as 2.0.0 and a wildcard as -1, so the hyphen range "2.0.1 - 2.0" is
// found impossible. In every function, a *Version that is completed is not
// compared on a path that leads to its completion.
func compareAfterCompleteRule(r *Report, p *Prog, rule string) int {
	completes := map[string]bool{"(*semver.Version).fill": true, "(*semver.Version).setTail": true}
	compares := map[string]bool{"(*semver.Version).lessThan": true, "(*semver.Version).lessThanOrEqual": true, "(*semver.Version).greaterThan": true,
		"(*semver.Version).greaterThanOrEqual": true, "(*semver.Version).equal": true, "(*semver.Version).Compare": true, "semver.compare": true}
	n := 0
	for _, f := range p.Funcs {
		if f.Pkg == nil || f.Blocks == nil || f.Pkg.Pkg.Path() != modPrefix+"semver" || f.Synthetic != "" {
			continue
		}
		type site struct {
			call *ssa.Call
			idx  int
		}
		var comps, cmps []site
		for _, b := range f.Blocks {
			for i, in := range b.Instrs {
				c, ok := in.(*ssa.Call)
				if !ok {
					continue
				}
				name := staticCalleeName(c)
				if completes[name] {
					comps = append(comps, site{c, i})
				} else if compares[name] {
					cmps = append(cmps, site{c, i})
				}
			}
		}
		per := 0
		for _, cp := range comps {
			v := cp.call.Common().Args[0]
			n++
			per++
			key := fmt.Sprintf("%s: completion #%d (%s) precedes its comparisons", fnKey(f), per, cp.call.Common().StaticCallee().Name())
			var early *ssa.Call
			for _, cm := range cmps {
				uses := false
				for _, a := range cm.call.Common().Args {
					if a == v {
						uses = true
					}
				}
				if !uses {
					continue
				}
				cb, pb := cm.call.Block(), cp.call.Block()
				before := false
				if cb == pb {
					before = cm.idx < cp.idx
				} else {
					before = reaches(cb, pb, nil) && !pb.Dominates(cb)
				}
				if before && early == nil {
					early = cm.call
				}
			}
			if early != nil {
				r.bad(rule, key, p.pos(early.Pos()), fmt.Sprintf("the bound is compared here and only afterwards completed (at %s): the comparison sees the partial version (missing numbers as 0, a wildcard as -1) instead of the version it stands for", p.pos(cp.call.Pos())), p.pos(cp.call.Pos()))
			} else {
				r.ok(rule, key, p.pos(cp.call.Pos()), "no comparison of this bound can run before the completion")
			}
		}
	}
	return n
}

// guardBeforeEraseRule (C12.i GUARD-BEFORE-ERASE): the mirror image of
// COMPARE-AFTER-COMPLETE. A validation that refuses a version because of its
// prerelease tags ("prerelease requires 3 numbers") has to look at the tags
// before a normalisation step erases them: if clearPre can run first, the
// guard never sees the tags of a wildcard version and "3.x-next", which is a
// dist-tag for npm just as "3-next" is, is accepted as the range 3.x.
func guardBeforeEraseRule(r *Report, p *Prog, rule string) int {
	n := 0
	for _, f := range p.Funcs {
		if f.Pkg == nil || f.Blocks == nil || f.Synthetic != "" || f.Pkg.Pkg.Path() != modPrefix+"semver" {
			continue
		}
		// guards: If blocks whose condition reads len(X.pre) and one of whose arms returns a non-nil error
		type guard struct {
			b *ssa.BasicBlock
			x ssa.Value
		}
		var guards []guard
		preOf := func(v ssa.Value) ssa.Value {
			// len(*(&X.pre))
			c, ok := v.(*ssa.Call)
			if !ok {
				return nil
			}
			if bi, ok := c.Common().Value.(*ssa.Builtin); !ok || bi.Name() != "len" {
				return nil
			}
			ld, ok := c.Common().Args[0].(*ssa.UnOp)
			if !ok {
				return nil
			}
			fa, ok := ld.X.(*ssa.FieldAddr)
			if !ok {
				return nil
			}
			pt, ok := fa.X.Type().Underlying().(*types.Pointer)
			if !ok || !strings.HasSuffix(pt.Elem().String(), "semver.Version") {
				return nil
			}
			if pt.Elem().Underlying().(*types.Struct).Field(fa.Field).Name() != "pre" {
				return nil
			}
			return fa.X
		}
		returnsError := func(b *ssa.BasicBlock) bool {
			ret, ok := b.Instrs[len(b.Instrs)-1].(*ssa.Return)
			if !ok || len(ret.Results) == 0 {
				return false
			}
			last := ret.Results[len(ret.Results)-1]
			if last.Type().String() != "error" {
				return false
			}
			c, isConst := last.(*ssa.Const)
			return !(isConst && c.IsNil())
		}
		for _, b := range f.Blocks {
			ifi, ok := b.Instrs[len(b.Instrs)-1].(*ssa.If)
			if !ok {
				continue
			}
			bo, ok := ifi.Cond.(*ssa.BinOp)
			if !ok {
				continue
			}
			x := preOf(bo.X)
			if x == nil {
				x = preOf(bo.Y)
			}
			if x == nil {
				continue
			}
			if returnsError(b.Succs[0]) || returnsError(b.Succs[1]) {
				guards = append(guards, guard{b, x})
			}
		}
		for gi, g := range guards {
			n++
			key := fmt.Sprintf("%s: tag guard #%d runs before the tags can be erased", fnKey(f), gi+1)
			var erase *ssa.Call
			for _, b := range f.Blocks {
				for _, in := range b.Instrs {
					c, ok := in.(*ssa.Call)
					if !ok || staticCalleeName(c) != "(*semver.Version).clearPre" || c.Common().Args[0] != g.x {
						continue
					}
					if b != g.b && reaches(b, g.b, nil) {
						erase = c
					}
				}
			}
			if erase != nil {
				r.bad(rule, key, p.pos(g.b.Instrs[len(g.b.Instrs)-1].(*ssa.If).Cond.Pos()), fmt.Sprintf("the guard that refuses a version because of its prerelease tags can be reached after clearPre has dropped them (at %s): for a wildcard version the guard never fires, so a text such as 3.x-next, which is no range, is accepted as the range 3.x", p.pos(erase.Pos())), p.pos(erase.Pos()))
			} else {
				r.ok(rule, key, p.pos(g.b.Instrs[len(g.b.Instrs)-1].(*ssa.If).Cond.Pos()), "no clearPre on the same version can run before the guard")
			}
		}
	}
	return n
}

// syntheticBoundRule (C12.j SYNTHETIC-BOUND-INERT): the lower bound of "<V" is
// not written by the user but made by MinVersion, and must not switch on what
// a user-written prerelease bound switches on. For the SemVer systems
// MinVersion clears isPrerelease for that reason; PyPI's minimum is the dev
// release 0.0.0.dev0, which IS a dev release, so the test "is a bound of this
// span a dev release?" in Set.matchVersion has to except the synthetic bound,
// or "<2.0" admits every prerelease and dev release below 2.0 (pip admits
// none, and Constraint.HasPrerelease says none either).
func syntheticBoundRule(r *Report, p *Prog, rule string) {
	f := p.lookupFn("(semver.Set).matchVersion")
	key := "(semver.Set).matchVersion: the dev test of a lower bound excepts the bound MinVersion made"
	if f == nil {
		r.bad(rule, key, "", "matchVersion not found: anchor lost")
		return
	}
	isMinOfSpan := func(v ssa.Value) bool {
		for d := 0; d < 3 && v != nil; d++ {
			switch x := v.(type) {
			case *ssa.UnOp:
				if fa, ok := x.X.(*ssa.FieldAddr); ok {
					if pt, ok := fa.X.Type().Underlying().(*types.Pointer); ok && strings.HasSuffix(pt.Elem().String(), "semver.span") {
						return pt.Elem().Underlying().(*types.Struct).Field(fa.Field).Name() == "min"
					}
				}
				return false
			case *ssa.Field:
				if strings.HasSuffix(x.X.Type().String(), "semver.span") {
					return x.X.Type().Underlying().(*types.Struct).Field(x.Field).Name() == "min"
				}
				return false
			default:
				return false
			}
		}
		return false
	}
	devTests := 0
	marked := false
	var at token.Pos
	for _, b := range f.Blocks {
		for _, in := range b.Instrs {
			switch x := in.(type) {
			case *ssa.Call:
				if staticCalleeName(x) == "(*semver.Version).isPyPIDev" && isMinOfSpan(x.Common().Args[0]) {
					devTests++
					at = x.Pos()
				}
			case *ssa.FieldAddr:
				if pt, ok := x.X.Type().Underlying().(*types.Pointer); ok && strings.HasSuffix(pt.Elem().String(), "semver.Version") {
					name := pt.Elem().Underlying().(*types.Struct).Field(x.Field).Name()
					if name != "isPrerelease" && name != "pre" && name != "num" && name != "sys" && name != "ext" && name != "str" && name != "build" && name != "buf" && name != "userNumCount" && isMinOfSpan(x.X) {
						marked = true // a field that is neither a number nor a tag: the marker of a made-up bound
					}
				}
			}
		}
	}
	switch {
	case devTests == 0:
		r.bad(rule, key, p.pos(f.Pos()), "no dev test of a span's lower bound in matchVersion: anchor lost")
	case !marked:
		r.bad(rule, key, p.pos(at), "the lower bound of a span is asked whether it is a dev release without asking whether the user wrote it: MinVersion's PyPI bound 0.0.0.dev0 is one, so \"<2.0\" and \"<=2.0\" admit every prerelease and dev release below the bound, while \">=0,<2.0\" admits none")
	default:
		r.ok(rule, key, p.pos(at), "the condition also reads the marker of a bound that MinVersion made")
	}
}

// wildcardGuardRule (C12.l WILDCARD-GUARD): a wildcard version ("1.x", "*") is a
// range, not a version; MatchVersion and MatchVersionPrerelease refuse one
// before they match. Every way into the matcher has to: a call of
// Constraint.match (the unguarded helper) or of Set.matchVersion from a method
// of Constraint is dominated by an IsWildcard test of the same version that
// leaves on the true side. Match(string) parsed the text and called the
// helper directly, so a version list containing the string "1.x" (not a
// version for node-semver) matched "*" and "<1.0.0".
func wildcardGuardRule(r *Report, p *Prog, rule string) int {
	n := 0
	for _, f := range p.Funcs {
		if f.Pkg == nil || f.Blocks == nil || f.Synthetic != "" || f.Pkg.Pkg.Path() != modPrefix+"semver" {
			continue
		}
		if f.Signature.Recv() == nil || !strings.HasSuffix(f.Signature.Recv().Type().String(), "semver.Constraint") {
			continue
		}
		if f.Name() == "match" {
			continue // the helper itself; its callers are checked
		}
		per := 0
		for _, b := range f.Blocks {
			for _, in := range b.Instrs {
				c, ok := in.(*ssa.Call)
				if !ok {
					continue
				}
				name := staticCalleeName(c)
				var ver ssa.Value
				switch name {
				case "(*semver.Constraint).match":
					ver = c.Common().Args[1]
				case "(semver.Set).matchVersion":
					ver = c.Common().Args[1]
				default:
					continue
				}
				n++
				per++
				key := fmt.Sprintf("%s: matcher call #%d is behind the wildcard guard", fnKey(f), per)
				guarded := false
				for _, g := range f.Blocks {
					ifi, ok := g.Instrs[len(g.Instrs)-1].(*ssa.If)
					if !ok {
						continue
					}
					gc, ok := ifi.Cond.(*ssa.Call)
					if !ok || staticCalleeName(gc) != "(*semver.Version).IsWildcard" || gc.Common().Args[0] != ver {
						continue
					}
					if g.Succs[1] == b || g.Succs[1].Dominates(b) {
						guarded = true
					}
				}
				if guarded {
					r.ok(rule, key, p.pos(c.Pos()), "dominated by the false side of IsWildcard on the same version")
				} else {
					r.bad(rule, key, p.pos(c.Pos()), "the matcher is reached without the IsWildcard test its sibling entry points make: a wildcard text such as \"1.x\", which parses as a version here but is a range, is matched like a version (it satisfies \"*\" and \"<1.0.0\")")
				}
			}
		}
	}
	return n
}

// fourthZeroRule (C11.d NUGET-FOURTH-ZERO): the NuGet parser drops a fourth
// number that is 0 (1.2.3.0 is 1.2.3), so that is the normal form every parsed
// version is in. A function that writes zeros into the tail of a version
// (setTail(marker, 0): the lower bound of "1.2.3.*") can produce the form the
// parser never produces; the printed set then says 1.2.3.0, and parsing that
// text and printing again says 1.2.3. Wherever setTail fills with 0, the same
// function re-applies the rule: it re-slices the num field of that version.
func fourthZeroRule(r *Report, p *Prog, rule string) int {
	n := 0
	for _, f := range p.Funcs {
		if f.Pkg == nil || f.Blocks == nil || f.Synthetic != "" || f.Pkg.Pkg.Path() != modPrefix+"semver" {
			continue
		}
		per := 0
		for _, b := range f.Blocks {
			for _, in := range b.Instrs {
				c, ok := in.(*ssa.Call)
				if !ok || staticCalleeName(c) != "(*semver.Version).setTail" || len(c.Common().Args) != 3 {
					continue
				}
				k, ok := c.Common().Args[2].(*ssa.Const)
				if !ok || k.Value == nil || k.Int64() != 0 {
					continue
				}
				n++
				per++
				v := c.Common().Args[0]
				key := fmt.Sprintf("%s: zero-filled tail #%d is put back into the parser's normal form", fnKey(f), per)
				renorm := false
				for _, b2 := range f.Blocks {
					for _, in2 := range b2.Instrs {
						st, ok := in2.(*ssa.Store)
						if !ok {
							continue
						}
						fa, ok := st.Addr.(*ssa.FieldAddr)
						if !ok || !(fa.X == v || sameVar(fa.X, v)) {
							continue
						}
						pt, ok := fa.X.Type().Underlying().(*types.Pointer)
						if !ok || !strings.HasSuffix(pt.Elem().String(), "semver.Version") || pt.Elem().Underlying().(*types.Struct).Field(fa.Field).Name() != "num" {
							continue
						}
						if _, isSlice := st.Val.(*ssa.Slice); isSlice {
							renorm = true
						}
					}
				}
				if renorm {
					r.ok(rule, key, p.pos(c.Pos()), "the num field of the same version is re-sliced in this function")
				} else {
					r.bad(rule, key, p.pos(c.Pos()), "the tail of a version is filled with zeros and left as it is: for NuGet a fourth number of 0 is a form the parser never produces (it drops it), so the lower bound of 1.2.3.* is printed 1.2.3.0 and the printed set, parsed and printed again, reads 1.2.3")
				}
			}
		}
	}
	return n
}

// infinityReadableRule (C11.e INFINITY-READABLE): the span printer prints both
// bounds through the same function, and that function prints ∞ for a number
// that holds it. Either bound can: the upper one by construction, the lower one
// when stepping past the largest number saturates (">1.<max>" is [1.∞.∞:...]).
// Two structural necessary conditions of "the printed set parses":
//
//	(1) BOUNDS-AGREE: in parseSpan the two bounds of a vector are parsed with
//	    the same allowInfinity argument (a contradiction rule: one call says ∞
//	    can be in a printed bound, the other says it cannot);
//	(2) UNIT-FINITE: a unit span is printed as a bare version. If parseSpan
//	    reads that text with a parser that refuses ∞, then the constructor of
//	    unit spans from computed bounds (newSpan) tests the point against the
//	    infinity constant before it builds one.
func infinityReadableRule(r *Report, p *Prog, rule string) int {
	ps := p.lookupFn("(semver.System).parseSpan")
	ns := p.lookupFn("semver.newSpan")
	pk := p.pkg("semver")
	if ps == nil || ns == nil || pk == nil {
		r.bad(rule, "semver.parseSpan / semver.newSpan", "", "function not found: anchor lost")
		return 0
	}
	cInf, _ := pk.Types.Scope().Lookup("infinity").(*types.Const)
	cUnit, _ := pk.Types.Scope().Lookup("unit").(*types.Const)
	if cInf == nil || cUnit == nil {
		r.bad(rule, "semver.infinity / semver.unit", "", "constant not found: anchor lost")
		return 0
	}
	n := 0
	// (1)
	type pcall struct {
		c     *ssa.Call
		allow bool
	}
	var calls []pcall
	unitRefuses := false
	for _, b := range ps.Blocks {
		for _, in := range b.Instrs {
			c, ok := in.(*ssa.Call)
			if !ok {
				continue
			}
			switch staticCalleeName(c) {
			case "(semver.System).parse":
				k, ok := c.Common().Args[len(c.Common().Args)-1].(*ssa.Const)
				if !ok || k.Value == nil || k.Value.Kind() != constant.Bool {
					r.bad(rule, fmt.Sprintf("%s: call of parse #%d", fnKey(ps), len(calls)+1), p.pos(c.Pos()), "allowInfinity is not a constant here (undecided)")
					continue
				}
				calls = append(calls, pcall{c, constant.BoolVal(k.Value)})
			case "(semver.System).Parse":
				unitRefuses = true
			}
		}
	}
	anyTrue := false
	for _, c := range calls {
		anyTrue = anyTrue || c.allow
	}
	for i, c := range calls {
		n++
		key := fmt.Sprintf("%s: bound #%d is parsed like the other bound", fnKey(ps), i+1)
		if c.allow || !anyTrue {
			r.ok(rule, key, p.pos(c.c.Pos()), fmt.Sprintf("allowInfinity = %v, as for the other bound", c.allow))
		} else {
			r.bad(rule, key, p.pos(c.c.Pos()), "this bound is parsed with ∞ refused while the other bound of the same span is parsed with ∞ allowed: the printer prints ∞ in either (\">1.9223372036854775806\" prints {[1.∞.∞:∞.∞.∞]}), so the text of such a set does not parse")
		}
	}
	// (2)
	if !unitRefuses {
		return n
	}
	tests := func(f *ssa.Function) []*ssa.BasicBlock {
		var out []*ssa.BasicBlock
		for _, b := range f.Blocks {
			for _, in := range b.Instrs {
				bo, ok := in.(*ssa.BinOp)
				if !ok || (bo.Op != token.EQL && bo.Op != token.NEQ) {
					continue
				}
				for _, o := range []ssa.Value{bo.X, bo.Y} {
					if k, ok := o.(*ssa.Const); ok && k.Value != nil && k.Value.Kind() == constant.Int && constant.Compare(k.Value, token.EQL, cInf.Val()) {
						out = append(out, b)
					}
				}
			}
		}
		return out
	}
	var tblocks []*ssa.BasicBlock
	tblocks = append(tblocks, tests(ns)...)
	for _, b := range ns.Blocks {
		for _, in := range b.Instrs {
			if c, ok := in.(*ssa.Call); ok {
				if sc := c.Common().StaticCallee(); sc != nil && sc.Pkg == ns.Pkg && sc.Blocks != nil && len(tests(sc)) > 0 {
					tblocks = append(tblocks, b)
				}
			}
		}
	}
	loops := naturalLoops(ns)
	per := 0
	for _, b := range ns.Blocks {
		for _, in := range b.Instrs {
			st, ok := in.(*ssa.Store)
			if !ok {
				continue
			}
			fa, ok := st.Addr.(*ssa.FieldAddr)
			if !ok {
				continue
			}
			pt, ok := fa.X.Type().Underlying().(*types.Pointer)
			if !ok || !strings.HasSuffix(pt.Elem().String(), "semver.span") {
				continue
			}
			if pt.Elem().Underlying().(*types.Struct).Field(fa.Field).Name() != "rank" {
				continue
			}
			k, ok := st.Val.(*ssa.Const)
			if !ok || k.Value == nil || !constant.Compare(k.Value, token.EQL, cUnit.Val()) {
				continue
			}
			n++
			per++
			key := fmt.Sprintf("%s: unit span #%d is built from a point without ∞", fnKey(ns), per)
			guarded := false
			for _, t := range tblocks {
				if t == b || t.Dominates(b) {
					guarded = true
				}
				if l := innermostLoop(loops, t); l != nil && !l.body[b] && l.header.Dominates(b) {
					guarded = true
				}
			}
			if guarded {
				r.ok(rule, key, p.pos(st.Pos()), "the numbers of the point are compared with the infinity constant before the unit is built")
			} else {
				r.bad(rule, key, p.pos(st.Pos()), "a unit span is printed as a bare version and parseSpan reads it with Parse, which refuses ∞; this unit is built without looking for ∞ in the point (\">9223372036854775806\" prints {∞.∞.∞}), so the text of such a set does not parse")
			}
		}
	}
	return n
}

// zeroBoundTagsRule (C03 ZERO-BOUND-TAGS): "<V" is declared empty when every
// number of V is 0 ("nothing is below 0.0.0"). That holds only for a V without
// prerelease tags: the prereleases of 0.0.0 are below one another, and
// "<0.0.0-beta" matches 0.0.0-alpha in node-semver and in the semver crate.
// Wherever package semver takes a branch on v.all(0), the same decision also
// reads the prerelease tags of v.
func zeroBoundTagsRule(r *Report, p *Prog, rule string) int {
	n := 0
	for _, f := range p.Funcs {
		if f.Pkg == nil || f.Blocks == nil || f.Synthetic != "" || f.Pkg.Pkg.Path() != modPrefix+"semver" {
			continue
		}
		per := 0
		for _, b := range f.Blocks {
			for _, in := range b.Instrs {
				c, ok := in.(*ssa.Call)
				if !ok || staticCalleeName(c) != "(*semver.Version).all" || len(c.Common().Args) != 2 {
					continue
				}
				k, ok := c.Common().Args[1].(*ssa.Const)
				if !ok || k.Value == nil || k.Value.Kind() != constant.Int {
					continue
				}
				if v, _ := constant.Int64Val(k.Value); v != 0 {
					continue
				}
				n++
				per++
				ver := c.Common().Args[0]
				key := fmt.Sprintf("%s: all-zero test #%d also looks at the prerelease tags", fnKey(f), per)
				// blocks entered knowing all(0) is true: from there, before any return,
				// a branch on the tags of the same version
				readsPre := func(v ssa.Value) bool {
					u, ok := v.(*ssa.UnOp)
					if !ok || u.Op != token.MUL {
						return false
					}
					fa, ok := u.X.(*ssa.FieldAddr)
					if !ok || !(fa.X == ver || sameVar(fa.X, ver)) {
						return false
					}
					pt, ok := fa.X.Type().Underlying().(*types.Pointer)
					if !ok {
						return false
					}
					st, ok := pt.Elem().Underlying().(*types.Struct)
					return ok && (st.Field(fa.Field).Name() == "pre" || st.Field(fa.Field).Name() == "isPrerelease")
				}
				isLenPre := func(v ssa.Value) bool {
					if readsPre(v) {
						return true
					}
					if call, ok := v.(*ssa.Call); ok {
						if bi, ok := call.Common().Value.(*ssa.Builtin); ok && bi.Name() == "len" && readsPre(call.Common().Args[0]) {
							return true
						}
					}
					return false
				}
				ok2 := false
				for _, g := range f.Blocks {
					if len(g.Instrs) == 0 {
						continue
					}
					ifi, isIf := g.Instrs[len(g.Instrs)-1].(*ssa.If)
					if !isIf || !condDerives(ifi.Cond, 0, isLenPre) {
						continue
					}
					// the tag test belongs to the same decision: the same block, or
					// the next or the previous link of a short-circuit chain
					if b == g {
						ok2 = true
					}
					for _, s := range b.Succs {
						if s == g {
							ok2 = true
						}
					}
					for _, s := range g.Succs {
						if s == b {
							ok2 = true
						}
					}
				}
				if ok2 {
					r.ok(rule, key, p.pos(c.Pos()), "a branch on the prerelease tags of the same version follows the test")
				} else {
					r.bad(rule, key, p.pos(c.Pos()), "the bound is treated as the bottom of all versions because its numbers are all 0, and its prerelease tags are not looked at: \"<0.0.0-beta\" is declared empty although 0.0.0-alpha is below 0.0.0-beta (node-semver and the semver crate match it)")
				}
			}
		}
	}
	return n
}
