package main

import (
	"fmt"
	"go/types"
	"strings"

	"golang.org/x/tools/go/ssa"
)

// compareAfterCompleteRule (C03/COMPARE-AFTER-COMPLETE): a partially written
// bound ("2.0", "1.x", "*") stands for the top or the bottom of its range, and
// is turned into a full version by Version.fill / Version.setTail. Comparing
// the bound BEFORE that completion compares the wrong version: "2.0" still
// counts as 2.0.0 and a wildcard as -1, so the hyphen range "2.0.1 - 2.0" is
// found impossible. In every function, a *Version that is completed is not
// compared on a path that leads to its completion.
func compareAfterCompleteRule(r *Report, p *Prog, rule string) int {
	completes := map[string]bool{"(*semver.Version).fill": true, "(*semver.Version).setTail": true}
	compares := map[string]bool{"(*semver.Version).lessThan": true, "(*semver.Version).lessThanOrEqual": true, "(*semver.Version).greaterThan": true,
		"(*semver.Version).greaterThanOrEqual": true, "(*semver.Version).equal": true, "(*semver.Version).Compare": true, "semver.compare": true}
	n := 0
	for _, f := range p.Funcs {
		if f.Pkg == nil || f.Blocks == nil || f.Pkg.Pkg.Path() != modPrefix+"semver" || f.Synthetic != "" {
			continue
		}
		type site struct {
			call *ssa.Call
			idx  int
		}
		var comps, cmps []site
		for _, b := range f.Blocks {
			for i, in := range b.Instrs {
				c, ok := in.(*ssa.Call)
				if !ok {
					continue
				}
				name := staticCalleeName(c)
				if completes[name] {
					comps = append(comps, site{c, i})
				} else if compares[name] {
					cmps = append(cmps, site{c, i})
				}
			}
		}
		per := 0
		for _, cp := range comps {
			v := cp.call.Common().Args[0]
			n++
			per++
			key := fmt.Sprintf("%s: completion #%d (%s) precedes its comparisons", fnKey(f), per, cp.call.Common().StaticCallee().Name())
			var early *ssa.Call
			for _, cm := range cmps {
				uses := false
				for _, a := range cm.call.Common().Args {
					if a == v {
						uses = true
					}
				}
				if !uses {
					continue
				}
				cb, pb := cm.call.Block(), cp.call.Block()
				before := false
				if cb == pb {
					before = cm.idx < cp.idx
				} else {
					before = reaches(cb, pb, nil) && !pb.Dominates(cb)
				}
				if before && early == nil {
					early = cm.call
				}
			}
			if early != nil {
				r.bad(rule, key, p.pos(early.Pos()), fmt.Sprintf("the bound is compared here and only afterwards completed (at %s): the comparison sees the partial version (missing numbers as 0, a wildcard as -1) instead of the version it stands for", p.pos(cp.call.Pos())), p.pos(cp.call.Pos()))
			} else {
				r.ok(rule, key, p.pos(cp.call.Pos()), "no comparison of this bound can run before the completion")
			}
		}
	}
	return n
}

// guardBeforeEraseRule (C12.i GUARD-BEFORE-ERASE): the mirror image of
// COMPARE-AFTER-COMPLETE. A validation that refuses a version because of its
// prerelease tags ("prerelease requires 3 numbers") has to look at the tags
// before a normalisation step erases them: if clearPre can run first, the
// guard never sees the tags of a wildcard version and "3.x-next", which is a
// dist-tag for npm just as "3-next" is, is accepted as the range 3.x.
func guardBeforeEraseRule(r *Report, p *Prog, rule string) int {
	n := 0
	for _, f := range p.Funcs {
		if f.Pkg == nil || f.Blocks == nil || f.Synthetic != "" || f.Pkg.Pkg.Path() != modPrefix+"semver" {
			continue
		}
		// guards: If blocks whose condition reads len(X.pre) and one of whose arms returns a non-nil error
		type guard struct {
			b *ssa.BasicBlock
			x ssa.Value
		}
		var guards []guard
		preOf := func(v ssa.Value) ssa.Value {
			// len(*(&X.pre))
			c, ok := v.(*ssa.Call)
			if !ok {
				return nil
			}
			if bi, ok := c.Common().Value.(*ssa.Builtin); !ok || bi.Name() != "len" {
				return nil
			}
			ld, ok := c.Common().Args[0].(*ssa.UnOp)
			if !ok {
				return nil
			}
			fa, ok := ld.X.(*ssa.FieldAddr)
			if !ok {
				return nil
			}
			pt, ok := fa.X.Type().Underlying().(*types.Pointer)
			if !ok || !strings.HasSuffix(pt.Elem().String(), "semver.Version") {
				return nil
			}
			if pt.Elem().Underlying().(*types.Struct).Field(fa.Field).Name() != "pre" {
				return nil
			}
			return fa.X
		}
		returnsError := func(b *ssa.BasicBlock) bool {
			ret, ok := b.Instrs[len(b.Instrs)-1].(*ssa.Return)
			if !ok || len(ret.Results) == 0 {
				return false
			}
			last := ret.Results[len(ret.Results)-1]
			if last.Type().String() != "error" {
				return false
			}
			c, isConst := last.(*ssa.Const)
			return !(isConst && c.IsNil())
		}
		for _, b := range f.Blocks {
			ifi, ok := b.Instrs[len(b.Instrs)-1].(*ssa.If)
			if !ok {
				continue
			}
			bo, ok := ifi.Cond.(*ssa.BinOp)
			if !ok {
				continue
			}
			x := preOf(bo.X)
			if x == nil {
				x = preOf(bo.Y)
			}
			if x == nil {
				continue
			}
			if returnsError(b.Succs[0]) || returnsError(b.Succs[1]) {
				guards = append(guards, guard{b, x})
			}
		}
		for gi, g := range guards {
			n++
			key := fmt.Sprintf("%s: tag guard #%d runs before the tags can be erased", fnKey(f), gi+1)
			var erase *ssa.Call
			for _, b := range f.Blocks {
				for _, in := range b.Instrs {
					c, ok := in.(*ssa.Call)
					if !ok || staticCalleeName(c) != "(*semver.Version).clearPre" || c.Common().Args[0] != g.x {
						continue
					}
					if b != g.b && reaches(b, g.b, nil) {
						erase = c
					}
				}
			}
			if erase != nil {
				r.bad(rule, key, p.pos(g.b.Instrs[len(g.b.Instrs)-1].(*ssa.If).Cond.Pos()), fmt.Sprintf("the guard that refuses a version because of its prerelease tags can be reached after clearPre has dropped them (at %s): for a wildcard version the guard never fires, so a text such as 3.x-next, which is no range, is accepted as the range 3.x", p.pos(erase.Pos())), p.pos(erase.Pos()))
			} else {
				r.ok(rule, key, p.pos(g.b.Instrs[len(g.b.Instrs)-1].(*ssa.If).Cond.Pos()), "no clearPre on the same version can run before the guard")
			}
		}
	}
	return n
}
