package main

import (
	"fmt"
	"go/token"
	"go/types"
	"strings"

	"golang.org/x/tools/go/ssa"
)

// compareAfterCompleteRule (C03/COMPARE-AFTER-COMPLETE): a partially written
// bound ("2.0", "1.x", "*") stands for the top or the bottom of its range, and
// is turned into a full version by Version.fill / Version.setTail. Comparing
// the bound BEFORE that completion compares the wrong version: "2.0" still
// counts as 2.0.0 and a wildcard as -1, so the hyphen range "2.0.1 - 2.0" is
// found impossible. In every function, a *Version that is completed is not
// compared on a path that leads to its completion.
func compareAfterCompleteRule(r *Report, p *Prog, rule string) int {
	completes := map[string]bool{"(*semver.Version).fill": true, "(*semver.Version).setTail": true}
	compares := map[string]bool{"(*semver.Version).lessThan": true, "(*semver.Version).lessThanOrEqual": true, "(*semver.Version).greaterThan": true,
		"(*semver.Version).greaterThanOrEqual": true, "(*semver.Version).equal": true, "(*semver.Version).Compare": true, "semver.compare": true}
	n := 0
	for _, f := range p.Funcs {
		if f.Pkg == nil || f.Blocks == nil || f.Pkg.Pkg.Path() != modPrefix+"semver" || f.Synthetic != "" {
			continue
		}
		type site struct {
			call *ssa.Call
			idx  int
		}
		var comps, cmps []site
		for _, b := range f.Blocks {
			for i, in := range b.Instrs {
				c, ok := in.(*ssa.Call)
				if !ok {
					continue
				}
				name := staticCalleeName(c)
				if completes[name] {
					comps = append(comps, site{c, i})
				} else if compares[name] {
					cmps = append(cmps, site{c, i})
				}
			}
		}
		per := 0
		for _, cp := range comps {
			v := cp.call.Common().Args[0]
			n++
			per++
			key := fmt.Sprintf("%s: completion #%d (%s) precedes its comparisons", fnKey(f), per, cp.call.Common().StaticCallee().Name())
			var early *ssa.Call
			for _, cm := range cmps {
				uses := false
				for _, a := range cm.call.Common().Args {
					if a == v {
						uses = true
					}
				}
				if !uses {
					continue
				}
				cb, pb := cm.call.Block(), cp.call.Block()
				before := false
				if cb == pb {
					before = cm.idx < cp.idx
				} else {
					before = reaches(cb, pb, nil) && !pb.Dominates(cb)
				}
				if before && early == nil {
					early = cm.call
				}
			}
			if early != nil {
				r.bad(rule, key, p.pos(early.Pos()), fmt.Sprintf("the bound is compared here and only afterwards completed (at %s): the comparison sees the partial version (missing numbers as 0, a wildcard as -1) instead of the version it stands for", p.pos(cp.call.Pos())), p.pos(cp.call.Pos()))
			} else {
				r.ok(rule, key, p.pos(cp.call.Pos()), "no comparison of this bound can run before the completion")
			}
		}
	}
	return n
}

// guardBeforeEraseRule (C12.i GUARD-BEFORE-ERASE): the mirror image of
// COMPARE-AFTER-COMPLETE. A validation that refuses a version because of its
// prerelease tags ("prerelease requires 3 numbers") has to look at the tags
// before a normalisation step erases them: if clearPre can run first, the
// guard never sees the tags of a wildcard version and "3.x-next", which is a
// dist-tag for npm just as "3-next" is, is accepted as the range 3.x.
func guardBeforeEraseRule(r *Report, p *Prog, rule string) int {
	n := 0
	for _, f := range p.Funcs {
		if f.Pkg == nil || f.Blocks == nil || f.Synthetic != "" || f.Pkg.Pkg.Path() != modPrefix+"semver" {
			continue
		}
		// guards: If blocks whose condition reads len(X.pre) and one of whose arms returns a non-nil error
		type guard struct {
			b *ssa.BasicBlock
			x ssa.Value
		}
		var guards []guard
		preOf := func(v ssa.Value) ssa.Value {
			// len(*(&X.pre))
			c, ok := v.(*ssa.Call)
			if !ok {
				return nil
			}
			if bi, ok := c.Common().Value.(*ssa.Builtin); !ok || bi.Name() != "len" {
				return nil
			}
			ld, ok := c.Common().Args[0].(*ssa.UnOp)
			if !ok {
				return nil
			}
			fa, ok := ld.X.(*ssa.FieldAddr)
			if !ok {
				return nil
			}
			pt, ok := fa.X.Type().Underlying().(*types.Pointer)
			if !ok || !strings.HasSuffix(pt.Elem().String(), "semver.Version") {
				return nil
			}
			if pt.Elem().Underlying().(*types.Struct).Field(fa.Field).Name() != "pre" {
				return nil
			}
			return fa.X
		}
		returnsError := func(b *ssa.BasicBlock) bool {
			ret, ok := b.Instrs[len(b.Instrs)-1].(*ssa.Return)
			if !ok || len(ret.Results) == 0 {
				return false
			}
			last := ret.Results[len(ret.Results)-1]
			if last.Type().String() != "error" {
				return false
			}
			c, isConst := last.(*ssa.Const)
			return !(isConst && c.IsNil())
		}
		for _, b := range f.Blocks {
			ifi, ok := b.Instrs[len(b.Instrs)-1].(*ssa.If)
			if !ok {
				continue
			}
			bo, ok := ifi.Cond.(*ssa.BinOp)
			if !ok {
				continue
			}
			x := preOf(bo.X)
			if x == nil {
				x = preOf(bo.Y)
			}
			if x == nil {
				continue
			}
			if returnsError(b.Succs[0]) || returnsError(b.Succs[1]) {
				guards = append(guards, guard{b, x})
			}
		}
		for gi, g := range guards {
			n++
			key := fmt.Sprintf("%s: tag guard #%d runs before the tags can be erased", fnKey(f), gi+1)
			var erase *ssa.Call
			for _, b := range f.Blocks {
				for _, in := range b.Instrs {
					c, ok := in.(*ssa.Call)
					if !ok || staticCalleeName(c) != "(*semver.Version).clearPre" || c.Common().Args[0] != g.x {
						continue
					}
					if b != g.b && reaches(b, g.b, nil) {
						erase = c
					}
				}
			}
			if erase != nil {
				r.bad(rule, key, p.pos(g.b.Instrs[len(g.b.Instrs)-1].(*ssa.If).Cond.Pos()), fmt.Sprintf("the guard that refuses a version because of its prerelease tags can be reached after clearPre has dropped them (at %s): for a wildcard version the guard never fires, so a text such as 3.x-next, which is no range, is accepted as the range 3.x", p.pos(erase.Pos())), p.pos(erase.Pos()))
			} else {
				r.ok(rule, key, p.pos(g.b.Instrs[len(g.b.Instrs)-1].(*ssa.If).Cond.Pos()), "no clearPre on the same version can run before the guard")
			}
		}
	}
	return n
}

// syntheticBoundRule (C12.j SYNTHETIC-BOUND-INERT): the lower bound of "<V" is
// not written by the user but made by MinVersion, and must not switch on what
// a user-written prerelease bound switches on. For the SemVer systems
// MinVersion clears isPrerelease for that reason; PyPI's minimum is the dev
// release 0.0.0.dev0, which IS a dev release, so the test "is a bound of this
// span a dev release?" in Set.matchVersion has to except the synthetic bound,
// or "<2.0" admits every prerelease and dev release below 2.0 (pip admits
// none, and Constraint.HasPrerelease says none either).
func syntheticBoundRule(r *Report, p *Prog, rule string) {
	f := p.lookupFn("(semver.Set).matchVersion")
	key := "(semver.Set).matchVersion: the dev test of a lower bound excepts the bound MinVersion made"
	if f == nil {
		r.bad(rule, key, "", "matchVersion not found: anchor lost")
		return
	}
	isMinOfSpan := func(v ssa.Value) bool {
		for d := 0; d < 3 && v != nil; d++ {
			switch x := v.(type) {
			case *ssa.UnOp:
				if fa, ok := x.X.(*ssa.FieldAddr); ok {
					if pt, ok := fa.X.Type().Underlying().(*types.Pointer); ok && strings.HasSuffix(pt.Elem().String(), "semver.span") {
						return pt.Elem().Underlying().(*types.Struct).Field(fa.Field).Name() == "min"
					}
				}
				return false
			case *ssa.Field:
				if strings.HasSuffix(x.X.Type().String(), "semver.span") {
					return x.X.Type().Underlying().(*types.Struct).Field(x.Field).Name() == "min"
				}
				return false
			default:
				return false
			}
		}
		return false
	}
	devTests := 0
	marked := false
	var at token.Pos
	for _, b := range f.Blocks {
		for _, in := range b.Instrs {
			switch x := in.(type) {
			case *ssa.Call:
				if staticCalleeName(x) == "(*semver.Version).isPyPIDev" && isMinOfSpan(x.Common().Args[0]) {
					devTests++
					at = x.Pos()
				}
			case *ssa.FieldAddr:
				if pt, ok := x.X.Type().Underlying().(*types.Pointer); ok && strings.HasSuffix(pt.Elem().String(), "semver.Version") {
					name := pt.Elem().Underlying().(*types.Struct).Field(x.Field).Name()
					if name != "isPrerelease" && name != "pre" && name != "num" && name != "sys" && name != "ext" && name != "str" && name != "build" && name != "buf" && name != "userNumCount" && isMinOfSpan(x.X) {
						marked = true // a field that is neither a number nor a tag: the marker of a made-up bound
					}
				}
			}
		}
	}
	switch {
	case devTests == 0:
		r.bad(rule, key, p.pos(f.Pos()), "no dev test of a span's lower bound in matchVersion: anchor lost")
	case !marked:
		r.bad(rule, key, p.pos(at), "the lower bound of a span is asked whether it is a dev release without asking whether the user wrote it: MinVersion's PyPI bound 0.0.0.dev0 is one, so \"<2.0\" and \"<=2.0\" admit every prerelease and dev release below the bound, while \">=0,<2.0\" admits none")
	default:
		r.ok(rule, key, p.pos(at), "the condition also reads the marker of a bound that MinVersion made")
	}
}
