package main

import (
	"fmt"

	"golang.org/x/tools/go/ssa"
)

// compareAfterCompleteRule (C03/COMPARE-AFTER-COMPLETE): a partially written
// bound ("2.0", "1.x", "*") stands for the top or the bottom of its range, and
// is turned into a full version by Version.fill / Version.setTail. Comparing
// the bound BEFORE that completion compares the wrong version: "2.0" still
// counts as 2.0.0 and a wildcard as -1, so the hyphen range "2.0.1 - 2.0" is
// found impossible. In every function, a *Version that is completed is not
// compared on a path that leads to its completion.
func compareAfterCompleteRule(r *Report, p *Prog, rule string) int {
	completes := map[string]bool{"(*semver.Version).fill": true, "(*semver.Version).setTail": true}
	compares := map[string]bool{"(*semver.Version).lessThan": true, "(*semver.Version).lessThanOrEqual": true, "(*semver.Version).greaterThan": true,
		"(*semver.Version).greaterThanOrEqual": true, "(*semver.Version).equal": true, "(*semver.Version).Compare": true, "semver.compare": true}
	n := 0
	for _, f := range p.Funcs {
		if f.Pkg == nil || f.Blocks == nil || f.Pkg.Pkg.Path() != modPrefix+"semver" || f.Synthetic != "" {
			continue
		}
		type site struct {
			call *ssa.Call
			idx  int
		}
		var comps, cmps []site
		for _, b := range f.Blocks {
			for i, in := range b.Instrs {
				c, ok := in.(*ssa.Call)
				if !ok {
					continue
				}
				name := staticCalleeName(c)
				if completes[name] {
					comps = append(comps, site{c, i})
				} else if compares[name] {
					cmps = append(cmps, site{c, i})
				}
			}
		}
		per := 0
		for _, cp := range comps {
			v := cp.call.Common().Args[0]
			n++
			per++
			key := fmt.Sprintf("%s: completion #%d (%s) precedes its comparisons", fnKey(f), per, cp.call.Common().StaticCallee().Name())
			var early *ssa.Call
			for _, cm := range cmps {
				uses := false
				for _, a := range cm.call.Common().Args {
					if a == v {
						uses = true
					}
				}
				if !uses {
					continue
				}
				cb, pb := cm.call.Block(), cp.call.Block()
				before := false
				if cb == pb {
					before = cm.idx < cp.idx
				} else {
					before = reaches(cb, pb, nil) && !pb.Dominates(cb)
				}
				if before && early == nil {
					early = cm.call
				}
			}
			if early != nil {
				r.bad(rule, key, p.pos(early.Pos()), fmt.Sprintf("the bound is compared here and only afterwards completed (at %s): the comparison sees the partial version (missing numbers as 0, a wildcard as -1) instead of the version it stands for", p.pos(cp.call.Pos())), p.pos(cp.call.Pos()))
			} else {
				r.ok(rule, key, p.pos(cp.call.Pos()), "no comparison of this bound can run before the completion")
			}
		}
	}
	return n
}
