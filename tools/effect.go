package main

// EFFECT engine: ownership and write effects on go/ssa (DESIGN.md §3.1).
//
// Every SSA value carries two origin sets: D (the value IS a reference to a
// region of that origin) and X (the value CONTAINS references to regions of
// that origin). Origins are SRC (memory handed out by a resolve.Client), CACHE
// (values that came out of a resolver-lifetime lru cache), one bit per
// reference-carrying package-level variable, and two symbolic origins per
// parameter / free variable used to build function summaries.

import (
	"fmt"
	"go/token"
	"go/types"
	"sort"
	"strings"

	"golang.org/x/tools/go/ssa"
)

const (
	bitSRC   = uint64(1) << 63
	bitCACHE = uint64(1) << 62
	maxParam = 31
)

// oset is a set of origins.
type oset struct{ p, g uint64 }

func (a oset) or(b oset) oset    { return oset{a.p | b.p, a.g | b.g} }
func (a oset) empty() bool       { return a.p == 0 && a.g == 0 }
func (a oset) minus(b oset) oset { return oset{a.p &^ b.p, a.g &^ b.g} }
func (a oset) params() uint64    { return a.p &^ (bitSRC | bitCACHE) }

type fact struct{ D, X oset }

func (t fact) or(u fact) fact { return fact{t.D.or(u.D), t.X.or(u.X)} }
func (t fact) all() oset      { return t.D.or(t.X) }

// site is a primitive write: a store, map update, append, copy or a modelled
// library mutator.
type site struct {
	fn     *ssa.Function
	pos    token.Pos
	kind   string
	desc   string     // normalised description (no positions) for construct keys
	field  *types.Var // nearest struct field on the address chain, if any
	client bool       // the written region's type can be client memory
	cache  bool       // the written region's type can be memory held by an lru cache
	gmask  uint64     // globals whose reachable memory can contain the written region
}

type summary struct {
	ret     []fact
	writes  map[*site]oset
	flow    map[int]oset // origins stored into memory reachable from parameter k
	wglobal map[*ssa.Global]bool
	rglobal map[*ssa.Global]bool
	fields  map[*types.Var]bool // struct fields read or addressed (transitively)
}

func newSummary(nres int) *summary {
	return &summary{ret: make([]fact, nres), writes: map[*site]oset{}, flow: map[int]oset{}, wglobal: map[*ssa.Global]bool{}, rglobal: map[*ssa.Global]bool{}, fields: map[*types.Var]bool{}}
}

// effReport is a write that reaches client or cache memory.
type effReport struct {
	fn     *ssa.Function // function in which the origin met the write
	pos    token.Pos     // instruction in fn (the write itself or the call leading to it)
	site   *site         // primitive write
	origin string        // "client" or "cache"
	via    string        // callee through which the write happens ("" if direct)
}

type Effect struct {
	p         *Prog
	sums      map[*ssa.Function]*summary
	sites     map[string]*site
	changed   bool
	reports   map[string]*effReport
	heap      map[string]oset // program-wide heap summary (SRC/CACHE/global origins only)
	globalID  map[*ssa.Global]int
	globals   []*ssa.Global
	callees   map[ssa.CallInstruction][]*ssa.Function
	region    map[string]bool   // client region element types (by type string)
	regionC   map[string]bool   // cache region element types
	regionG   []map[string]bool // per global: types reachable from it
	gmaskMemo map[types.Type]uint64
	kindMemo  map[types.Type]int
	passes    int
	nCalls    int
	srcCalls  []srcCall
	allSites  []*site // every primitive write site seen (deduplicated)
	// per-call-site argument facts of selected callees (for the attr-mutator rule)
	attrCalls []attrCall
}

type srcCall struct {
	fn     *ssa.Function
	pos    token.Pos
	method string
}

type attrCall struct {
	fn     *ssa.Function
	pos    token.Pos
	callee *ssa.Function
	recv   fact   // facts of the object the first argument designates
	args   []fact // facts of all arguments
}

var effCache = map[*Prog]*Effect{}
var debugHook func(*Effect)

// runEffect computes (once per program) all summaries and reports.
func runEffect(p *Prog) *Effect {
	if e := effCache[p]; e != nil {
		return e
	}
	e := &Effect{p: p, sums: map[*ssa.Function]*summary{}, sites: map[string]*site{}, reports: map[string]*effReport{},
		heap: map[string]oset{}, globalID: map[*ssa.Global]int{}, callees: map[ssa.CallInstruction][]*ssa.Function{},
		region: map[string]bool{}, regionC: map[string]bool{}, kindMemo: map[types.Type]int{}}
	e.computeRegionTypes()
	// globals that carry references get an origin bit
	var gl []*ssa.Global
	for _, pk := range p.SSA.AllPackages() {
		if !inScopePath(pk.Pkg.Path()) {
			continue
		}
		for _, m := range pk.Members {
			if g, ok := m.(*ssa.Global); ok && e.kind(g.Type().(*types.Pointer).Elem()) > 0 {
				gl = append(gl, g)
			}
		}
	}
	sort.Slice(gl, func(i, j int) bool { return gl[i].String() < gl[j].String() })
	for i, g := range gl {
		e.globalID[g] = i
	}
	e.globals = gl
	e.gmaskMemo = map[types.Type]uint64{}
	e.regionG = make([]map[string]bool, len(gl))
	for i, g := range gl {
		e.regionG[i] = map[string]bool{}
		walkRegion(e.regionG[i], g.Type().(*types.Pointer).Elem())
	}
	// call targets from the VTA graph
	cg := p.callGraph()
	for fn, node := range cg.Nodes {
		if fn == nil || !p.inScope(fn) {
			continue
		}
		for _, edge := range node.Out {
			if edge.Site != nil && edge.Callee.Func != nil {
				e.callees[edge.Site] = append(e.callees[edge.Site], edge.Callee.Func)
			}
		}
	}
	for _, f := range p.Funcs {
		e.sums[f] = newSummary(f.Signature.Results().Len())
	}
	for pass := 0; pass < 40; pass++ {
		e.changed = false
		for _, f := range p.Funcs {
			e.analyze(f, true)
		}
		e.passes = pass + 1
		if !e.changed {
			break
		}
	}
	if e.changed {
		fatalf("EFFECT: summaries did not reach a fixpoint")
	}
	for _, f := range p.Funcs {
		e.analyze(f, false)
	}
	effCache[p] = e
	return e
}

// computeRegionTypes derives, from the result types of the resolve.Client
// interface, which types can occur inside memory that a client hands out.
func (e *Effect) computeRegionTypes() {
	pk := e.p.pkg("resolve")
	obj := pk.Types.Scope().Lookup("Client")
	if obj == nil {
		fatalf("EFFECT: resolve.Client not found")
	}
	it, ok := obj.Type().Underlying().(*types.Interface)
	if !ok || it.NumMethods() < 4 {
		fatalf("EFFECT: resolve.Client is not an interface with at least 4 methods")
	}
	var region map[string]bool
	walk := func(t types.Type) { walkRegion(region, t) }
	// cache regions: the value types of every instantiation of lru.Cache
	region = e.regionC
	for f := range e.p.AllFns {
		if isLruMethod(f, "Add") && f.Origin() != nil && len(f.Params) == 3 {
			walk(f.Params[2].Type())
		}
	}
	region = e.region
	for i := 0; i < it.NumMethods(); i++ {
		res := it.Method(i).Type().(*types.Signature).Results()
		for j := 0; j < res.Len(); j++ {
			if res.At(j).Type().String() != "error" {
				walk(res.At(j).Type())
			}
		}
	}
}

func walkRegion(region map[string]bool, t types.Type) {
	k := t.String()
	if region[k] {
		return
	}
	region[k] = true
	switch u := t.Underlying().(type) {
	case *types.Slice:
		walkRegion(region, u.Elem())
	case *types.Array:
		walkRegion(region, u.Elem())
	case *types.Map:
		walkRegion(region, u.Key())
		walkRegion(region, u.Elem())
	case *types.Pointer:
		walkRegion(region, u.Elem())
	case *types.Struct:
		for i := 0; i < u.NumFields(); i++ {
			walkRegion(region, u.Field(i).Type())
		}
	}
	if u := t.Underlying(); u != t {
		region[u.String()] = true
	}
}

// globalMask returns the globals whose reachable memory a reference of type ty can designate.
func (e *Effect) globalMask(ty types.Type) uint64 {
	if m, ok := e.gmaskMemo[ty]; ok {
		return m
	}
	var m uint64
	for i := range e.globals {
		if inRegion(e.regionG[i], ty) {
			m |= 1 << uint(i%64)
		}
	}
	e.gmaskMemo[ty] = m
	return m
}

// clientRegion reports whether a reference of type ty can designate memory
// that a client hands out.
func (e *Effect) clientRegion(ty types.Type) bool { return inRegion(e.region, ty) }

// cacheRegion is the same for memory held by an lru cache.
func (e *Effect) cacheRegion(ty types.Type) bool { return inRegion(e.regionC, ty) }

func inRegion(region map[string]bool, ty types.Type) bool {
	switch u := ty.Underlying().(type) {
	case *types.Interface:
		return true
	case *types.Slice:
		return region[ty.String()] || region[u.String()]
	case *types.Map:
		return region[ty.String()] || region[u.String()]
	case *types.Pointer:
		return region[u.Elem().String()]
	case *types.Signature:
		return true
	}
	return false
}

// kind: 0 = no references inside, 1 = contains references, 2 = is a reference.
func (e *Effect) kind(t types.Type) int {
	if v, ok := e.kindMemo[t]; ok {
		return v
	}
	e.kindMemo[t] = 2
	r := 0
	switch u := t.Underlying().(type) {
	case *types.Slice, *types.Map, *types.Pointer, *types.Chan, *types.Signature, *types.Interface:
		r = 2
	case *types.Struct:
		for i := 0; i < u.NumFields(); i++ {
			if e.kind(u.Field(i).Type()) > 0 {
				r = 1
			}
		}
	case *types.Array:
		if e.kind(u.Elem()) > 0 {
			r = 1
		}
	case *types.Tuple:
		for i := 0; i < u.Len(); i++ {
			if e.kind(u.At(i).Type()) > 0 {
				r = 1
			}
		}
	}
	e.kindMemo[t] = r
	return r
}

func (e *Effect) elemCarries(t types.Type) bool {
	switch u := t.Underlying().(type) {
	case *types.Slice:
		return e.kind(u.Elem()) > 0
	case *types.Map:
		return e.kind(u.Elem()) > 0 || e.kind(u.Key()) > 0
	case *types.Pointer:
		return e.kind(u.Elem()) > 0
	case *types.Array:
		return e.kind(u.Elem()) > 0
	}
	return true
}

// norm filters facts by type.
func (e *Effect) norm(t fact, ty types.Type) fact {
	if _, ok := ty.(*types.Tuple); ok {
		return t
	}
	switch e.kind(ty) {
	case 0:
		return fact{}
	case 1:
		return fact{X: t.X}
	}
	if !e.elemCarries(ty) {
		t.X = oset{}
	}
	if !e.clientRegion(ty) {
		t.D.p &^= bitSRC
	}
	if !e.cacheRegion(ty) {
		t.D.p &^= bitCACHE
	}
	if t.D.g != 0 {
		t.D.g &= e.globalMask(ty)
	}
	return t
}

// ---- per-function analysis ------------------------------------------------

type cellKey struct {
	a    *ssa.Alloc
	path string
}

type state map[cellKey]fact

func (s state) clone() state {
	n := make(state, len(s))
	for k, v := range s {
		n[k] = v
	}
	return n
}

func (s state) join(o state) bool {
	ch := false
	for k, v := range o {
		if n := s[k].or(v); n != s[k] {
			s[k] = n
			ch = true
		}
	}
	return ch
}

type fa struct {
	e      *Effect
	f      *ssa.Function
	val    map[ssa.Value]fact
	sum    *summary
	quiet  bool
	st     state
	heap   map[string]oset // function-local heap summary (parameter origins)
	heapCh bool
	params []ssa.Value
	pidx   map[ssa.Value]int
}

func cellPath(v ssa.Value) (*ssa.Alloc, string, bool) {
	path := ""
	for {
		switch x := v.(type) {
		case *ssa.Alloc:
			return x, path, true
		case *ssa.FieldAddr:
			path = fmt.Sprintf(".%d%s", x.Field, path)
			v = x.X
		case *ssa.IndexAddr:
			if _, ok := x.X.Type().Underlying().(*types.Pointer); !ok {
				return nil, "", false
			}
			path = ".[]" + path
			v = x.X
		default:
			return nil, "", false
		}
	}
}

func (a *fa) loadCell(al *ssa.Alloc, path string) fact {
	var t fact
	for k, v := range a.st {
		if k.a != al {
			continue
		}
		if strings.HasPrefix(path, k.path) || strings.HasPrefix(k.path, path) {
			t = t.or(v)
		}
	}
	return t
}

func (a *fa) storeCell(al *ssa.Alloc, path string, t fact) {
	for k := range a.st {
		if k.a == al && strings.HasPrefix(k.path, path) {
			delete(a.st, k)
		}
	}
	a.st[cellKey{al, path}] = t
}

func (a *fa) weakCell(al *ssa.Alloc, path string, t fact) {
	k := cellKey{al, path}
	a.st[k] = a.st[k].or(t)
}

func (a *fa) get(v ssa.Value) fact {
	switch x := v.(type) {
	case *ssa.Const, *ssa.Function, *ssa.Builtin:
		return fact{}
	case *ssa.Global:
		if id, ok := a.e.globalID[x]; ok {
			g := oset{g: 1 << uint(id%64)}
			return fact{D: g, X: g}
		}
		return fact{}
	}
	if al, path, ok := cellPath(v); ok && a.st != nil {
		c := a.loadCell(al, path)
		return fact{X: c.all()}
	}
	return a.val[v]
}

func (a *fa) set(v ssa.Value, t fact) bool {
	t = a.e.norm(t, v.Type())
	old := a.val[v]
	if n := old.or(t); n != old {
		a.val[v] = n
		return true
	}
	return false
}

func heapKeyType(t types.Type) string { return "T:" + t.String() }

// heapKeys returns the heap-summary keys consulted/updated for an address.
func heapKeys(addr ssa.Value, valType types.Type) []string {
	keys := []string{heapKeyType(valType)}
	if fa, ok := addr.(*ssa.FieldAddr); ok {
		st := fa.X.Type().Underlying().(*types.Pointer).Elem()
		f := st.Underlying().(*types.Struct).Field(fa.Field)
		keys = []string{fmt.Sprintf("F:%s.%s", st.String(), f.Name()), heapKeyType(st)}
	}
	return keys
}

func (a *fa) heapStore(addr ssa.Value, ty types.Type, t fact) {
	o := t.all()
	if o.empty() {
		return
	}
	key := heapKeys(addr, ty)[0]
	if a.heap == nil {
		a.heap = map[string]oset{}
	}
	if n := a.heap[key].or(o); n != a.heap[key] {
		a.heap[key] = n
		a.heapCh = true
	}
	glob := oset{p: o.p & (bitSRC | bitCACHE)} // global origins are not propagated through the program-wide field heap (too coarse); see DESIGN §3.1
	if n := a.e.heap[key].or(glob); n != a.e.heap[key] {
		if debugHeap {
			fmt.Printf("HEAP %s gains %x/%x in %s\n", key, glob.p, glob.g, a.f)
		}
		a.e.heap[key] = n
		a.e.changed = true
	}
}

var debugHeap = false

func (a *fa) heapLoad(addr ssa.Value, ty types.Type) oset {
	var o oset
	if g, ok := addr.(*ssa.Global); ok {
		k := "G:" + g.String()
		return a.heap[k].or(a.e.heap[k])
	}
	for _, k := range heapKeys(addr, ty) {
		o = o.or(a.heap[k]).or(a.e.heap[k])
	}
	return o
}

// deref yields the facts of the value obtained by loading through p.
func (a *fa) deref(p ssa.Value, ty types.Type) fact {
	if al, path, ok := cellPath(p); ok {
		return a.e.norm(a.loadCell(al, path), ty)
	}
	pt := a.get(p)
	if a.e.kind(ty) == 0 {
		return fact{}
	}
	h := a.heapLoad(p, ty)
	x := pt.X.or(h)
	return a.e.norm(fact{D: x, X: x}, ty)
}

// arg yields the facts of an actual argument.
func (a *fa) arg(v ssa.Value) fact {
	return a.get(v)
}

func (a *fa) noteFieldRead(x ssa.Value) {
	switch f := x.(type) {
	case *ssa.FieldAddr:
		st := f.X.Type().Underlying().(*types.Pointer).Elem().Underlying().(*types.Struct)
		a.addField(st.Field(f.Field))
	case *ssa.Field:
		st := f.X.Type().Underlying().(*types.Struct)
		a.addField(st.Field(f.Field))
	}
}

func (a *fa) addField(v *types.Var) {
	if !a.sum.fields[v] {
		a.sum.fields[v] = true
		a.e.changed = true
	}
}

// nearestField finds the closest struct field on an address/reference chain.
func nearestField(v ssa.Value) *types.Var {
	for i := 0; i < 8 && v != nil; i++ {
		switch x := v.(type) {
		case *ssa.FieldAddr:
			return x.X.Type().Underlying().(*types.Pointer).Elem().Underlying().(*types.Struct).Field(x.Field)
		case *ssa.Field:
			return x.X.Type().Underlying().(*types.Struct).Field(x.Field)
		case *ssa.IndexAddr:
			v = x.X
		case *ssa.UnOp:
			v = x.X
		case *ssa.Slice:
			v = x.X
		case *ssa.Index:
			v = x.X
		case *ssa.Lookup:
			v = x.X
		case *ssa.ChangeType:
			v = x.X
		case *ssa.Convert:
			v = x.X
		case *ssa.MakeInterface:
			v = x.X
		default:
			return nil
		}
	}
	return nil
}

func (a *fa) mkSite(pos token.Pos, kind string, ref, root ssa.Value, extra string) *site {
	desc := kind
	fld := nearestField(ref)
	if fld != nil {
		desc += " field " + fld.Name()
	} else if ref != nil {
		desc += " " + short(ref.Type().String())
	}
	if extra != "" {
		desc += " " + extra
	}
	key := fmt.Sprintf("%p|%d|%s", a.f, pos, desc)
	if s := a.e.sites[key]; s != nil {
		return s
	}
	s := &site{fn: a.f, pos: pos, kind: kind, desc: desc, field: fld, client: root != nil && a.e.clientRegion(root.Type()), cache: root != nil && a.e.cacheRegion(root.Type())}
	if root != nil {
		s.gmask = a.e.globalMask(root.Type())
	}
	a.e.sites[key] = s
	a.e.allSites = append(a.e.allSites, s)
	return s
}

// rootRef walks an address back to the reference that designates the written
// allocation: the base pointer of a field/array-element chain, or the slice
// whose array is indexed.
func rootRef(v ssa.Value) ssa.Value {
	for {
		switch x := v.(type) {
		case *ssa.FieldAddr:
			v = x.X
		case *ssa.IndexAddr:
			if _, ok := x.X.Type().Underlying().(*types.Pointer); ok {
				v = x.X
				continue
			}
			return x.X
		default:
			return v
		}
	}
}

// write records that the region referenced by ref is written at a primitive site.
func (a *fa) write(pos token.Pos, kind string, ref ssa.Value, extra string) {
	root := rootRef(ref)
	o := a.get(root).D
	s := a.mkSite(pos, kind, ref, root, extra)
	a.effect(pos, s, o, "")
}

// effect accounts a write of origins o at primitive site s, seen at pos in a.f.
func (a *fa) effect(pos token.Pos, s *site, o oset, via string) {
	if !s.client {
		o.p &^= bitSRC
	}
	if !s.cache {
		o.p &^= bitCACHE
	}
	o.g &= s.gmask
	if o.empty() {
		return
	}
	if !a.quiet {
		for _, org := range []struct {
			bit  uint64
			name string
		}{{bitSRC, "client"}, {bitCACHE, "cache"}} {
			if o.p&org.bit != 0 {
				key := fmt.Sprintf("%p|%d|%p|%s", a.f, pos, s, org.name)
				if a.e.reports[key] == nil {
					a.e.reports[key] = &effReport{fn: a.f, pos: pos, site: s, origin: org.name, via: via}
				}
			}
		}
	}
	// The report belongs to the function in which the origin met the write;
	// callers only inherit the symbolic (parameter and global) part.
	o.p &^= bitSRC | bitCACHE
	if o.empty() {
		return
	}
	if n := a.sum.writes[s].or(o); n != a.sum.writes[s] {
		a.sum.writes[s] = n
		a.e.changed = true
	}
}

func fullName(f *ssa.Function) string {
	if f.Origin() != nil {
		f = f.Origin()
	}
	return f.String()
}

// subst maps a callee-space origin set into the caller's space.
func subst(o oset, args []fact) oset {
	r := oset{p: o.p & (bitSRC | bitCACHE), g: o.g}
	for k, at := range args {
		if k >= maxParam {
			break
		}
		if o.p&(1<<uint(2*k)) != 0 {
			r = r.or(at.D)
		}
		if o.p&(1<<uint(2*k+1)) != 0 {
			r = r.or(at.X)
		}
	}
	return r
}

func (a *fa) mergeReads(s *summary) {
	for g := range s.rglobal {
		if !a.sum.rglobal[g] {
			a.sum.rglobal[g] = true
			a.e.changed = true
		}
	}
	for g := range s.wglobal {
		if !a.sum.wglobal[g] {
			a.sum.wglobal[g] = true
			a.e.changed = true
		}
	}
	for f := range s.fields {
		if !a.sum.fields[f] {
			a.sum.fields[f] = true
			a.e.changed = true
		}
	}
}

// applySummary applies callee sc's summary at a call whose actuals are all
// (parameters followed by free variables). It returns per-result facts.
func (a *fa) applySummary(pos token.Pos, sc *ssa.Function, all []ssa.Value, ats []fact) []fact {
	s := a.e.sums[sc]
	if s == nil {
		return nil
	}
	a.mergeReads(s)
	for st, o := range s.writes {
		a.effect(pos, st, subst(o, ats), sc.Name())
	}
	for k, o := range s.flow {
		if k >= len(all) {
			continue
		}
		in := subst(o, ats)
		if in.empty() {
			continue
		}
		a.inject(all[k], in)
	}
	res := make([]fact, len(s.ret))
	for i, r := range s.ret {
		res[i] = fact{D: subst(r.D, ats), X: subst(r.X, ats)}
	}
	return res
}

// inject records that origins o were stored into memory reachable from v.
func (a *fa) inject(v ssa.Value, o oset) {
	if al, path, ok := cellPath(v); ok {
		a.weakCell(al, path, fact{D: o, X: o})
		return
	}
	if phi, ok := v.(*ssa.Phi); ok {
		for _, ed := range phi.Edges {
			if al, path, ok := cellPath(ed); ok {
				a.weakCell(al, path, fact{D: o, X: o})
			}
		}
	}
	old := a.val[v]
	n := a.e.norm(old.or(fact{X: o}), v.Type())
	if n != old {
		a.val[v] = n
		a.heapCh = true
	}
	// it also becomes part of what the enclosing function stores into its own parameters
	a.noteFlow(v, o)
}

// noteFlow records, for the summary, that origins o are stored into memory
// reachable from whatever parameters v derives from.
func (a *fa) noteFlow(v ssa.Value, o oset) {
	t := a.get(v)
	pb := t.all().params()
	for k := 0; k < maxParam && k < len(a.params); k++ {
		if pb&(3<<uint(2*k)) == 0 {
			continue
		}
		add := o
		// a parameter flowing into itself is not news
		add.p &^= 3 << uint(2*k)
		if add.empty() {
			continue
		}
		if n := a.sum.flow[k].or(add); n != a.sum.flow[k] {
			a.sum.flow[k] = n
			a.e.changed = true
		}
	}
}

func isClientIface(t types.Type) bool {
	return strings.HasSuffix(t.String(), "deps.dev/util/resolve.Client")
}

var sortWriters = map[string]bool{
	"sort.Slice": true, "sort.SliceStable": true, "sort.Strings": true, "sort.Ints": true, "sort.Float64s": true,
	"slices.Sort": true, "slices.SortFunc": true, "slices.SortStableFunc": true, "slices.Reverse": true,
	"slices.Delete": true, "slices.DeleteFunc": true, "slices.Insert": true, "slices.Compact": true,
	"slices.CompactFunc": true, "slices.Replace": true,
}
var aliasResult = map[string]bool{
	"slices.Delete": true, "slices.DeleteFunc": true, "slices.Insert": true, "slices.Compact": true,
	"slices.CompactFunc": true, "slices.Replace": true, "slices.Grow": true, "slices.Clip": true,
}
var freshKeepX = map[string]bool{"slices.Clone": true, "maps.Clone": true, "slices.Concat": true}

func (a *fa) call(c ssa.CallInstruction, res ssa.Value) bool {
	com := c.Common()
	ch := false
	setres := func(t fact) {
		if res != nil && a.set(res, t) {
			ch = true
		}
	}
	setTuple := func(rs []fact) {
		if res == nil || rs == nil {
			return
		}
		if tup, ok := res.Type().(*types.Tuple); ok {
			// keep per-index facts in auxiliary entries keyed by Extract
			_ = tup
			a.tuple(res, rs)
			var u fact
			for _, r := range rs {
				u = u.or(r)
			}
			if a.set(res, u) {
				ch = true
			}
			return
		}
		if len(rs) == 1 {
			setres(rs[0])
		}
	}
	generic := func() {
		var x oset
		for _, v := range com.Args {
			x = x.or(a.arg(v).all())
		}
		if com.IsInvoke() {
			x = x.or(a.get(com.Value).all())
		}
		setres(fact{D: x, X: x})
	}
	if !a.quiet {
		a.e.nCalls++
	}
	if com.IsInvoke() {
		if isClientIface(com.Value.Type()) {
			if !a.quiet {
				a.e.srcCalls = append(a.e.srcCalls, srcCall{a.f, c.Pos(), com.Method.Name()})
			}
			src := oset{p: bitSRC}
			setres(fact{D: src, X: src})
			return ch
		}
		targets := a.e.callees[c]
		applied := false
		var union []fact
		for _, t := range targets {
			if a.e.sums[t] == nil {
				continue
			}
			all := append([]ssa.Value{com.Value}, com.Args...)
			ats := make([]fact, len(all))
			for i, v := range all {
				ats[i] = a.arg(v)
			}
			// the receiver of the concrete method is the dynamic value; its facts are those of the interface value
			rs := a.applySummary(c.Pos(), t, all, ats)
			applied = true
			if union == nil {
				union = make([]fact, len(rs))
			}
			for i := range rs {
				if i < len(union) {
					union[i] = union[i].or(rs[i])
				}
			}
		}
		if applied {
			setTuple(union)
		}
		// An interface call with no in-scope target (std, grpc, context):
		// the result is treated as fresh memory.
		return ch
	}
	if b, ok := com.Value.(*ssa.Builtin); ok {
		switch b.Name() {
		case "append":
			t0 := a.get(com.Args[0])
			a.write(c.Pos(), "append", com.Args[0], "")
			t := t0
			if len(com.Args) > 1 {
				t1 := a.get(com.Args[1])
				t.X = t.X.or(t1.X)
				// the appended elements are stored into arg0's array
				a.noteFlow(com.Args[0], t1.X)
			}
			setres(t)
		case "copy":
			a.write(c.Pos(), "copy", com.Args[0], "")
			t1 := a.get(com.Args[1])
			if !t1.X.empty() {
				a.inject(com.Args[0], t1.X)
			}
		case "delete":
			a.write(c.Pos(), "delete", com.Args[0], "")
		case "clear":
			a.write(c.Pos(), "clear", com.Args[0], "")
		}
		return ch
	}
	sc := com.StaticCallee()
	if sc == nil {
		// call of a function value: use the call graph; free variables were
		// accounted for where the closure was created.
		fv := a.get(com.Value)
		targets := a.e.callees[c]
		applied := false
		var union []fact
		for _, t := range targets {
			if a.e.sums[t] == nil {
				continue
			}
			all := append([]ssa.Value{}, com.Args...)
			ats := make([]fact, len(t.Params)+len(t.FreeVars))
			for i := range ats {
				if i < len(com.Args) && i < len(t.Params) {
					ats[i] = a.arg(com.Args[i])
				} else {
					ats[i] = fact{D: fv.X, X: fv.X}
				}
			}
			if len(t.Params) != len(com.Args) {
				continue
			}
			rs := a.applySummary(c.Pos(), t, all, ats)
			applied = true
			if union == nil {
				union = make([]fact, len(rs))
			}
			for i := range rs {
				if i < len(union) {
					union[i] = union[i].or(rs[i])
				}
			}
		}
		if applied {
			setTuple(union)
		} else {
			generic()
		}
		return ch
	}
	name := fullName(sc)
	switch {
	case sortWriters[name]:
		a.write(c.Pos(), name, unwrapIface(com.Args[0]), "")
		if aliasResult[name] {
			setres(a.get(com.Args[0]))
		}
		return ch
	case name == "sort.Sort" || name == "sort.Stable":
		// effects are those of the Swap method of the dynamic type
		if mi, ok := com.Args[0].(*ssa.MakeInterface); ok {
			for _, mname := range []string{"Swap", "Less", "Len"} {
				if m := a.e.p.SSA.LookupMethod(mi.X.Type(), nil, mname); m != nil {
					_ = m
				}
				if ms := a.e.p.SSA.MethodSets.MethodSet(mi.X.Type()); ms != nil {
					for i := 0; i < ms.Len(); i++ {
						if ms.At(i).Obj().Name() == mname {
							if m := a.e.p.SSA.MethodValue(ms.At(i)); m != nil && a.e.sums[m] != nil {
								a.applySummary(c.Pos(), m, []ssa.Value{mi.X}, []fact{a.arg(mi.X)})
							}
						}
					}
				}
			}
		} else {
			a.write(c.Pos(), name, com.Args[0], "")
		}
		return ch
	case aliasResult[name]:
		setres(a.get(com.Args[0]))
		return ch
	case freshKeepX[name]:
		var x oset
		for _, v := range com.Args {
			x = x.or(a.get(v).X)
		}
		setres(fact{X: x})
		return ch
	}
	if isLruMethod(sc, "Get") {
		// fall through to the summary, then add CACHE below
		defer func() {
			if res != nil {
				c := oset{p: bitCACHE}
				if a.set(res, fact{D: c, X: c}) {
					a.heapCh = true
				}
				if _, ok := res.Type().(*types.Tuple); ok {
					a.tupleOr(res, 0, fact{D: c, X: c})
				}
			}
		}()
	}
	if a.e.sums[sc] == nil {
		// out of scope and not modelled: no writes to our regions; result fresh.
		// Exception: the ADDRESS of a package-level variable handed to foreign code
		// (a method of sync.Map, sync.Pool, atomic.Value, ... declared at package level)
		// is treated as a write of that variable: it is mutable shared state.
		for _, arg := range com.Args {
			a.globalEscapes(arg)
		}
		return ch
	}
	all := append([]ssa.Value{}, com.Args...)
	if mc, ok := com.Value.(*ssa.MakeClosure); ok {
		all = append(all, mc.Bindings...)
	}
	ats := make([]fact, len(all))
	for i, v := range all {
		ats[i] = a.arg(v)
	}
	if !a.quiet && isWatched(sc) && len(com.Args) > 0 {
		a.e.attrCalls = append(a.e.attrCalls, attrCall{a.f, c.Pos(), sc, a.recvFacts(com.Args[0]), ats})
	}
	rs := a.applySummary(c.Pos(), sc, all, ats)
	setTuple(rs)
	return ch
}

// recvFacts returns the facts of the object a pointer receiver designates.
func (a *fa) recvFacts(v ssa.Value) fact {
	if al, path, ok := cellPath(v); ok {
		return a.loadCell(al, path)
	}
	return a.get(v)
}

func isWatched(f *ssa.Function) bool {
	return isAttrMutator(f) || strings.HasSuffix(fullName(f), "util/resolve.MatchRequirement")
}

func isAttrMutator(f *ssa.Function) bool {
	n := fullName(f)
	return strings.HasSuffix(n, "internal/attr.Set).SetAttr") || strings.HasSuffix(n, "dep.Type).AddAttr") ||
		strings.HasSuffix(n, "version.AttrSet).SetAttr")
}

func unwrapIface(v ssa.Value) ssa.Value {
	if mi, ok := v.(*ssa.MakeInterface); ok {
		return mi.X
	}
	return v
}

// tuple facts are kept per index under synthetic keys.
type tupleKey struct {
	v ssa.Value
	i int
}

var tupleFacts = map[*fa]map[tupleKey]fact{}

func (a *fa) tuple(v ssa.Value, rs []fact) {
	m := tupleFacts[a]
	if m == nil {
		m = map[tupleKey]fact{}
		tupleFacts[a] = m
	}
	for i, r := range rs {
		k := tupleKey{v, i}
		if n := m[k].or(r); n != m[k] {
			m[k] = n
			a.heapCh = true
		}
	}
}

func (a *fa) tupleOr(v ssa.Value, i int, f fact) {
	m := tupleFacts[a]
	if m == nil {
		m = map[tupleKey]fact{}
		tupleFacts[a] = m
	}
	k := tupleKey{v, i}
	if n := m[k].or(f); n != m[k] {
		m[k] = n
		a.heapCh = true
	}
}

func (a *fa) tupleGet(v ssa.Value, i int) (fact, bool) {
	f, ok := tupleFacts[a][tupleKey{v, i}]
	return f, ok
}

func (a *fa) instr(in ssa.Instruction) bool {
	ch := false
	switch x := in.(type) {
	case *ssa.FieldAddr:
		a.noteFieldRead(x)
		a.noteGlobalUse(x.X)
		if _, _, ok := cellPath(x); !ok {
			ch = a.set(x, a.get(x.X))
		}
	case *ssa.IndexAddr:
		a.noteGlobalUse(x.X)
		if al, path, ok := cellPath(x.X); ok {
			c := a.loadCell(al, path)
			ch = a.set(x, fact{X: c.all()})
		} else {
			ch = a.set(x, a.get(x.X))
		}
	case *ssa.Field:
		a.noteFieldRead(x)
		t := a.get(x.X)
		ch = a.set(x, fact{D: t.X, X: t.X})
	case *ssa.Index:
		t := a.get(x.X)
		ch = a.set(x, fact{D: t.X, X: t.X})
	case *ssa.UnOp:
		if x.Op == token.MUL {
			a.noteGlobalUse(x.X)
			ch = a.set(x, a.deref(x.X, x.Type()))
		} else {
			ch = a.set(x, a.get(x.X))
		}
	case *ssa.Slice:
		if al, path, ok := cellPath(x.X); ok {
			c := a.loadCell(al, path)
			ch = a.set(x, fact{X: c.all()})
		} else {
			ch = a.set(x, a.get(x.X))
		}
	case *ssa.Phi:
		var t fact
		for _, ed := range x.Edges {
			t = t.or(a.get(ed))
		}
		ch = a.set(x, t)
	case *ssa.Select:
		var t fact
		for _, s := range x.States {
			if s.Chan != nil {
				t = t.or(a.get(s.Chan))
			}
		}
		ch = a.set(x, fact{D: t.X, X: t.X})
	case *ssa.Extract:
		if f, ok := a.tupleGet(x.Tuple, x.Index); ok {
			ch = a.set(x, f)
		} else {
			ch = a.set(x, a.get(x.Tuple))
		}
	case *ssa.MakeInterface:
		ch = a.set(x, a.get(x.X))
	case *ssa.ChangeType:
		ch = a.set(x, a.get(x.X))
	case *ssa.Convert:
		ch = a.set(x, a.get(x.X))
	case *ssa.ChangeInterface:
		ch = a.set(x, a.get(x.X))
	case *ssa.SliceToArrayPointer:
		ch = a.set(x, a.get(x.X))
	case *ssa.MultiConvert:
		ch = a.set(x, a.get(x.X))
	case *ssa.TypeAssert:
		t := a.get(x.X)
		if x.CommaOk {
			a.tuple(x, []fact{a.e.norm(t, x.AssertedType), {}})
		}
		ch = a.set(x, t)
	case *ssa.Lookup:
		t := a.get(x.X)
		f := fact{D: t.X, X: t.X}
		if x.CommaOk {
			a.tuple(x, []fact{a.e.norm(f, x.Type().(*types.Tuple).At(0).Type()), {}})
		}
		ch = a.set(x, f)
	case *ssa.Range:
		ch = a.set(x, a.get(x.X))
	case *ssa.Next:
		t := a.get(x.Iter)
		ch = a.set(x, fact{D: t.X, X: t.X})
	case *ssa.BinOp:
		// strings and numbers carry nothing
	case *ssa.MakeClosure:
		fn := x.Fn.(*ssa.Function)
		var t oset
		for _, b := range x.Bindings {
			t = t.or(a.arg(b).all())
		}
		ch = a.set(x, fact{D: t, X: t})
		// Creating a closure is treated as potentially running it: its
		// effects on captured variables are accounted here.
		if s := a.e.sums[fn]; s != nil {
			np := len(fn.Params)
			all := make([]ssa.Value, np+len(x.Bindings))
			ats := make([]fact, np+len(x.Bindings))
			for i, b := range x.Bindings {
				all[np+i] = b
				ats[np+i] = a.arg(b)
			}
			a.mergeReads(s)
			for st, o := range s.writes {
				a.effect(x.Pos(), st, subst(o, ats), fn.Name())
			}
			for k, o := range s.flow {
				if k >= np && k < len(all) {
					if in := subst(o, ats); !in.empty() {
						a.inject(all[k], in)
					}
				}
			}
		}
	case *ssa.Call:
		ch = a.call(x, x)
	case *ssa.Defer:
		ch = a.call(x, nil)
	case *ssa.Go:
		ch = a.call(x, nil)
	case *ssa.Store:
		vt := a.get(x.Val)
		if al, path, ok := cellPath(x.Addr); ok {
			a.storeCell(al, path, vt)
			return false
		}
		if g, ok := x.Addr.(*ssa.Global); ok {
			if !a.sum.wglobal[g] {
				a.sum.wglobal[g] = true
				a.e.changed = true
			}
			a.heapStoreKey("G:"+g.String(), vt)
			return false
		}
		a.noteGlobalUse(x.Addr)
		a.heapStore(x.Addr, x.Val.Type(), vt)
		a.noteFlow(x.Addr, vt.all())
		a.write(x.Pos(), "store", x.Addr, "")
	case *ssa.MapUpdate:
		vt := a.get(x.Value).or(a.get(x.Key))
		if !vt.all().empty() {
			a.inject(x.Map, vt.all())
			a.heapStoreKey(heapKeyType(x.Map.Type()), vt)
		}
		a.write(x.Pos(), "map update", x.Map, "")
	case *ssa.Send:
		a.write(x.Pos(), "send", x.Chan, "")
	case *ssa.Return:
		for i, r := range x.Results {
			if i >= len(a.sum.ret) {
				break
			}
			t := a.e.norm(a.get(r), r.Type())
			if n := a.sum.ret[i].or(t); n != a.sum.ret[i] {
				a.sum.ret[i] = n
				a.e.changed = true
			}
		}
	}
	return ch
}

func (a *fa) heapStoreKey(key string, t fact) {
	o := t.all()
	if o.empty() {
		return
	}
	if a.heap == nil {
		a.heap = map[string]oset{}
	}
	if n := a.heap[key].or(o); n != a.heap[key] {
		a.heap[key] = n
		a.heapCh = true
	}
	glob := oset{p: o.p & (bitSRC | bitCACHE)} // global origins are not propagated through the program-wide field heap (too coarse); see DESIGN §3.1
	if n := a.e.heap[key].or(glob); n != a.e.heap[key] {
		if debugHeap {
			fmt.Printf("HEAP %s gains %x/%x in %s\n", key, glob.p, glob.g, a.f)
		}
		a.e.heap[key] = n
		a.e.changed = true
	}
}

// globalEscapes marks a package-level variable as written when its address
// (or the address of a part of it) is passed to out-of-scope code.
func (a *fa) globalEscapes(v ssa.Value) {
	for i := 0; i < 6; i++ {
		switch x := v.(type) {
		case *ssa.Global:
			if a.e.p.inScopeGlobal(x) {
				if !a.sum.wglobal[x] {
					a.sum.wglobal[x] = true
					a.e.changed = true
				}
				if !a.sum.rglobal[x] {
					a.sum.rglobal[x] = true
					a.e.changed = true
				}
			}
			return
		case *ssa.FieldAddr:
			v = x.X
		case *ssa.IndexAddr:
			v = x.X
		case *ssa.MakeInterface:
			v = x.X
		default:
			return
		}
	}
}

// noteGlobalUse records a read of a package-level variable (by address use).
func (a *fa) noteGlobalUse(v ssa.Value) {
	for i := 0; i < 6; i++ {
		switch x := v.(type) {
		case *ssa.Global:
			if a.e.p.inScopeGlobal(x) && !a.sum.rglobal[x] {
				a.sum.rglobal[x] = true
				a.e.changed = true
			}
			return
		case *ssa.FieldAddr:
			v = x.X
		case *ssa.IndexAddr:
			v = x.X
		default:
			return
		}
	}
}

func (p *Prog) inScopeGlobal(g *ssa.Global) bool {
	return g.Pkg != nil && inScopePath(g.Pkg.Pkg.Path())
}

func (e *Effect) analyze(f *ssa.Function, quiet bool) {
	s := e.sums[f]
	a := &fa{e: e, f: f, val: map[ssa.Value]fact{}, sum: s, quiet: quiet, pidx: map[ssa.Value]int{}}
	defer delete(tupleFacts, a)
	for _, p := range f.Params {
		a.params = append(a.params, p)
	}
	for _, p := range f.FreeVars {
		a.params = append(a.params, p)
	}
	for k, p := range a.params {
		a.pidx[p] = k
		if k < maxParam {
			t := fact{D: oset{p: 1 << uint(2*k)}, X: oset{p: 1 << uint(2*k+1)}}
			a.val[p] = e.norm(t, p.Type())
		}
	}
	if len(f.Blocks) == 0 {
		return
	}
	in := map[*ssa.BasicBlock]state{f.Blocks[0]: {}}
	for iter := 0; ; iter++ {
		if iter > 200 {
			fatalf("EFFECT: no fixpoint in %s", f)
		}
		ch := false
		for _, b := range f.Blocks {
			st, ok := in[b]
			if !ok {
				continue
			}
			a.st = st.clone()
			for _, ins := range b.Instrs {
				if a.instr(ins) {
					ch = true
				}
			}
			for _, succ := range b.Succs {
				if in[succ] == nil {
					in[succ] = a.st.clone()
					ch = true
				} else if in[succ].join(a.st) {
					ch = true
				}
			}
		}
		if !ch && !a.heapCh {
			break
		}
		a.heapCh = false
	}
}

// ---- queries used by the property rules ---------------------------------

// paramBits returns the D|X bit mask of parameter k.
func paramBits(k int) uint64 { return 3 << uint(2*k) }

// reachableFrom returns the in-scope functions reachable from roots in the
// VTA call graph (closures created by a reachable function are reachable).
func (p *Prog) reachableFrom(roots []*ssa.Function) map[*ssa.Function]bool {
	cg := p.callGraph()
	seen := map[*ssa.Function]bool{}
	var work []*ssa.Function
	push := func(f *ssa.Function) {
		if f != nil && !seen[f] && p.inScope(f) {
			seen[f] = true
			work = append(work, f)
		}
	}
	for _, r := range roots {
		push(r)
	}
	for len(work) > 0 {
		f := work[len(work)-1]
		work = work[:len(work)-1]
		if n := cg.Nodes[f]; n != nil {
			for _, e := range n.Out {
				push(e.Callee.Func)
			}
		}
		for _, af := range f.AnonFuncs {
			push(af)
		}
		for _, b := range f.Blocks {
			for _, ins := range b.Instrs {
				if mc, ok := ins.(*ssa.MakeClosure); ok {
					push(mc.Fn.(*ssa.Function))
				}
			}
		}
	}
	return seen
}

func (e *Effect) sortedReports() []*effReport {
	var out []*effReport
	for _, r := range e.reports {
		out = append(out, r)
	}
	sort.Slice(out, func(i, j int) bool {
		if out[i].fn.String() != out[j].fn.String() {
			return out[i].fn.String() < out[j].fn.String()
		}
		if out[i].pos != out[j].pos {
			return out[i].pos < out[j].pos
		}
		return out[i].site.desc < out[j].site.desc
	})
	return out
}

// isLruMethod reports whether f is (an instance of) the named method of the
// resolver-lifetime lru cache type.
func isLruMethod(f *ssa.Function, method string) bool {
	n := fullName(f)
	return strings.Contains(n, "internal/lru.Cache") && strings.HasSuffix(n, ")."+method)
}
