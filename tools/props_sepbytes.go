package main

import (
	"fmt"
	"go/ast"
	"go/constant"
	"go/token"
	"go/types"
	"sort"
	"strings"

	"golang.org/x/tools/go/packages"
)

// sepBytesRule (C03/SEP-BYTES): PyPI.Parse accepts '.', '-' and '_' between the
// parts of a version (pep440's allowSeparator), so "1.0_post1" is a version.
// The constraint tokenizer classifies bytes through System.typeOf; a separator
// the version parser accepts but typeOf does not class as a version byte for
// that system makes every specifier (and every marker literal) that uses it a
// syntax error although the version itself parses.
//
// typeOf is interpreted, not run: its leading `if <cond> { return K }`
// statements are evaluated for (system, byte) with go/constant, then the
// byteType table is consulted.
func sepBytesRule(r *Report, p *Prog, rule string) int {
	pk := p.pkg("semver")
	if pk == nil {
		r.bad(rule, "semver", "", "package not loaded")
		return 0
	}
	var allow, typeOf *ast.FuncDecl
	for _, f := range pk.Syntax {
		for _, d := range f.Decls {
			if fd, ok := d.(*ast.FuncDecl); ok {
				switch fd.Name.Name {
				case "allowSeparator":
					allow = fd
				case "typeOf":
					typeOf = fd
				}
			}
		}
	}
	bt, _ := pkgVarInit(pk, "byteType").(*ast.CompositeLit)
	tVS, _ := pk.Types.Scope().Lookup("tVS").(*types.Const)
	pypi, _ := pk.Types.Scope().Lookup("PyPI").(*types.Const)
	if allow == nil || typeOf == nil || bt == nil || tVS == nil || pypi == nil || typeOf.Recv == nil || len(typeOf.Type.Params.List) != 1 {
		r.bad(rule, "semver.allowSeparator / semver.System.typeOf", "", "anchor lost: allowSeparator, typeOf, byteType, tVS or PyPI not found")
		return 0
	}
	// bytes accepted by allowSeparator: character constants compared with ==
	seps := map[int64]bool{}
	ast.Inspect(allow.Body, func(n ast.Node) bool {
		be, ok := n.(*ast.BinaryExpr)
		if !ok || be.Op != token.EQL {
			return true
		}
		for _, e := range []ast.Expr{be.X, be.Y} {
			if lit, ok := ast.Unparen(e).(*ast.BasicLit); ok && lit.Kind == token.CHAR {
				if tv, ok := pk.TypesInfo.Types[lit]; ok && tv.Value != nil {
					v, _ := constant.Int64Val(constant.ToInt(tv.Value))
					seps[v] = true
				}
			}
		}
		return true
	})
	recvName := typeOf.Recv.List[0].Names[0].Name
	argName := typeOf.Type.Params.List[0].Names[0].Name
	classes := make([]int64, len(bt.Elts))
	for i, e := range bt.Elts {
		classes[i], _ = constInt64(pk, e)
	}
	want, _ := constant.Int64Val(tVS.Val())
	var bs []int64
	for b := range seps {
		bs = append(bs, b)
	}
	sort.Slice(bs, func(i, j int) bool { return bs[i] < bs[j] })
	n := 0
	for _, b := range bs {
		n++
		key := fmt.Sprintf("typeOf(PyPI, %q)", rune(b))
		got, ok := evalTypeOf(pk, typeOf, recvName, argName, pypi.Val(), constant.MakeInt64(b), classes)
		switch {
		case !ok:
			r.bad(rule, key, p.pos(typeOf.Pos()), "System.typeOf is no longer of the shape this rule interprets (leading `if cond { return K }` statements over the system and the rune, then the byteType table): anchor lost")
		case got != want:
			r.bad(rule, key, p.pos(typeOf.Pos()), fmt.Sprintf("pep440's allowSeparator accepts %q between the parts of a version, so PyPI.Parse reads versions written with it, but the constraint tokenizer gives it class %d, not the version-byte class: a specifier or marker literal such as \">=1.0%cpost1\" is a syntax error although \"1.0%cpost1\" parses", rune(b), got, rune(b), rune(b)))
		default:
			r.ok(rule, key, p.pos(typeOf.Pos()), "a version byte for PyPI")
		}
	}
	// Maven: a range specification is cut at brackets and commas only, and any
	// string is a Maven version (Maven.Parse refuses nothing): every printable
	// byte that is not part of the range syntax is a version byte for Maven.
	maven, _ := pk.Types.Scope().Lookup("Maven").(*types.Const)
	if maven == nil {
		r.bad(rule, "typeOf(Maven, ...)", p.pos(typeOf.Pos()), "constant Maven not found: anchor lost")
		return n
	}
	var wrong []string
	for b := int64(0x21); b <= 0x7E; b++ {
		if b == '[' || b == ']' || b == '(' || b == ')' || b == ',' {
			continue
		}
		n++
		got, ok := evalTypeOf(pk, typeOf, recvName, argName, maven.Val(), constant.MakeInt64(b), classes)
		if !ok {
			r.bad(rule, "typeOf(Maven, printable bytes)", p.pos(typeOf.Pos()), "System.typeOf is no longer of the shape this rule interprets: anchor lost")
			return n
		}
		if got != want {
			wrong = append(wrong, fmt.Sprintf("%q", rune(b)))
		}
	}
	if len(wrong) > 0 {
		r.bad(rule, "typeOf(Maven, printable bytes)", p.pos(typeOf.Pos()), fmt.Sprintf("any string is a Maven version (Maven.Parse accepts it) and a range specification is cut at brackets and commas only, but the constraint tokenizer does not class %v as version bytes for Maven: a bare version such as ${revision} or 1.0~1, a soft requirement for Maven, and a range such as [1.0~1,2.0) are syntax errors", wrong))
	} else {
		r.ok(rule, "typeOf(Maven, printable bytes)", p.pos(typeOf.Pos()), "every printable byte outside the range syntax is a version byte for Maven")
	}
	return n
}

// evalTypeOf interprets `func (sys System) typeOf(r rune) uint8`.
func evalTypeOf(pk *packages.Package, fd *ast.FuncDecl, recv, arg string, sys, r constant.Value, classes []int64) (int64, bool) {
	var eval func(e ast.Expr) (constant.Value, bool)
	eval = func(e ast.Expr) (constant.Value, bool) {
		e = ast.Unparen(e)
		if tv, ok := pk.TypesInfo.Types[e]; ok && tv.Value != nil {
			return tv.Value, true
		}
		switch x := e.(type) {
		case *ast.Ident:
			switch x.Name {
			case recv:
				return sys, true
			case arg:
				return r, true
			}
		case *ast.BinaryExpr:
			a, ok1 := eval(x.X)
			if !ok1 {
				return nil, false
			}
			if x.Op == token.LAND || x.Op == token.LOR {
				if a.Kind() != constant.Bool {
					return nil, false
				}
				if (x.Op == token.LAND) != constant.BoolVal(a) {
					return a, true // short circuit
				}
				return eval(x.Y)
			}
			b, ok2 := eval(x.Y)
			if !ok2 {
				return nil, false
			}
			switch x.Op {
			case token.EQL, token.NEQ, token.LSS, token.LEQ, token.GTR, token.GEQ:
				return constant.MakeBool(constant.Compare(constant.ToInt(a), x.Op, constant.ToInt(b))), true
			}
		case *ast.UnaryExpr:
			if x.Op == token.NOT {
				a, ok := eval(x.X)
				if ok && a.Kind() == constant.Bool {
					return constant.MakeBool(!constant.BoolVal(a)), true
				}
			}
		}
		return nil, false
	}
	// evalIndex: byteType[<expr>]
	evalByteType := func(ix *ast.IndexExpr) (constant.Value, bool) {
		if id, ok := ix.X.(*ast.Ident); !ok || id.Name != "byteType" {
			return nil, false
		}
		i, ok := eval(ix.Index)
		if !ok {
			return nil, false
		}
		k, _ := constant.Int64Val(constant.ToInt(i))
		if k < 0 || int(k) >= len(classes) {
			return nil, false
		}
		return constant.MakeInt64(classes[k]), true
	}
	inner := eval
	eval = func(e ast.Expr) (constant.Value, bool) {
		if ix, ok := ast.Unparen(e).(*ast.IndexExpr); ok {
			return evalByteType(ix)
		}
		return inner(e)
	}
	var run func(list []ast.Stmt) (int64, bool, bool) // value, returned, understood
	run = func(list []ast.Stmt) (int64, bool, bool) {
		for _, st := range list {
			switch s := st.(type) {
			case *ast.IfStmt:
				if s.Init != nil || s.Else != nil {
					return 0, false, false
				}
				c, ok := eval(s.Cond)
				if !ok || c.Kind() != constant.Bool {
					return 0, false, false
				}
				if !constant.BoolVal(c) {
					continue
				}
				v, returned, ok := run(s.Body.List)
				if !ok {
					return 0, false, false
				}
				if returned {
					return v, true, true
				}
			case *ast.ReturnStmt:
				if len(s.Results) != 1 {
					return 0, false, false
				}
				v, ok := eval(s.Results[0])
				if !ok {
					return 0, false, false
				}
				x, _ := constant.Int64Val(constant.ToInt(v))
				return x, true, true
			default:
				return 0, false, false
			}
		}
		return 0, false, true
	}
	v, returned, ok := run(fd.Body.List)
	if !ok || !returned {
		return 0, false
	}
	return v, true
}

// prefilterFoldsRule (C03/PREFILTER-FOLDS): PEP 440 is case-insensitive and the
// PyPI parser matches its keywords through hasASCIIPrefix, which folds case.
// possibleVersionString, the filter in front of every Parse, looks the first
// letters of the text up in the (lower-case) alphabet lettersInPyPI; if it does
// not fold the rune first, an upper-case letter in the first three bytes
// ("1RC1", so also the specifier ">=1RC1") is refused before the parser, which
// would accept it, is ever asked.
func prefilterFoldsRule(r *Report, p *Prog, rule string) {
	pk := p.pkg("semver")
	key := "semver.(System).possibleVersionString: letters are looked up case-insensitively"
	var fd *ast.FuncDecl
	if pk != nil {
		for _, f := range pk.Syntax {
			for _, d := range f.Decls {
				if x, ok := d.(*ast.FuncDecl); ok && x.Name.Name == "possibleVersionString" {
					fd = x
				}
			}
		}
	}
	if fd == nil {
		r.bad(rule, key, "", "possibleVersionString not found: anchor lost")
		return
	}
	found := false
	folded := true
	var at token.Pos
	ast.Inspect(fd.Body, func(n ast.Node) bool {
		c, ok := n.(*ast.CallExpr)
		if !ok || len(c.Args) != 2 {
			return true
		}
		sel, ok := c.Fun.(*ast.SelectorExpr)
		if !ok || (sel.Sel.Name != "ContainsRune" && sel.Sel.Name != "IndexRune" && sel.Sel.Name != "IndexByte") {
			return true
		}
		if id, ok := c.Args[0].(*ast.Ident); !ok || id.Name != "lettersInPyPI" {
			return true
		}
		found = true
		at = c.Pos()
		switch x := ast.Unparen(c.Args[1]).(type) {
		case *ast.CallExpr:
			s, ok := x.Fun.(*ast.SelectorExpr)
			if !ok || s.Sel.Name != "ToLower" {
				folded = false
			}
		case *ast.BinaryExpr:
			if x.Op != token.OR {
				folded = false
			}
		default:
			folded = false
		}
		return true
	})
	switch {
	case !found:
		r.bad(rule, key, p.pos(fd.Pos()), "no lookup in lettersInPyPI found: anchor lost")
	case !folded:
		r.bad(rule, key, p.pos(at), "the rune is looked up in the lower-case alphabet as written, although PEP 440 and the parser behind this filter are case-insensitive: a version or specifier with an upper-case letter among its first three bytes (1RC1, >=1RC1) is refused, while 1rc1 and 1.0RC1 are accepted")
	default:
		r.ok(rule, key, p.pos(at), "the rune is folded to lower case before the lookup")
	}
}

// quoteCharsRule (C19.f QUOTE-CHARS): the writer of the attribute text form
// quotes a value when its first byte would make a reader take it for a quoted
// literal. Every reader of that form in the package that unquotes (the field
// tokenizer behind ParseString, and ParseSingle for ATTR: lines) names the
// leading bytes it treats as an opening quote; each of them must be a leading
// byte the writer quotes, or a value that merely starts with that byte is
// written bare and read back without it (or refused).
func quoteCharsRule(r *Report, p *Prog, rule, rel string) {
	pk := p.pkg(rel)
	key := rel + ": leading bytes read as a quote are quoted by the writer"
	if pk == nil {
		r.bad(rule, key, "", "package not loaded: anchor lost")
		return
	}
	isFirstByte := func(e ast.Expr) bool {
		ix, ok := ast.Unparen(e).(*ast.IndexExpr)
		if !ok {
			return false
		}
		tv, ok := pk.TypesInfo.Types[ix.Index]
		return ok && tv.Value != nil && tv.Value.String() == "0"
	}
	leading := func(root ast.Node) map[string]bool {
		out := map[string]bool{}
		ast.Inspect(root, func(n ast.Node) bool {
			if sw, ok := n.(*ast.SwitchStmt); ok && sw.Tag != nil && isFirstByte(sw.Tag) {
				for _, cc := range sw.Body.List {
					for _, e := range cc.(*ast.CaseClause).List {
						if lit, ok := ast.Unparen(e).(*ast.BasicLit); ok && lit.Kind == token.CHAR {
							out[lit.Value] = true
						}
					}
				}
				return true
			}
			be, ok := n.(*ast.BinaryExpr)
			if !ok || be.Op != token.EQL {
				return true
			}
			ix, ok := ast.Unparen(be.X).(*ast.IndexExpr)
			lit, ok2 := ast.Unparen(be.Y).(*ast.BasicLit)
			if !ok || !ok2 || lit.Kind != token.CHAR {
				return true
			}
			if tv, ok := pk.TypesInfo.Types[ix.Index]; !ok || tv.Value == nil || tv.Value.String() != "0" {
				return true
			}
			out[lit.Value] = true
			return true
		})
		return out
	}
	calls := func(fd *ast.FuncDecl, name string) bool {
		found := false
		ast.Inspect(fd.Body, func(n ast.Node) bool {
			if c, ok := n.(*ast.CallExpr); ok {
				if s, ok := c.Fun.(*ast.SelectorExpr); ok && s.Sel.Name == name {
					if id, ok := s.X.(*ast.Ident); ok && id.Name == "strconv" {
						found = true
					}
				}
			}
			return true
		})
		return found
	}
	// unguarded: calls of the unquoting functions that are not inside the body
	// of a branch taken on a first-byte test (the reader then unquotes whatever
	// strconv accepts, a 'x' rune literal included, which no writer quotes).
	unguarded := func(fd *ast.FuncDecl) []token.Pos {
		var out []token.Pos
		var stack []ast.Node
		ast.Inspect(fd.Body, func(n ast.Node) bool {
			if n == nil {
				stack = stack[:len(stack)-1]
				return true
			}
			stack = append(stack, n)
			c, ok := n.(*ast.CallExpr)
			if !ok {
				return true
			}
			sel, ok := c.Fun.(*ast.SelectorExpr)
			if !ok || (sel.Sel.Name != "Unquote" && sel.Sel.Name != "QuotedPrefix") {
				return true
			}
			if id, ok := sel.X.(*ast.Ident); !ok || id.Name != "strconv" {
				return true
			}
			guarded := false
			for _, a := range stack {
				switch x := a.(type) {
				case *ast.IfStmt:
					if x.Body.Pos() <= c.Pos() && c.End() <= x.Body.End() && len(leading(x.Cond)) > 0 {
						guarded = true
					}
				case *ast.SwitchStmt:
					if x.Tag != nil && isFirstByte(x.Tag) && x.Body.Pos() <= c.Pos() && c.End() <= x.Body.End() {
						guarded = true
					}
				}
			}
			if !guarded {
				out = append(out, c.Pos())
			}
			return true
		})
		return out
	}
	writer := map[string]bool{}
	readers := map[string]map[string]bool{}
	var bad []string
	var wpos token.Pos
	for _, f := range pk.Syntax {
		if strings.HasSuffix(p.Fset.Position(f.Pos()).Filename, "_test.go") {
			continue
		}
		for _, d := range f.Decls {
			fd, ok := d.(*ast.FuncDecl)
			if !ok || fd.Body == nil {
				continue
			}
			if calls(fd, "Quote") {
				for k := range leading(fd) {
					writer[k] = true
				}
				wpos = fd.Pos()
			}
			if calls(fd, "Unquote") || calls(fd, "QuotedPrefix") {
				readers[fd.Name.Name] = leading(fd)
				for _, at := range unguarded(fd) {
					bad = append(bad, fmt.Sprintf("%s unquotes at %s without first testing the leading byte, so it also unquotes what the writer writes bare (a value spelled like a rune literal, 'a')", fd.Name.Name, p.pos(at)))
				}
			}
		}
	}
	if len(writer) == 0 || len(readers) == 0 {
		r.bad(rule, key, "", "no writer that quotes or no reader that unquotes found in the package: anchor lost")
		return
	}
	n := 0
	for name, set := range readers {
		for ch := range set {
			n++
			if !writer[ch] {
				bad = append(bad, fmt.Sprintf("%s reads a leading %s as a quote", name, ch))
			}
		}
	}
	sort.Strings(bad)
	if len(bad) > 0 {
		r.bad(rule, key, p.pos(wpos), fmt.Sprintf("%s, but the writer does not quote a value that starts with it: such a value is written bare and read back without its first and last byte, or refused", strings.Join(bad, "; ")))
	} else {
		r.ok(rule, key, p.pos(wpos), fmt.Sprintf("%d leading bytes of %d readers, all quoted by the writer", n, len(readers)))
	}
}

// prefilterAlphabetRule (C02 PREFILTER-ALPHABET): Parse refuses a PyPI string
// whose first bytes hold a letter outside the alphabet lettersInPyPI before the
// PEP 440 parser sees it. The parser's keywords come from its tables
// (pep440PreStrings' text column, pep440PostStrings), the constants handed to
// hasASCIIPrefix (dev) and the leading v. Every letter of every keyword must be in the alphabet, or a
// spelling PEP 440 accepts ("1alpha1": the l) is refused by the pre-filter.
func prefilterAlphabetRule(r *Report, p *Prog, rule string) int {
	pk := p.pkg("semver")
	key := "semver.lettersInPyPI covers the letters of the PEP 440 keywords"
	if pk == nil {
		r.bad(rule, key, "", "package not loaded: anchor lost")
		return 0
	}
	obj := pk.Types.Scope().Lookup("lettersInPyPI")
	if obj == nil {
		r.bad(rule, key, "", "lettersInPyPI not found: anchor lost")
		return 0
	}
	c, ok := obj.(*types.Const)
	if !ok || c.Val().Kind() != constant.String {
		r.bad(rule, key, p.pos(obj.Pos()), "the alphabet of the pre-filter is no longer a string constant; its letters cannot be read off the source (undecided)")
		return 0
	}
	alphabet := constant.StringVal(c.Val())
	var words []string
	if cl, ok := pkgVarInit(pk, "pep440PreStrings").(*ast.CompositeLit); ok {
		for _, el := range cl.Elts {
			if ecl, ok := el.(*ast.CompositeLit); ok && len(ecl.Elts) >= 1 {
				e := ecl.Elts[0]
				if kv, ok := e.(*ast.KeyValueExpr); ok {
					e = kv.Value
				}
				if t, ok := constString(pk, e); ok {
					words = append(words, t)
				}
			}
		}
	}
	if cl, ok := pkgVarInit(pk, "pep440PostStrings").(*ast.CompositeLit); ok {
		for _, el := range cl.Elts {
			if t, ok := constString(pk, el); ok {
				words = append(words, t)
			}
		}
	}
	// keywords given as constants to the case-insensitive prefix test ("dev")
	for _, f := range pk.Syntax {
		if strings.HasSuffix(p.Fset.Position(f.Pos()).Filename, "_test.go") {
			continue
		}
		ast.Inspect(f, func(n ast.Node) bool {
			if c, ok := n.(*ast.CallExpr); ok && len(c.Args) == 2 {
				if id, ok := c.Fun.(*ast.Ident); ok && id.Name == "hasASCIIPrefix" {
					if t, ok := constString(pk, c.Args[1]); ok {
						words = append(words, t)
					}
				}
			}
			return true
		})
	}
	words = append(words, "v")
	var bad []string
	for _, w := range words {
		for _, ch := range strings.ToLower(w) {
			if !strings.ContainsRune(alphabet, ch) {
				bad = append(bad, fmt.Sprintf("%q (the %c)", w, ch))
				break
			}
		}
	}
	if len(bad) > 0 {
		r.bad(rule, key, p.pos(obj.Pos()), fmt.Sprintf("the pre-filter of Parse tolerates the letters %q only; the PEP 440 parser's keywords %s hold a letter outside it, so a version written with that spelling right after a one-digit release (1alpha1) is refused before the parser sees it", alphabet, strings.Join(bad, ", ")))
	} else {
		r.ok(rule, key, p.pos(obj.Pos()), fmt.Sprintf("%d keywords, every letter in %q", len(words), alphabet))
	}
	return len(words)
}
