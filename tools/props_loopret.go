package main

import (
	"fmt"
	"go/ast"
	"go/constant"
	"go/token"
	"go/types"

	"golang.org/x/tools/go/ssa"
)

// An element-wise comparison loop walks two sequences in step and leaves the
// loop with the sign of the first pair that differs. A return inside such a
// loop therefore has to carry a non-zero result: returning a computed sign
// that may be zero stops the comparison at a pair that is equal, so the
// elements after it are ignored (1.01 = 1.1 = 1.1.5 but 1.1 < 1.1.5).
//
// loopReturnRule checks every return statement inside a loop of a three-way
// comparator: the result is a non-zero constant, or a value c with the guard
// fact c != 0, or a sign/difference of two operands x, y with the guard fact
// x != y on exactly those operands.

type loopReturn struct {
	fn   *ssa.Function
	pos  token.Pos
	expr string
	ok   bool
	how  string
	ord  int
}

func stripConv(info *types.Info, e ast.Expr) ast.Expr {
	for {
		e = ast.Unparen(e)
		if u, ok := e.(*ast.UnaryExpr); ok && (u.Op == token.SUB || u.Op == token.ADD) {
			e = u.X
			continue
		}
		if c, ok := e.(*ast.CallExpr); ok && len(c.Args) == 1 {
			if tv, ok := info.Types[c.Fun]; ok && tv.IsType() {
				e = c.Args[0]
				continue
			}
		}
		return e
	}
}

func loopReturns(p *Prog, fns []*ssa.Function) []loopReturn {
	var out []loopReturn
	for _, f := range fns {
		fd, ok := f.Syntax().(*ast.FuncDecl)
		if !ok || fd.Body == nil {
			continue
		}
		pk := p.pkgOfPos(fd.Pos())
		if pk == nil {
			continue
		}
		info := pk.TypesInfo
		pm := buildParents(fd)
		ord := 0
		ast.Inspect(fd.Body, func(n ast.Node) bool {
			if _, ok := n.(*ast.FuncLit); ok {
				return false
			}
			ret, ok := n.(*ast.ReturnStmt)
			if !ok || len(ret.Results) != 1 {
				return true
			}
			inLoop := false
			for q := pm[n]; q != nil; q = pm[q] {
				switch q.(type) {
				case *ast.ForStmt, *ast.RangeStmt:
					inLoop = true
				}
			}
			if !inLoop {
				return true
			}
			ord++
			lr := loopReturn{fn: f, pos: ret.Pos(), expr: types.ExprString(ret.Results[0]), ord: ord}
			e := ret.Results[0]
			if tv, ok := info.Types[e]; ok && tv.Value != nil {
				if tv.Value.Kind() == constant.Int && constant.Sign(tv.Value) != 0 {
					lr.ok, lr.how = true, "non-zero constant"
				} else if tv.Value.Kind() == constant.Bool {
					lr.ok, lr.how = true, "boolean constant"
				} else {
					lr.how = "constant zero: the loop stops at this pair although it did not decide the order"
				}
				out = append(out, lr)
				return true
			}
			facts := map[string]bool{}
			for _, gf := range guardFactsAt(ret, pm) {
				facts[gf.text] = true
			}
			core := stripConv(info, e)
			cs := types.ExprString(core)
			differ := func(x, y ast.Expr) bool {
				xs, ys := types.ExprString(stripConv(info, x)), types.ExprString(stripConv(info, y))
				return facts[xs+" != "+ys] || facts[ys+" != "+xs] || facts[xs+" < "+ys] || facts[xs+" > "+ys] || facts[ys+" < "+xs] || facts[ys+" > "+xs]
			}
			switch {
			case facts[cs+" != 0"] || facts[cs+" < 0"] || facts[cs+" > 0"]:
				lr.ok, lr.how = true, "guarded by "+cs+" != 0"
			default:
				switch x := core.(type) {
				case *ast.BinaryExpr:
					if x.Op == token.SUB && differ(x.X, x.Y) {
						lr.ok, lr.how = true, "difference of operands known to differ"
					}
				case *ast.CallExpr:
					if len(x.Args) >= 2 && differ(x.Args[0], x.Args[1]) {
						lr.ok, lr.how = true, "sign of operands known to differ"
					} else if sel, ok := x.Fun.(*ast.SelectorExpr); ok && len(x.Args) == 1 && differ(sel.X, x.Args[0]) {
						lr.ok, lr.how = true, "sign of operands known to differ"
					}
				}
				if !lr.ok {
					lr.how = "no guard shows the result is non-zero: neither " + cs + " != 0 nor a test that its two operands differ"
				}
			}
			out = append(out, lr)
			return true
		})
	}
	return out
}

func loopReturnRule(r *Report, p *Prog, rule string, fns []*ssa.Function) int {
	n := 0
	for _, lr := range loopReturns(p, fns) {
		n++
		key := fmt.Sprintf("%s: return #%d in a loop (%s)", fnKey(lr.fn), lr.ord, lr.expr)
		if lr.ok {
			r.ok(rule, key, p.pos(lr.pos), lr.how)
		} else {
			r.bad(rule, key, p.pos(lr.pos), "a return inside the element loop of a comparator may carry 0 ("+lr.how+"): the comparison then stops at an equal pair and ignores the elements after it")
		}
	}
	return n
}

// equalConjunctiveRule: an Equal method over a value with several components is
// a conjunction: it may answer true only after every component was found
// equal. A branch that returns true as soon as ONE comparison succeeds, while
// its other arm goes on to compare something else, accepts a partial match
// (resolve.Version.Equal answered true for equal keys whatever the attributes,
// and for different keys whose attributes were equal). A pointer-identity
// shortcut is not such a branch.
func equalConjunctiveRule(r *Report, p *Prog, rule string, pkgs ...string) int {
	n := 0
	for _, f := range p.Funcs {
		if f.Pkg == nil || f.Blocks == nil || f.Synthetic != "" || f.Name() != "Equal" || f.Signature.Recv() == nil {
			continue
		}
		in := false
		for _, pk := range pkgs {
			if f.Pkg.Pkg.Path() == modPrefix+pk {
				in = true
			}
		}
		res := f.Signature.Results()
		if !in || res.Len() != 1 {
			continue
		}
		if bt, ok := res.At(0).Type().Underlying().(*types.Basic); !ok || bt.Kind() != types.Bool {
			continue
		}
		n++
		key := fnKey(f) + ": true only after every comparison"
		retConst := func(b *ssa.BasicBlock) (bool, bool) { // (value, isConstReturn)
			if len(b.Instrs) == 0 {
				return false, false
			}
			ret, ok := b.Instrs[len(b.Instrs)-1].(*ssa.Return)
			if !ok || len(ret.Results) != 1 {
				return false, false
			}
			c, ok := ret.Results[0].(*ssa.Const)
			if !ok || c.Value == nil || c.Value.Kind() != constant.Bool {
				return false, false
			}
			return constant.BoolVal(c.Value), true
		}
		var badAt token.Pos
		for _, b := range f.Blocks {
			ifi, ok := b.Instrs[len(b.Instrs)-1].(*ssa.If)
			if !ok {
				continue
			}
			// pointer identity shortcut?
			if bo, ok := ifi.Cond.(*ssa.BinOp); ok {
				if _, isPtr := bo.X.Type().Underlying().(*types.Pointer); isPtr {
					continue
				}
			}
			for k := 0; k < 2; k++ {
				v, isC := retConst(b.Succs[k])
				if !isC || !v {
					continue
				}
				// the other arm: does it go on comparing (anything but `return false`)?
				ov, oc := retConst(b.Succs[1-k])
				if oc && !ov {
					continue
				}
				if !badAt.IsValid() {
					badAt = ifi.Cond.Pos()
					if !badAt.IsValid() {
						badAt = f.Pos()
					}
				}
			}
		}
		if badAt.IsValid() {
			r.bad(rule, key, p.pos(badAt), "a branch answers true as soon as this one comparison succeeds while its other arm goes on to compare something else: values that agree in one component only are reported equal")
		} else {
			r.ok(rule, key, p.pos(f.Pos()), "no branch returns true on a partial comparison")
		}
	}
	return n
}

// parallelRemainderRule (C01.f PARALLEL-REMAINDERS): a comparator that walks its
// two operands in step keeps one loop-carried "rest" per operand, advanced by
// the same function (pl, ql = rest(pl), rest(ql)). The two must be treated
// alike: if the loop (or anything after it) tests one of them, the other has
// to be tested or returned somewhere too. A loop that runs "while the
// receiver's rest is not empty" and then answers 0 never looks at what the
// argument still holds: 1.0+abc compares equal to 1.0+abc.1 one way round and
// greater the other way.
func parallelRemainderRule(r *Report, p *Prog, rule string, fns []*ssa.Function) int {
	n := 0
	for _, f := range fns {
		if f == nil || f.Blocks == nil {
			continue
		}
		for _, b := range f.Blocks {
			var phis []*ssa.Phi
			for _, in := range b.Instrs {
				if ph, ok := in.(*ssa.Phi); ok {
					phis = append(phis, ph)
				}
			}
			// the recurrence of a phi: an edge that is Extract#k of a call g(..phi..)
			type rec struct {
				fn   *ssa.Function
				idx  int
				call *ssa.Call
			}
			recOf := func(ph *ssa.Phi) *rec {
				for _, e := range ph.Edges {
					ex, ok := e.(*ssa.Extract)
					if !ok {
						continue
					}
					c, ok := ex.Tuple.(*ssa.Call)
					if !ok || c.Common().StaticCallee() == nil {
						continue
					}
					for _, a := range c.Common().Args {
						if a == ssa.Value(ph) {
							return &rec{c.Common().StaticCallee(), ex.Index, c}
						}
					}
				}
				return nil
			}
			// is the phi tested (compared) or returned, apart from feeding its own recurrence?
			tested := func(ph *ssa.Phi, own *ssa.Call) bool {
				if ph.Referrers() == nil {
					return false
				}
				for _, u := range *ph.Referrers() {
					switch x := u.(type) {
					case *ssa.BinOp:
						return true
					case *ssa.Return:
						return true
					case *ssa.Call:
						if x != own {
							return true
						}
					case *ssa.Phi:
						// flows on (e.g. to the value after the loop): look one step further
						if x != ph && x.Referrers() != nil {
							for _, u2 := range *x.Referrers() {
								switch u2.(type) {
								case *ssa.BinOp, *ssa.Return:
									return true
								}
							}
						}
					}
				}
				return false
			}
			for i := 0; i < len(phis); i++ {
				ri := recOf(phis[i])
				if ri == nil {
					continue
				}
				for j := i + 1; j < len(phis); j++ {
					rj := recOf(phis[j])
					if rj == nil || rj.fn != ri.fn || rj.idx != ri.idx || !types.Identical(phis[i].Type(), phis[j].Type()) {
						continue
					}
					n++
					key := fmt.Sprintf("%s: the rests advanced by %s are tested alike", fnKey(f), ri.fn.Name())
					ti, tj := tested(phis[i], ri.call), tested(phis[j], rj.call)
					if ti == tj {
						how := "neither rest is tested: the walk is bounded by a count computed from both operands"
						if ti {
							how = "both rests are tested or returned"
						}
						r.ok(rule, key, p.pos(ri.call.Pos()), how)
					} else {
						r.bad(rule, key, p.pos(ri.call.Pos()), "the two operands are walked in step, but the rest of only one of them is ever tested: when that one runs out the other's remaining elements are never looked at, so a shorter operand compares equal to a longer one from one side and smaller from the other")
					}
				}
			}
		}
	}
	return n
}
