module depscheck

go 1.23.4

require (
	golang.org/x/tools v0.29.0
	google.golang.org/genproto v0.0.0-20230410155749-daa745c078e1
	google.golang.org/protobuf v1.36.6
)

require (
	golang.org/x/mod v0.22.0 // indirect
	golang.org/x/sync v0.10.0 // indirect
)
