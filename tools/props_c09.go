package main

import (
	"fmt"
	"go/ast"
	"go/constant"
	"go/token"
	"go/types"
	"sort"
	"strings"

	"golang.org/x/tools/go/ssa"
)

// checkC09: thin structural clauses of "union and intersection mean union and
// intersection of the versions matched".
func checkC09(r *Report) {
	p := loadResolve("", true)
	e := runEffect(p)
	cmpTrusted(r)
	pathTrusted(r)
	r.Explain = "C09.e TOUCH-BOTH-FLAGS: where Set.Intersect or canon finds that the upper bound of one span equals the lower bound of another (x.max.equal(y.min) or the mirrored form), the condition that equality belongs to consults the open flag of both touching ends (x.maxOpen and y.minOpen): two spans that meet in a point share it only if neither end is open, so a test that looks at one flag only gives a different answer when the operands are swapped. Thin: the set laws themselves are span arithmetic on values and are not decided. Decided are the structural conditions for 'neither operation depends on the order of its operands or of the spans inside them' and 'a set reported as empty matches no version': C09.a CANON-ORDER: the comparator canon uses to order spans is pure, reads min, minOpen, max and maxOpen of both spans (rank is derived from them) and indexes the slice being sorted; C09.b CANON-ALWAYS: every success return of Set.Union and Set.Intersect passes through canon, so the result is in canonical form whatever the order of the inputs; C09.c EMPTY-NO-MATCH: span.contains returns false for the empty rank before looking at the bounds, and Set.Empty tests exactly that rank; C09.d the nil-safety of Intersect's bound comparisons is the rule C04.7/NIL-SPAN, re-run here for the functions of set.go. Not decided: that union/intersection compute the right spans, boundary versions, prerelease admission."
	canon := p.lookupFn("semver.canon")
	if canon == nil {
		r.bad("C09.a/CANON-ORDER", "semver.canon", "", "function not found: anchor lost")
		return
	}
	comps := findComparators(p, []*ssa.Function{canon})
	n := 0
	seen := map[*ssa.Function]bool{}
	for _, c := range comps {
		if c.in != canon {
			continue
		}
		n++
		pureRule(r, p, e, "C09.a/CANON-ORDER", c)
		if st, tn := structOf(c.elem); st != nil {
			coverExclusions["semver.span"] = map[string]string{"rank": "derived from min and max at construction (newSpan)"}
			coverRule(r, p, "C09.a/CANON-ORDER", c.fn, st, tn, indexOps(c.fn), seen)
		}
	}
	r.floor("C09.a/CANON-ORDER", "sort comparators in canon", n, 1)
	if k := sortSelfRule(r, p, "C09.a/CANON-ORDER", []*ssa.Function{canon}); k < 1 {
		r.floor("C09.a/CANON-ORDER", "sort.Slice calls in canon", k, 1)
	}
	// b. CANON-ALWAYS
	for _, name := range []string{"(*semver.Set).Union", "(*semver.Set).Intersect"} {
		f := p.lookupFn(name)
		if f == nil {
			r.bad("C09.b/CANON-ALWAYS", name, "", "function not found: anchor lost")
			continue
		}
		key := fnKey(f) + ": result canonicalised"
		// any return whose error result is the one produced by canon, or a success return, must follow canon
		path := mustPassBlocksExcept(f, func(b *ssa.BasicBlock) bool { return blockCalls(b, nameSet("semver.canon")) != nil }, func(b *ssa.BasicBlock) bool {
			// error returns of newSpan are exempt: true edge of err != nil
			ifi, ok := b.Instrs[len(b.Instrs)-1].(*ssa.If)
			if !ok {
				return false
			}
			bo, ok := ifi.Cond.(*ssa.BinOp)
			if !ok || bo.Op != token.NEQ {
				return false
			}
			c, ok := bo.Y.(*ssa.Const)
			return ok && c.IsNil() && bo.X.Type().String() == "error"
		})
		if path != nil {
			pp := pathPositions(p, path)
			r.bad("C09.b/CANON-ALWAYS", key, pp[len(pp)-1], "a path returns without canonicalising the result: the spans keep an order that depends on the operands' order", pp...)
		} else {
			r.ok("C09.b/CANON-ALWAYS", key, p.pos(f.Pos()), "every return except error returns passes through canon")
		}
	}
	// c. EMPTY-NO-MATCH
	if f := p.lookupFn("(semver.span).contains"); f == nil {
		r.bad("C09.c/EMPTY-NO-MATCH", "(semver.span).contains", "", "function not found: anchor lost")
	} else {
		// the entry block (or its switch chain) tests rank == empty and returns false before any use of min/max
		okc := false
		for _, b := range f.Blocks {
			ifi, ok := b.Instrs[len(b.Instrs)-1].(*ssa.If)
			if !ok {
				continue
			}
			bo, ok := ifi.Cond.(*ssa.BinOp)
			if !ok || bo.Op != token.EQL {
				continue
			}
			fv := nearestField(bo.X)
			c, isC := bo.Y.(*ssa.Const)
			if fv == nil || fv.Name() != "rank" || !isC || c.Value == nil || c.Value.Kind() != constant.Int {
				continue
			}
			if v, _ := constant.Int64Val(c.Value); v != 0 {
				continue
			}
			ret, isRet := b.Succs[0].Instrs[len(b.Succs[0].Instrs)-1].(*ssa.Return)
			if !isRet || len(ret.Results) != 1 {
				continue
			}
			if k, ok := ret.Results[0].(*ssa.Const); ok && k.Value != nil && k.Value.Kind() == constant.Bool && !constant.BoolVal(k.Value) {
				// and it dominates every use of min/max
				dom := true
				for _, ob := range f.Blocks {
					for _, in := range ob.Instrs {
						if v, isVal := in.(ssa.Value); isVal {
							if _, _, isLoad := spanFieldLoad(v); isLoad && !(b.Dominates(ob) && ob != b) {
								dom = false
							}
						}
					}
				}
				if dom {
					okc = true
				}
			}
		}
		key := fnKey(f) + ": the empty span contains nothing"
		if okc {
			r.ok("C09.c/EMPTY-NO-MATCH", key, p.pos(f.Pos()), "rank == empty returns false before the bounds are looked at")
		} else {
			r.bad("C09.c/EMPTY-NO-MATCH", key, p.pos(f.Pos()), "span.contains no longer returns false for the empty rank before using the bounds: a set reported as empty could match (or dereference nil bounds)")
		}
	}
	if f := p.lookupFn("(semver.Set).Empty"); f == nil {
		r.bad("C09.c/EMPTY-NO-MATCH", "(semver.Set).Empty", "", "function not found: anchor lost")
	} else {
		tests := false
		for _, b := range f.Blocks {
			if ifi, ok := b.Instrs[len(b.Instrs)-1].(*ssa.If); ok {
				if bo, ok := ifi.Cond.(*ssa.BinOp); ok && (bo.Op == token.NEQ || bo.Op == token.EQL) {
					if fv := nearestField(bo.X); fv != nil && fv.Name() == "rank" {
						if c, ok := bo.Y.(*ssa.Const); ok && c.Value != nil && c.Int64() == 0 {
							tests = true
						}
					}
				}
			}
		}
		key := fnKey(f) + ": tests the empty rank"
		if tests {
			r.ok("C09.c/EMPTY-NO-MATCH", key, p.pos(f.Pos()), "a set is reported empty exactly when every span has the empty rank, which span.contains never matches")
		} else {
			r.bad("C09.c/EMPTY-NO-MATCH", key, p.pos(f.Pos()), "Set.Empty no longer tests span.rank against the empty rank")
		}
	}
	// d. NIL-SPAN restricted to set.go
	okN, badN := nilSpanRule(p)
	tab := loadTotality()
	cnt := 0
	for _, lst := range [][]nilFinding{okN, badN} {
		for _, fnd := range lst {
			if !strings.HasSuffix(p.Fset.Position(fnd.use.Pos()).Filename, "/set.go") {
				continue
			}
			cnt++
		}
	}
	for i, fnd := range badN {
		if !strings.HasSuffix(p.Fset.Position(fnd.use.Pos()).Filename, "/set.go") {
			continue
		}
		why := ""
		for _, it := range tab.NilSpan {
			if it.Fn == fnKey(fnd.fn) && strings.Contains(derefName(fnd.use), it.Text) {
				why = it.Why
			}
		}
		key := fnKey(fnd.fn) + ": span." + fnd.field + " dereferenced by " + derefName(fnd.use)
		if why != "" {
			r.ok("C09.d/NIL-SPAN", key, p.pos(fnd.use.Pos()), "reviewed: "+why)
		} else {
			_ = i
			r.bad("C09.d/NIL-SPAN", key, p.pos(fnd.use.Pos()), "a bound of a possibly empty span is dereferenced without a test that excludes the empty span")
		}
	}
	for _, fnd := range okN {
		if strings.HasSuffix(p.Fset.Position(fnd.use.Pos()).Filename, "/set.go") {
			r.ok("C09.d/NIL-SPAN", fnKey(fnd.fn)+": span."+fnd.field+" dereferenced by "+derefName(fnd.use)+" @"+p.pos(fnd.use.Pos()), p.pos(fnd.use.Pos()), "dominated by a test that excludes the empty span or nil")
		}
	}
	r.floor("C09.d/NIL-SPAN", "dereferences of span bounds in set.go", cnt, 8)
	touchBothFlagsRule(r, p, "C09.e/TOUCH-BOTH-FLAGS")
	nK := skipCounterRule(r, p, "C09.g/SKIP-COUNTER", "semver")
	r.floor("C09.g/SKIP-COUNTER", "merge loops (inner index starting at the outer index + 1) in package semver", nK, 1)
	boundsCopiedRule(r, p, "C09.i/BOUNDS-COPIED")
	tiePrereleaseRule(r, p, "C09.l/TIE-PRERELEASE")
	nMT := mergeTaggedRule(r, p, "C09.n/MERGE-TAGGED")
	r.floor("C09.n/MERGE-TAGGED", "folds of one span into another in canon", nMT, 1)
	nMB := markersBothRule(r, p, "C09.m/MARKERS-BOTH")
	r.floor("C09.m/MARKERS-BOTH", "functions of package semver that compare one number with both markers", nMB, 1)
	nPF := preFlagRule(r, p, "C09.k/PRE-FLAG")
	r.floor("C09.k/PRE-FLAG", "sites where the prerelease tags of a bound are dropped or a copied bound is bumped", nPF, 6)
	nNP := numsPaddedRule(r, p, "C09.j/NUMS-PADDED")
	r.floor("C09.j/NUMS-PADDED", "same-numbers tests between two versions in package semver", nNP, 2)
	nS := successorRule(r, p, "C09.h/SUCCESSOR")
	r.floor("C09.h/SUCCESSOR", "successor computations (inc outside the operator desugaring) in package semver", nS, 1)
	nF := canonFreshRule(r, p, "C09.f/CANON-FRESH")
	r.floor("C09.f/CANON-FRESH", "calls of canon in package semver", nF, 3)
}

// touchBothFlagsRule: see checkC09 (C09.e).
func touchBothFlagsRule(r *Report, p *Prog, rule string) {
	fieldOfSpan := func(v ssa.Value) (base ssa.Value, name string) {
		for d := 0; d < 4 && v != nil; d++ {
			switch x := v.(type) {
			case *ssa.Field:
				if strings.HasSuffix(x.X.Type().String(), "semver.span") {
					return x.X, x.X.Type().Underlying().(*types.Struct).Field(x.Field).Name()
				}
				return nil, ""
			case *ssa.UnOp:
				if fa, ok := x.X.(*ssa.FieldAddr); ok && x.Op == token.MUL {
					if strings.HasSuffix(fa.X.Type().String(), "semver.span") {
						return fa.X, fa.X.Type().Underlying().(*types.Pointer).Elem().Underlying().(*types.Struct).Field(fa.Field).Name()
					}
					return nil, ""
				}
				v = x.X
			default:
				return nil, ""
			}
		}
		return nil, ""
	}
	n := 0
	for _, fname := range []string{"(*semver.Set).Intersect", "semver.canon"} {
		f := p.lookupFn(fname)
		if f == nil {
			r.bad(rule, fname, "", "function not found: anchor lost")
			continue
		}
		perFn := 0
		for _, b := range f.Blocks {
			for _, in := range b.Instrs {
				c, ok := in.(*ssa.Call)
				if !ok || staticCalleeName(c) != "(*semver.Version).equal" || len(c.Call.Args) != 2 {
					continue
				}
				xb, xf := fieldOfSpan(c.Call.Args[0])
				yb, yf := fieldOfSpan(c.Call.Args[1])
				if xb == nil || yb == nil || xb == yb {
					continue
				}
				// only a max meeting a min is a touching point
				if !((xf == "max" && yf == "min") || (xf == "min" && yf == "max")) {
					continue
				}
				n++
				perFn++
				want := map[string]ssa.Value{xf + "Open": xb, yf + "Open": yb}
				seen := map[string]bool{}
				// the rest of the same condition: blocks that only load fields and branch
				isCond := func(x *ssa.BasicBlock) bool {
					for _, i2 := range x.Instrs {
						switch i2.(type) {
						case *ssa.FieldAddr, *ssa.Field, *ssa.UnOp, *ssa.Phi, *ssa.BinOp, *ssa.If, *ssa.Jump, *ssa.DebugRef:
						default:
							return false
						}
					}
					return true
				}
				region := map[*ssa.BasicBlock]bool{b: true}
				work := append([]*ssa.BasicBlock{}, b.Succs...)
				for len(work) > 0 {
					x := work[len(work)-1]
					work = work[:len(work)-1]
					if region[x] || !isCond(x) {
						continue
					}
					region[x] = true
					work = append(work, x.Succs...)
				}
				for _, b2 := range f.Blocks {
					if !region[b2] {
						continue
					}
					for _, in2 := range b2.Instrs {
						var base ssa.Value
						name := ""
						switch x := in2.(type) {
						case *ssa.Field:
							if strings.HasSuffix(x.X.Type().String(), "semver.span") {
								base, name = x.X, x.X.Type().Underlying().(*types.Struct).Field(x.Field).Name()
							}
						case *ssa.FieldAddr:
							if strings.HasSuffix(x.X.Type().String(), "semver.span") {
								base, name = x.X, x.X.Type().Underlying().(*types.Pointer).Elem().Underlying().(*types.Struct).Field(x.Field).Name()
							}
						}
						if w, ok := want[name]; ok && w == base {
							seen[name] = true
						}
					}
				}
				var missing []string
				for k := range want {
					if !seen[k] {
						missing = append(missing, k)
					}
				}
				sort.Strings(missing)
				key := fmt.Sprintf("%s: %s meets %s #%d", fnKey(f), xf, yf, perFn)
				if len(missing) > 0 {
					r.bad(rule, key, p.pos(c.Pos()), fmt.Sprintf("the bounds of two spans are found equal, but the condition it belongs to never looks at %v of the span on that side: two spans that meet in a point share it only if neither end is open, so the answer differs when the operands are swapped (a half-open span meeting a closed one yields a one-point set from one side and nothing from the other)", missing))
				} else {
					r.ok(rule, key, p.pos(c.Pos()), "both open flags of the touching ends are consulted in the condition the equality belongs to")
				}
			}
		}
	}
	r.floor(rule, "max-meets-min equalities in Intersect and canon", n, 2)
}

// canonFreshRule (C09.f CANON-FRESH): canon sorts and rewrites its argument in
// place. A Set is a value whose copies share the backing array of span, so a
// caller must hand canon a slice whose array it allocated itself; a slice
// grown by append from an operand's span writes into (and then reorders) the
// array every copy of that operand still reads.
func canonFreshRule(r *Report, p *Prog, rule string) int {
	canon := p.lookupFn("semver.canon")
	if canon == nil {
		r.bad(rule, "semver.canon", "", "function not found: anchor lost")
		return 0
	}
	n := 0
	for _, f := range p.Funcs {
		if !p.inScope(f) || f.Blocks == nil || f.Pkg != canon.Pkg {
			continue
		}
		for _, b := range f.Blocks {
			for _, in := range b.Instrs {
				c, ok := in.(*ssa.Call)
				if !ok || c.Common().StaticCallee() != canon || len(c.Common().Args) != 1 {
					continue
				}
				n++
				key := fmt.Sprintf("%s: slice handed to canon is allocated here", fnKey(f))
				state := map[ssa.Value]int{} // 1 = in progress (assumed fresh), 2 = fresh, 3 = not fresh
				var culprit ssa.Value
				var fresh func(v ssa.Value) bool
				fresh = func(v ssa.Value) bool {
					switch state[v] {
					case 1, 2:
						return true
					case 3:
						return false
					}
					state[v] = 1
					res := false
					switch x := v.(type) {
					case *ssa.MakeSlice:
						res = true
					case *ssa.Const:
						res = x.IsNil()
					case *ssa.Slice:
						if al, ok := x.X.(*ssa.Alloc); ok {
							_, isArr := al.Type().Underlying().(*types.Pointer).Elem().Underlying().(*types.Array)
							res = isArr
						} else {
							res = fresh(x.X)
						}
					case *ssa.Phi:
						res = true
						for _, e := range x.Edges {
							if !fresh(e) {
								res = false
							}
						}
					case *ssa.Call:
						if bi, ok := x.Common().Value.(*ssa.Builtin); ok && bi.Name() == "append" {
							res = fresh(x.Common().Args[0])
						} else if sc := x.Common().StaticCallee(); sc != nil && sc.Pkg != nil && sc.Pkg.Pkg.Path() == "slices" && sc.Name() == "Clone" {
							res = true
						}
					case *ssa.Extract:
						// the result of canon itself is as fresh as what it was given
						if cc, ok := x.Tuple.(*ssa.Call); ok && cc.Common().StaticCallee() == canon && x.Index == 0 {
							res = fresh(cc.Common().Args[0])
						}
					}
					if res {
						state[v] = 2
					} else {
						state[v] = 3
						if culprit == nil {
							culprit = v
						}
					}
					return res
				}
				if fresh(c.Common().Args[0]) {
					r.ok(rule, key, p.pos(c.Pos()), "the argument is built from nil, make, a literal or appends to those")
				} else {
					what := "a value not allocated in this function"
					if culprit != nil {
						what = culprit.String()
						if culprit.Pos().IsValid() {
							what += " at " + p.pos(culprit.Pos())
						}
					}
					r.bad(rule, key, p.pos(c.Pos()), "canon rewrites its argument in place, and the slice it is given here starts from "+what+": copies of the operand (Constraint.Set returns one) share that array, so the operand's spans are overwritten and reordered")
				}
			}
		}
	}
	return n
}

// skipCounterRule (C09.g SKIP-COUNTER): a merge loop of the form
//
//	for i := 0; i < n; i++ { for j := i + 1; j < n; j++ { ...; i++; ... } }
//
// uses i++ to say "s[j] has been consumed, the outer loop must not visit it".
// That is right only while j == i+1 on entry to every inner iteration, i.e.
// only if every inner iteration that goes on to the next j has advanced i.
// An inner `continue` that comes before the i++ leaves s[j] unconsumed; when a
// later j is consumed, the outer loop skips the unconsumed element instead (it
// is dropped) and visits the consumed one again.
func skipCounterRule(r *Report, p *Prog, rule string, pkgs ...string) int {
	n := 0
	for _, rel := range pkgs {
		pk := p.pkg(rel)
		if pk == nil {
			continue
		}
		for _, f := range pk.Syntax {
			if strings.HasSuffix(p.Fset.Position(f.Pos()).Filename, "_test.go") {
				continue
			}
			ord := map[string]int{}
			ast.Inspect(f, func(nd ast.Node) bool {
				outer, ok := nd.(*ast.ForStmt)
				if !ok || outer.Post == nil {
					return true
				}
				inc, ok := outer.Post.(*ast.IncDecStmt)
				if !ok || inc.Tok != token.INC {
					return true
				}
				oid, ok := inc.X.(*ast.Ident)
				if !ok {
					return true
				}
				ovar := pk.TypesInfo.Uses[oid]
				for _, st := range outer.Body.List {
					inner, ok := st.(*ast.ForStmt)
					if !ok || inner.Init == nil {
						continue
					}
					// j := i + 1
					as, ok := inner.Init.(*ast.AssignStmt)
					if !ok || len(as.Rhs) != 1 {
						continue
					}
					be, ok := ast.Unparen(as.Rhs[0]).(*ast.BinaryExpr)
					if !ok || be.Op != token.ADD {
						continue
					}
					bx, ok := be.X.(*ast.Ident)
					if !ok || pk.TypesInfo.Uses[bx] != ovar {
						continue
					}
					n++
					fn := p.enclosingFuncName(inner.Pos())
					ord[fn]++
					key := fmt.Sprintf("%s: inner loop #%d from %s+1", fn, ord[fn], oid.Name)
					// the statement in the inner body that advances the outer counter
					var adv *ast.IncDecStmt
					topLevel := false
					ast.Inspect(inner.Body, func(m ast.Node) bool {
						if _, ok := m.(*ast.FuncLit); ok {
							return false
						}
						if is, ok := m.(*ast.IncDecStmt); ok && is.Tok == token.INC {
							if x, ok := is.X.(*ast.Ident); ok && pk.TypesInfo.Uses[x] == ovar && adv == nil {
								adv = is
							}
						}
						return true
					})
					if adv == nil {
						r.ok(rule, key, p.pos(inner.Pos()), "the inner loop does not advance the outer counter")
						continue
					}
					for _, s2 := range inner.Body.List {
						if s2 == ast.Stmt(adv) {
							topLevel = true
						}
					}
					var bypass []string
					ast.Inspect(inner.Body, func(m ast.Node) bool {
						switch x := m.(type) {
						case *ast.FuncLit, *ast.ForStmt, *ast.RangeStmt:
							if m != ast.Node(inner.Body) {
								return false
							}
						case *ast.BranchStmt:
							if x.Tok == token.CONTINUE && x.Label == nil && x.Pos() < adv.Pos() {
								bypass = append(bypass, p.pos(x.Pos()))
							}
						}
						return true
					})
					switch {
					case !topLevel:
						r.bad(rule, key, p.pos(adv.Pos()), "the outer counter is advanced under a condition inside the inner loop: an iteration that does not advance it leaves an unconsumed element between the outer position and the elements consumed later, and the outer loop then skips the wrong one")
					case len(bypass) > 0:
						r.bad(rule, key, p.pos(adv.Pos()), fmt.Sprintf("%s++ marks the element at the inner index as consumed, but %d `continue` statement(s) before it go on to the next inner index without it (%s): once a later element is consumed the outer loop skips the unconsumed one, which is dropped from the result, and visits the consumed one again", oid.Name, len(bypass), strings.Join(bypass, ", ")), bypass...)
					default:
						r.ok(rule, key, p.pos(adv.Pos()), "every path to the next inner index passes the advance of the outer counter")
					}
				}
				return true
			})
		}
	}
	return n
}

// successorRule (C09.h): canon decides that two spans with different bounds
// adjoin by computing the successor of the lower span's upper bound
// (max.copy(); inc()) and comparing it with the next lower bound.
//
//	(1) SUCCESSOR-COMPLETE: Version.inc steps by the last number that was
//	    written ("2" -> "3", "2.0" -> "2.1": it serves the desugaring of
//	    operators on partial versions). Outside that desugaring
//	    (opVersionToSpan) inc is a successor function only on a completed
//	    version: a fill on the same value precedes it. Otherwise "<2 || >=2.5.0"
//	    is found to adjoin and the gap 2.0.0..2.5.0 is swallowed.
//	(2) ADJOIN-FLAGS: the successor of max is the next version of the SPAN only
//	    if max belongs to it, and next.min only starts the next span if it
//	    belongs to that: the branch that holds the successor test reads
//	    maxOpen and minOpen. Otherwise [1.0.0:2.0.0) and (2.0.0:...] are fused
//	    and the excluded 2.0.0 is matched.
func successorRule(r *Report, p *Prog, rule string) int {
	n := 0
	for _, f := range p.Funcs {
		if f.Pkg == nil || f.Blocks == nil || f.Pkg.Pkg.Path() != modPrefix+"semver" || f.Synthetic != "" {
			continue
		}
		if fnKey(f) == "semver.opVersionToSpan" {
			continue
		}
		per := 0
		for _, b := range f.Blocks {
			for i, in := range b.Instrs {
				c, ok := in.(*ssa.Call)
				if !ok || staticCalleeName(c) != "(*semver.Version).inc" {
					continue
				}
				n++
				per++
				v := c.Common().Args[0]
				key1 := fmt.Sprintf("%s: successor #%d is taken of a completed version", fnKey(f), per)
				filled := false
				for _, b2 := range f.Blocks {
					for j, in2 := range b2.Instrs {
						c2, ok := in2.(*ssa.Call)
						if !ok || staticCalleeName(c2) != "(*semver.Version).fill" || c2.Common().Args[0] != v {
							continue
						}
						if (b2 == b && j < i) || (b2 != b && b2.Dominates(b)) {
							filled = true
						}
					}
				}
				if filled {
					r.ok(rule, key1, p.pos(c.Pos()), "fill precedes inc on the same value")
				} else {
					r.bad(rule, key1, p.pos(c.Pos()), "inc is used as a successor function on a bound that may be a partial version: inc steps by the last number written (\"2\" -> \"3\", \"2.0\" -> \"2.1\"), so a bound written with fewer than three numbers is found to adjoin anything up to a major or minor version away and the gap between the spans is swallowed")
				}
				// (2) the region holding the successor test: blocks dominated by the block of the copy
				start := b
				if cp, ok := v.(*ssa.Call); ok {
					start = cp.Block()
				}
				readsMax, readsMin := false, false
				for _, b2 := range f.Blocks {
					if b2 != start && !start.Dominates(b2) {
						continue
					}
					for _, in2 := range b2.Instrs {
						name := ""
						switch x := in2.(type) {
						case *ssa.Field:
							if strings.HasSuffix(x.X.Type().String(), "semver.span") {
								name = x.X.Type().Underlying().(*types.Struct).Field(x.Field).Name()
							}
						case *ssa.FieldAddr:
							if strings.HasSuffix(x.X.Type().String(), "semver.span") {
								name = x.X.Type().Underlying().(*types.Pointer).Elem().Underlying().(*types.Struct).Field(x.Field).Name()
							}
						}
						switch name {
						case "maxOpen":
							readsMax = true
						case "minOpen":
							readsMin = true
						}
					}
				}
				key2 := fmt.Sprintf("%s: successor test #%d consults the open flags of the touching ends", fnKey(f), per)
				if readsMax && readsMin {
					r.ok(rule, key2, p.pos(c.Pos()), "the branch that holds the successor test reads maxOpen and minOpen")
				} else {
					r.bad(rule, key2, p.pos(c.Pos()), "the branch that decides whether two spans with different bounds adjoin never looks at maxOpen of the lower span or minOpen of the upper one: the successor of an excluded upper bound is taken as if the bound belonged to the span, so [a:b) and (b:c] are fused and b, which neither contains, is matched")
				}
			}
		}
	}
	return n
}

// boundsCopiedRule (C09.i BOUNDS-COPIED): newSpan normalises the versions it is
// given IN PLACE (wildcards become 0 or infinity, the build tag is cleared).
// Set.Intersect builds its result from the bounds of its two operands; handing
// newSpan those very *Version pointers rewrites the operands (and every Set
// that shares their spans): a set whose bound was written with a wildcard
// means something else after it has been an argument of Intersect, and
// concurrent intersections of copies of one constraint race. Every *Version
// argument of the newSpan call in Intersect is the result of Version.copy().
func boundsCopiedRule(r *Report, p *Prog, rule string) {
	f := p.lookupFn("(*semver.Set).Intersect")
	key := "(*semver.Set).Intersect: the bounds handed to newSpan are copies"
	if f == nil {
		r.bad(rule, key, "", "Intersect not found: anchor lost")
		return
	}
	var isCopy func(v ssa.Value, d int) bool
	isCopy = func(v ssa.Value, d int) bool {
		if d > 5 {
			return false
		}
		switch x := v.(type) {
		case *ssa.Call:
			return staticCalleeName(x) == "(*semver.Version).copy"
		case *ssa.Phi:
			for _, e := range x.Edges {
				if !isCopy(e, d+1) {
					return false
				}
			}
			return true
		}
		return false
	}
	n := 0
	var bad []string
	var at token.Pos
	for _, b := range f.Blocks {
		for _, in := range b.Instrs {
			c, ok := in.(*ssa.Call)
			if !ok || staticCalleeName(c) != "semver.newSpan" {
				continue
			}
			n++
			at = c.Pos()
			for i, a := range c.Common().Args {
				if _, isPtr := a.Type().Underlying().(*types.Pointer); !isPtr {
					continue
				}
				if !isCopy(a, 0) {
					bad = append(bad, fmt.Sprintf("argument %d (%s)", i+1, a.Name()))
				}
			}
		}
	}
	switch {
	case n == 0:
		r.bad(rule, key, p.pos(f.Pos()), "no call of newSpan in Intersect: anchor lost")
	case len(bad) > 0:
		r.bad(rule, key, p.pos(at), "newSpan rewrites the versions it is given (setTail on wildcards, build cleared) and is handed the operands' own bounds here ("+strings.Join(bad, ", ")+"): the operands of an intersection are modified, and intersections running concurrently on copies of one constraint race on them")
	default:
		r.ok(rule, key, p.pos(at), "every *Version argument is the result of Version.copy()")
	}
}

// numsPaddedRule (C09.j NUMS-PADDED): 1.2-alpha and 1.2.0-alpha are the same
// version: compare, numsEqual, Intersect and canon all pad the shorter number
// list with zeros. A test that two versions "have the same numbers" made with
// a length-sensitive slice comparison (equalValues on the two num slices)
// answers differently for the two spellings, so whether a prerelease is
// admitted by a span depends on how the bound, or the candidate, was written,
// and on which operand of an intersection supplied the bound.
func numsPaddedRule(r *Report, p *Prog, rule string) int {
	isNum := func(v ssa.Value) bool {
		ld, ok := v.(*ssa.UnOp)
		if !ok {
			return false
		}
		fa, ok := ld.X.(*ssa.FieldAddr)
		if !ok {
			return false
		}
		pt, ok := fa.X.Type().Underlying().(*types.Pointer)
		if !ok || !strings.HasSuffix(pt.Elem().String(), "semver.Version") {
			return false
		}
		return pt.Elem().Underlying().(*types.Struct).Field(fa.Field).Name() == "num"
	}
	n := 0
	for _, f := range p.Funcs {
		if f.Pkg == nil || f.Blocks == nil || f.Synthetic != "" || f.Pkg.Pkg.Path() != modPrefix+"semver" {
			continue
		}
		per := 0
		for _, b := range f.Blocks {
			for _, in := range b.Instrs {
				c, ok := in.(*ssa.Call)
				if !ok {
					continue
				}
				switch staticCalleeName(c) {
				case "semver.numsEqual":
					n++
					per++
					r.ok(rule, fmt.Sprintf("%s: same-numbers test #%d pads", fnKey(f), per), p.pos(c.Pos()), "numsEqual")
				case "semver.equalValues":
					if len(c.Common().Args) == 2 && isNum(c.Common().Args[0]) && isNum(c.Common().Args[1]) {
						n++
						per++
						r.bad(rule, fmt.Sprintf("%s: same-numbers test #%d pads", fnKey(f), per), p.pos(c.Pos()), "the number lists of two versions are compared with equalValues, which compares the lengths first: 1.2-alpha and 1.2.0-alpha, equal for compare, numsEqual, Intersect and canon, are different here, so a span admits or refuses a prerelease depending on how its bound (or the candidate) was written")
					}
				}
			}
		}
	}
	return n
}

// preFlagRule (C09.k PRE-FLAG): a Version carries its prerelease tags (pre) and
// a flag (isPrerelease) that span.contains consults to admit prereleases whose
// numbers equal a bound's. Version.clearPre drops the tags only (resetting the
// flag there would break NuGet's "*-*"), so a bound whose tags were dropped
// keeps admitting prereleases unless the flag is reset next to the call, and
// canon, which looks at the tags, merges such a span with release-only spans.
//
//	(1) every clearPre call site is followed in its block by a store of false
//	    into isPrerelease of the same version, or is on the reviewed list
//	    (upper bounds whose numbers are then infinite, or equal the lower
//	    bound's);
//	(2) a bound made by copy() and a number bump (incN) outside Version.inc has
//	    its tags dropped and its flag reset in the same function.
var preFlagReviewed = map[string]string{
	"semver.opVersionToSpan: clearPre #2": ">= bound: every number of hi has just been set to infinity, no candidate has these numbers",
	"semver.opVersionToSpan: clearPre #3": "^0.0: the patch of hi is infinity",
	"semver.opVersionToSpan: clearPre #4": "^0.x.y: the patch of hi is infinity, or (^0.0.z) hi has the numbers of lo, whose own tag already admits the same prereleases",
	"semver.opVersionToSpan: clearPre #5": "^*: every number of hi is infinity",
	"semver.opVersionToSpan: clearPre #6": "^x.y.z: minor and patch of hi are infinity",
}

func preFlagRule(r *Report, p *Prog, rule string) int {
	flagReset := func(b *ssa.BasicBlock, after int, recv ssa.Value) bool {
		for _, in := range b.Instrs[after+1:] {
			st, ok := in.(*ssa.Store)
			if !ok {
				continue
			}
			fa, ok := st.Addr.(*ssa.FieldAddr)
			if !ok || !sameVar(fa.X, recv) && fa.X != recv {
				continue
			}
			pt, ok := fa.X.Type().Underlying().(*types.Pointer)
			if !ok {
				continue
			}
			stt, ok := pt.Elem().Underlying().(*types.Struct)
			if !ok || stt.Field(fa.Field).Name() != "isPrerelease" {
				continue
			}
			if c, ok := st.Val.(*ssa.Const); ok && c.Value != nil && c.Value.Kind() == constant.Bool && !constant.BoolVal(c.Value) {
				return true
			}
		}
		return false
	}
	n := 0
	for _, f := range p.Funcs {
		if f.Pkg == nil || f.Blocks == nil || f.Synthetic != "" || f.Pkg.Pkg.Path() != modPrefix+"semver" {
			continue
		}
		if fnKey(f) == "(*semver.Version).clearPre" || fnKey(f) == "(*semver.Version).inc" {
			continue
		}
		per := 0
		for _, b := range f.Blocks {
			for i, in := range b.Instrs {
				c, ok := in.(*ssa.Call)
				if !ok {
					continue
				}
				switch staticCalleeName(c) {
				case "(*semver.Version).clearPre":
					n++
					per++
					key := fmt.Sprintf("%s: clearPre #%d", fnKey(f), per)
					switch {
					case flagReset(b, i, c.Common().Args[0]):
						r.ok(rule, key, p.pos(c.Pos()), "followed by isPrerelease = false on the same version")
					case preFlagReviewed[key] != "":
						r.ok(rule, key, p.pos(c.Pos()), "reviewed: "+preFlagReviewed[key])
					default:
						r.bad(rule, key, p.pos(c.Pos()), "the prerelease tags of a bound are dropped but its isPrerelease flag is left set: span.contains consults the flag and keeps admitting prereleases with the bound's numbers, while canon, which looks at the tags, treats the span as release-only and merges it away")
					}
				case "(*semver.Version).incN":
					recv := c.Common().Args[0]
					cp, ok := recv.(*ssa.Call)
					if !ok || staticCalleeName(cp) != "(*semver.Version).copy" {
						continue
					}
					// once per copied bound
					first := true
					for _, b2 := range f.Blocks {
						for _, in2 := range b2.Instrs {
							if c2, ok := in2.(*ssa.Call); ok && c2 != c && staticCalleeName(c2) == "(*semver.Version).incN" && c2.Common().Args[0] == recv && c2.Pos() < c.Pos() {
								first = false
							}
						}
					}
					if !first {
						continue
					}
					n++
					key := fmt.Sprintf("%s: bound made by copy and bump drops tags and flag", fnKey(f))
					cleared := false
					for _, b2 := range f.Blocks {
						for j, in2 := range b2.Instrs {
							if c2, ok := in2.(*ssa.Call); ok && staticCalleeName(c2) == "(*semver.Version).clearPre" && c2.Common().Args[0] == recv && flagReset(b2, j, recv) {
								cleared = true
							}
						}
					}
					if cleared {
						r.ok(rule, key, p.pos(c.Pos()), "clearPre and isPrerelease = false on the copied bound")
					} else {
						r.bad(rule, key, p.pos(c.Pos()), "an upper bound is made by copying the lower bound and bumping a number, and keeps the copy's prerelease tags and flag: [v1.5.0-rc.1:v2.0.0-rc.1) admits v2.0.0-alpha, a prerelease of the excluded next major version")
					}
				}
			}
		}
	}
	return n
}

// tiePrereleaseRule (C09.l TIE-PRERELEASE): two lower bounds can compare equal
// and still differ in what they admit: the bound MinVersion synthesises for
// "<X" (0.0.0-0 with isPrerelease cleared on purpose) equals a user-written
// 0.0.0-0, whose flag lets span.contains admit prereleases of 0.0.0. Where
// Intersect finds the lower bounds of its operands equal it must look at that
// flag to choose between them; if it always keeps the receiver's, "<1.0.0
// >=0.0.0-0" and ">=0.0.0-0 <1.0.0" print the same set and match differently.
func tiePrereleaseRule(r *Report, p *Prog, rule string) {
	f := p.lookupFn("(*semver.Set).Intersect")
	key := "(*semver.Set).Intersect: a tie of lower bounds is decided with the prerelease flag"
	if f == nil {
		r.bad(rule, key, "", "Intersect not found: anchor lost")
		return
	}
	spanField := func(v ssa.Value) string {
		// *(&X.min) where X is a span
		ld, ok := v.(*ssa.UnOp)
		if !ok {
			if fv, ok := v.(*ssa.Field); ok && strings.HasSuffix(fv.X.Type().String(), "semver.span") {
				return fv.X.Type().Underlying().(*types.Struct).Field(fv.Field).Name()
			}
			return ""
		}
		fa, ok := ld.X.(*ssa.FieldAddr)
		if !ok {
			return ""
		}
		pt, ok := fa.X.Type().Underlying().(*types.Pointer)
		if !ok || !strings.HasSuffix(pt.Elem().String(), "semver.span") {
			return ""
		}
		return pt.Elem().Underlying().(*types.Struct).Field(fa.Field).Name()
	}
	ties := 0
	flagRead := false
	var at token.Pos
	for _, b := range f.Blocks {
		for _, in := range b.Instrs {
			switch x := in.(type) {
			case *ssa.Call:
				if staticCalleeName(x) == "(*semver.Version).equal" && len(x.Common().Args) == 2 &&
					spanField(x.Common().Args[0]) == "min" && spanField(x.Common().Args[1]) == "min" {
					ties++
					at = x.Pos()
				}
			case *ssa.FieldAddr:
				pt, ok := x.X.Type().Underlying().(*types.Pointer)
				if ok && strings.HasSuffix(pt.Elem().String(), "semver.Version") &&
					pt.Elem().Underlying().(*types.Struct).Field(x.Field).Name() == "isPrerelease" && spanField(x.X) == "min" {
					flagRead = true
				}
			}
		}
	}
	switch {
	case ties == 0:
		r.bad(rule, key, p.pos(f.Pos()), "no test that the lower bounds of the two operands are equal: anchor lost")
	case !flagRead:
		r.bad(rule, key, p.pos(at), "the lower bounds of the two operands are found equal and the receiver's is kept without looking at isPrerelease: the synthetic 0.0.0-0 that MinVersion makes for \"<X\" (flag cleared on purpose) and a user-written 0.0.0-0 compare equal but admit different versions, so the intersection depends on which operand is the receiver")
	default:
		r.ok(rule, key, p.pos(at), "the prerelease flag of a lower bound is read where the bounds tie")
	}
}

// orderedExitRule (C12.k ORDERED-EXIT): leaving a loop over the spans of a set
// as soon as a bound lies beyond the version ("the rest cannot match") is
// correct only if the spans are sorted by lower bound. canon sorts the sets of
// the SemVer systems and PyPI, but returns Maven sets as they were written, and
// the set syntax is not canonicalised either. An early exit of this kind is a
// reviewed exception, not a free optimisation: a new one in a function that
// sees Maven sets (matchVersion) drops the matches of every range written
// after a higher one.
var orderedExitReviewed = map[string]string{
	"semver.canon":            "the slice was sorted by lower bound a few lines above (sort.Slice in canon itself, C09.a), and Maven sets never reach the loop",
	"(*semver.Set).Intersect": "and-lists exist only for the systems whose sets canon sorts; both operands come out of the constraint parser (Maven and NuGet ranges are parsed by setRange and never intersected). The residual case, operands built with the set syntax, is recorded in notes/baseline_findings/C09h",
}

func orderedExitRule(r *Report, p *Prog, rule string) int {
	isCmp := func(v ssa.Value) bool {
		return condDerives(v, 0, func(x ssa.Value) bool {
			c, ok := x.(*ssa.Call)
			if !ok {
				return false
			}
			switch staticCalleeName(c) {
			case "(*semver.Version).lessThan", "(*semver.Version).greaterThan", "(*semver.Version).lessThanOrEqual", "(*semver.Version).greaterThanOrEqual", "(*semver.Version).Compare", "semver.compare":
				return true
			}
			return false
		})
	}
	n := 0
	for _, f := range p.Funcs {
		if f.Pkg == nil || f.Blocks == nil || f.Synthetic != "" || f.Pkg.Pkg.Path() != modPrefix+"semver" {
			continue
		}
		loops := naturalLoops(f)
		sort.Slice(loops, func(i, j int) bool { return loops[i].header.Index < loops[j].header.Index })
		ordinal := 0
		for _, l := range loops {
			// a loop over spans: its body indexes a []span
			overSpans := false
			for b := range l.body {
				for _, in := range b.Instrs {
					switch x := in.(type) {
					case *ssa.IndexAddr:
						if strings.HasSuffix(x.X.Type().String(), "[]deps.dev/util/semver.span") {
							overSpans = true
						}
					case *ssa.Index:
						if strings.HasSuffix(x.X.Type().String(), "[]deps.dev/util/semver.span") {
							overSpans = true
						}
					}
				}
			}
			if !overSpans {
				continue
			}
			n++
			ordinal++
			key := fmt.Sprintf("%s: loop over spans #%d leaves early only where reviewed", fnKey(f), ordinal)
			var exit *ssa.BasicBlock
			for b := range l.body {
				ifi, ok := b.Instrs[len(b.Instrs)-1].(*ssa.If)
				if !ok || b == l.header || !isCmp(ifi.Cond) {
					continue
				}
				for _, s := range b.Succs {
					if l.body[s] || s == l.header {
						continue
					}
					// a break: the target is where the loop goes when it is done
					// (a successor of the header outside the body); a dedicated
					// `return` inside the body is not an order-assuming exit
					isDone := false
					for _, hs := range l.header.Succs {
						if hs == s && !l.body[hs] {
							isDone = true
						}
					}
					if isDone {
						exit = b
					}
				}
			}
			switch {
			case exit == nil:
				r.ok(rule, key, blockPos(p, l.header), "no exit on a bound comparison")
			case orderedExitReviewed[fnKey(f)] != "":
				r.ok(rule, key, blockPos(p, exit), "reviewed: "+orderedExitReviewed[fnKey(f)])
			default:
				r.bad(rule, key, blockPos(p, exit), "the loop over the spans of a set is left as soon as a bound comparison says the rest cannot match, which presumes spans sorted by lower bound: canon leaves Maven sets (and the set syntax leaves every set) in the order written, so the spans after the first one that lies beyond the version are never looked at")
			}
		}
	}
	return n
}
