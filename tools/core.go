package main

import (
	"encoding/json"
	"fmt"
	"os"
	"path/filepath"
	"sort"
	"strings"
	"time"
)

// An Obligation is one rule applied to one construct of /repo.
type Obligation struct {
	Rule  string   `json:"rule"`
	Key   string   `json:"key"` // stable construct key: qualified function + normalised construct, never a line number
	Pos   string   `json:"pos"` // file:line:col relative to the repository root
	OK    bool     `json:"ok"`
	How   string   `json:"how"`             // the argument that discharged it, or the reason it failed
	Trace []string `json:"trace,omitempty"` // for path rules: positions along the offending path
}

// A Floor records how many instances a rule matched against the reviewed minimum.
type Floor struct {
	Rule  string `json:"rule"`
	What  string `json:"what"`
	Found int    `json:"found"`
	Min   int    `json:"min"`
}

// Report accumulates the result of checking one property.
type Report struct {
	Property string
	Level    string
	Tier     string
	Obls     []Obligation
	Floors   []Floor
	Notes    []string
	Stats    map[string]any
	Trusted  []string
	Assume   []string
	Explain  string
	// for translation_validation
	Programs int
	Compared int
	start    time.Time
}

func newReport(prop, tier string) *Report {
	return &Report{Property: prop, Tier: tier, Level: "other", Stats: map[string]any{}, start: time.Now()}
}

func (r *Report) ok(rule, key, pos, how string) {
	r.Obls = append(r.Obls, Obligation{Rule: rule, Key: key, Pos: pos, OK: true, How: how})
}

func (r *Report) bad(rule, key, pos, why string, trace ...string) {
	r.Obls = append(r.Obls, Obligation{Rule: rule, Key: key, Pos: pos, OK: false, How: why, Trace: trace})
}

func (r *Report) floor(rule, what string, found, min int) {
	r.Floors = append(r.Floors, Floor{rule, what, found, min})
}

func (r *Report) note(format string, a ...any) {
	r.Notes = append(r.Notes, fmt.Sprintf(format, a...))
}

// ---- known findings ------------------------------------------------------

type KnownFinding struct {
	Property string `json:"property"`
	Rule     string `json:"rule"`
	Key      string `json:"key"`
	What     string `json:"what"`
}

type KnownFile struct {
	Known []KnownFinding `json:"known"`
	Fixed []string       `json:"fixed"`
}

func verifDir() string {
	if d := os.Getenv("VERIF_DIR"); d != "" {
		return d
	}
	// the binary lives in /verif/bin
	exe, err := os.Executable()
	if err == nil {
		d := filepath.Dir(filepath.Dir(exe))
		if _, err := os.Stat(filepath.Join(d, "properties.jsonl")); err == nil {
			return d
		}
	}
	return "/verif"
}

func loadKnown() KnownFile {
	var k KnownFile
	b, err := os.ReadFile(filepath.Join(verifDir(), "known_findings.json"))
	if err != nil {
		return k
	}
	if err := json.Unmarshal(b, &k); err != nil {
		fmt.Fprintln(os.Stderr, "known_findings.json:", err)
		os.Exit(2)
	}
	return k
}

// ---- finishing: evidence, output, exit status ----------------------------

type ruleStat struct {
	Obligations int `json:"obligations"`
	Discharged  int `json:"discharged"`
	Violated    int `json:"violated"`
}

// finish writes the evidence file, prints KNOWN-FINDING / VIOLATION lines and
// returns the process exit status.
func (r *Report) finish(writeEvidence bool) int {
	known := loadKnown()
	isKnown := func(o Obligation) *KnownFinding {
		for i, k := range known.Known {
			// the thorough tier repeats the rules under GOARCH=386 and tags the keys
			if k.Property == r.Property && k.Rule == o.Rule && k.Key == strings.TrimPrefix(o.Key, "[GOARCH=386] ") {
				return &known.Known[i]
			}
		}
		return nil
	}
	// Floors become obligations so that a vacuous rule fails.
	for _, f := range r.Floors {
		key := "floor:" + f.What
		if f.Found >= f.Min {
			r.ok(f.Rule+"/FLOOR", key, "", fmt.Sprintf("matched %d constructs, reviewed minimum %d", f.Found, f.Min))
		} else {
			r.bad(f.Rule+"/FLOOR", key, "", fmt.Sprintf("rule matched %d constructs, fewer than the %d reviewed by hand: an anchor was lost and the rule would pass vacuously", f.Found, f.Min))
		}
	}
	sort.SliceStable(r.Obls, func(i, j int) bool {
		a, b := r.Obls[i], r.Obls[j]
		if a.Rule != b.Rule {
			return a.Rule < b.Rule
		}
		return a.Key < b.Key
	})
	stats := map[string]*ruleStat{}
	distinct := map[string]bool{}
	var viol, knownHit []Obligation
	for _, o := range r.Obls {
		s := stats[o.Rule]
		if s == nil {
			s = &ruleStat{}
			stats[o.Rule] = s
		}
		s.Obligations++
		distinct[o.Rule+"|"+o.Key] = true
		if o.OK {
			s.Discharged++
			continue
		}
		s.Violated++
		if isKnown(o) != nil {
			knownHit = append(knownHit, o)
		} else {
			viol = append(viol, o)
		}
	}
	outDir := filepath.Join(verifDir(), "out", r.Property)
	os.RemoveAll(outDir)
	for _, o := range knownHit {
		fmt.Printf("KNOWN-FINDING: property=%s %s %s: %s\n", r.Property, o.Rule, o.Key, isKnown(o).What)
	}
	if len(viol) > 0 {
		os.MkdirAll(outDir, 0o755)
	}
	for i, o := range viol {
		path := filepath.Join(outDir, fmt.Sprintf("%d.json", i+1))
		b, _ := json.MarshalIndent(map[string]any{"property": r.Property, "obligation": o}, "", " ")
		os.WriteFile(path, b, 0o644)
		fmt.Printf("%s: [%s] %s: %s\n", o.Pos, o.Rule, o.Key, o.How)
		for _, t := range o.Trace {
			fmt.Printf("    via %s\n", t)
		}
		fmt.Printf("VIOLATION property=%s replay=%s\n", r.Property, path)
	}
	total, disch := 0, 0
	for _, s := range stats {
		total += s.Obligations
		disch += s.Discharged
	}
	fmt.Printf("%s %s: %d obligations, %d discharged, %d known findings, %d violations (%.1fs)\n",
		r.Property, r.Tier, total, disch, len(knownHit), len(viol), time.Since(r.start).Seconds())
	if writeEvidence {
		r.writeEvidence(stats, len(distinct), total, disch, len(viol), len(knownHit))
	}
	if len(viol) > 0 {
		return 1
	}
	return 0
}

func (r *Report) writeEvidence(stats map[string]*ruleStat, distinct, total, disch, viol, known int) {
	// samples: up to 3 obligations per rule, plus every failed one.
	var samples []any
	perRule := map[string]int{}
	for _, o := range r.Obls {
		if !o.OK || perRule[o.Rule] < 3 {
			perRule[o.Rule]++
			samples = append(samples, o)
		}
	}
	if len(samples) == 0 {
		samples = append(samples, "no obligations were generated")
	}
	seed := 0
	fmt.Sscan(os.Getenv("VERIF_SEED"), &seed)
	if r.Assume == nil {
		r.Assume = []string{"none beyond the trusted base listed in coverage.trusted_base"}
	}
	if r.Trusted == nil {
		r.Trusted = []string{}
	}
	if r.Notes == nil {
		r.Notes = []string{}
	}
	cov := map[string]any{
		"explanation":         r.Explain,
		"evaluations":         total,
		"distinct_nontrivial": distinct,
		"rule":                "one obligation per (rule, construct of /repo) found by resolving the rule's anchors through the type-checked program; distinct = distinct (rule, construct key) pairs; an obligation is non-trivial because each corresponds to a construct whose change can break the property clause",
		"obligations":         total,
		"discharged":          disch,
		"known_findings":      known,
		"per_rule":            stats,
		"floors":              r.Floors,
		"samples":             samples,
		"trusted_base":        r.Trusted,
		"checker_cmd":         strings.Join(os.Args, " "),
		"notes":               r.Notes,
		"exhaustive":          true,
	}
	for k, v := range r.Stats {
		cov[k] = v
	}
	if r.Level == "translation_validation" {
		cov["programs"] = r.Programs
		cov["disagreements_checked"] = r.Compared
	}
	ev := map[string]any{
		"property_id": r.Property,
		"tier":        r.Tier,
		"seed":        seed,
		"level":       r.Level,
		"coverage":    cov,
		"assumptions": r.Assume,
		"wall_s":      time.Since(r.start).Seconds(),
		"violations":  viol,
	}
	dir := filepath.Join(verifDir(), "evidence")
	os.MkdirAll(dir, 0o755)
	b, _ := json.MarshalIndent(ev, "", " ")
	if err := os.WriteFile(filepath.Join(dir, r.Property+".json"), append(b, '\n'), 0o644); err != nil {
		fmt.Fprintln(os.Stderr, "cannot write evidence:", err)
		os.Exit(2)
	}
}

func fatalf(format string, a ...any) {
	fmt.Fprintf(os.Stderr, "depscheck: "+format+"\n", a...)
	os.Exit(2)
}
